(* C19 — Peak clustering, summing, merging and splitting conserve hits, area and time.
   Only property theorems, each closed by `exact <lemma>` and followed by Print Assumptions. *)
From SV Require Import Model.PeakHelpers Spec.PeakHelpersSpec Proof.PeakHelpersProof.
From SV Require Import Model.Peaks Spec.PeaksSpec Proof.PeaksProof Proof.PeaksTheorems Proof.PeaksExamples.
From SV Require Import Model.Groups Proof.GroupsProof.
From SV Require Import Model.Merging Spec.MergingSpec Proof.ReplaceMergedProof Proof.MergePeaksProof.
From SV Require Import Proof.ReplaceMergedSorted Proof.PeaksNoCut Proof.MergeWaveformProof.
From SV Require Import Model.PeakProps Spec.PeakPropsSpec Proof.PeakPropsProof.
From SV Require Import Model.Widths Spec.WidthsSpec Proof.WidthsProof.
From SV Require Import Model.Splitting Proof.SplittingProof.
From SV Require Import Model.SumWaveform Proof.SumWaveformProof Spec.SumWaveformSpec Proof.SumWaveformSamples.
From SV Require Import Model.HDR Proof.HDRProof Spec.HDRSpec Proof.HDRLoopProof Proof.HDRDefProof.

(* ------------------------------------------------------------------------------------------ *)
(* symmetric_moving_average (repaired code: `just_out >= 0`, /repo 0edf9fa; `count = min(wing_width,
   n)`, /repo 19272a6) equals the defining windowed mean:
   out[i] = (sum of a[max(0,i-w) .. min(n,i+w+1))) / (number of those samples), as an exact
   fraction, for every array and every wing width w >= 0. *)
Theorem C19_moving_average_is_definition : forall a w, 0 <= w -> sma a w = sma_spec a w.
Proof. exact sma_is_windowed_mean. Qed.
Print Assumptions C19_moving_average_is_definition.

(* documentation of the pinned tree: with `count = wing_width` wing widths larger than the array
   gave sum/wing_width instead of the mean (sma_pinned = the model of that code). *)
Theorem C19_moving_average_is_definition_pinned_refuted :
  exists a w, 0 <= w /\ sma_pinned a w <> sma_spec a w.
Proof. exact sma_pinned_wide_wing_refuted. Qed.
Print Assumptions C19_moving_average_is_definition_pinned_refuted.

(* ------------------------------------------------------------------------------------------ *)
(* find_peaks: whenever the assertions in front of the loop hold and the run succeeds, the output
   is  map peak_of (filter keep gs)  for THE clustering gs of the hits (it exists, is unique, and
   concatenates to the hit list: every hit in exactly one cluster, in order); peak_of / keep are
   the closed formulas of Spec/PeaksSpec.v (start, truncated length, hit count, area, area per
   channel, largest gap; area and channel cuts); every returned peak has positive length. *)
Theorem C19_find_peaks_are_gap_clusters : forall P gains nch hs ps,
  Forall (fun x => 0 <= hch x) hs -> fp_asserts P gains hs = true ->
  find_peaks P gains nch hs = Ok ps ->
  exists gs, Clustering P hs gs /\ (forall gs', Clustering P hs gs' -> gs' = gs) /\ concat gs = hs /\
             ps = map (peak_of P gains nch) (filter (keep P gains nch) gs) /\
             Forall (fun p => 0 < plen p) ps.
Proof. exact find_peaks_spec. Qed.
Print Assumptions C19_find_peaks_are_gap_clusters.

(* the same without assuming success: the run result (peaks or the ValueError) is fp_out of the clustering *)
Theorem C19_find_peaks_result_is_fp_out : forall P gains nch hs,
  Forall (fun x => 0 <= hch x) hs -> fp_asserts P gains hs = true ->
  exists gs, Clustering P hs gs /\ find_peaks P gains nch hs = fp_out P gains nch gs.
Proof. exact find_peaks_clusters. Qed.
Print Assumptions C19_find_peaks_result_is_fp_out.

(* each peak spans its hits plus the extensions (hits of one dt, as the docstring assumes) *)
Theorem C19_find_peaks_peak_spans_hits : forall P gains nch g d,
  g <> [] -> uniform d g -> 0 < d -> 0 <= fp_lext P -> 0 <= fp_rext P -> hits_sorted g ->
  let p := peak_of P gains nch g in
  pt p = gfirst g - fp_lext P /\ pdt p = d /\ pnhits p = zlen g /\
  (forall h, In h g -> pt p + fp_lext P <= ht h /\ hend h <= gend g) /\
  pend p <= gend g + fp_rext P < pend p + d /\
  ((d | gend g - pt p + fp_rext P) -> pend p = gend g + fp_rext P).
Proof. exact peak_spans_hits. Qed.
Print Assumptions C19_find_peaks_peak_spans_hits.

(* disjoint and time-ordered: full statement (false: T3), the part that holds, and the witness *)
Definition C19_full_find_peaks_disjoint_ordered : Prop :=
  forall P gains nch hs ps d,
    find_peaks P gains nch hs = Ok ps -> Forall (fun x => 0 <= hch x) hs -> fp_asserts P gains hs = true ->
    hits_sorted hs -> uniform d hs -> 0 < d -> 0 <= fp_lext P -> 0 <= fp_rext P ->
    peaks_disjoint_ordered ps.

Theorem C19_find_peaks_disjoint_ordered_partial : forall P gains nch hs ps gs d,
  find_peaks P gains nch hs = Ok ps -> Forall (fun x => 0 <= hch x) hs -> fp_asserts P gains hs = true ->
  Clustering P hs gs -> AllFar P gs -> uniform d hs -> 0 < d -> 0 <= fp_lext P -> 0 <= fp_rext P ->
  peaks_disjoint_ordered ps.
Proof. exact find_peaks_disjoint. Qed.
Print Assumptions C19_find_peaks_disjoint_ordered_partial.

(* the same from an input-level condition: max_duration so large that peak_too_long is false for
   every pair of hits (the default 10 ms against typical peak spans) *)
Theorem C19_find_peaks_disjoint_ordered_large_max_duration_partial : forall P gains nch hs ps d,
  find_peaks P gains nch hs = Ok ps -> Forall (fun x => 0 <= hch x) hs -> fp_asserts P gains hs = true ->
  no_duration_cut P hs -> uniform d hs -> 0 < d -> 0 <= fp_lext P -> 0 <= fp_rext P ->
  peaks_disjoint_ordered ps.
Proof. exact find_peaks_disjoint_large_max_duration. Qed.
Print Assumptions C19_find_peaks_disjoint_ordered_large_max_duration_partial.

Theorem C19_find_peaks_disjoint_ordered_refuted :
  exists P gains nch hs ps,
    fp_asserts P gains hs = true /\ hits_sorted hs /\ uniform 1 hs /\
    Forall (fun x => 0 <= hch x) hs /\ 0 <= fp_lext P /\ 0 <= fp_rext P /\
    find_peaks P gains nch hs = Ok ps /\ ~ peaks_disjoint_ordered ps.
Proof. exact find_peaks_overlap_witness. Qed.
Print Assumptions C19_find_peaks_disjoint_ordered_refuted.

(* find_peak_groups (peaks clustered through fake hits of dt 1, area 1, channel 0): whenever it
   succeeds, the result is one interval per cluster of THE gap clustering of the peaks (every peak
   in exactly one cluster, in order; no cluster is dropped), from the cluster's first start minus
   left_extension to its latest end plus right_extension *)
Theorem C19_find_peak_groups_are_gap_clusters : forall gap lext rext maxdur pk out,
  find_peak_groups gap lext rext maxdur pk = Ok out ->
  fp_asserts (group_params gap lext rext maxdur) [1] (map fake_hit pk) = true ->
  exists gs, Clustering (group_params gap lext rext maxdur) (map fake_hit pk) gs /\
             (forall gs', Clustering (group_params gap lext rext maxdur) (map fake_hit pk) gs' -> gs' = gs) /\
             concat gs = map fake_hit pk /\
             out = map (fun g => (gfirst g - lext, gend g + rext)) gs.
Proof. exact find_peak_groups_spec. Qed.
Print Assumptions C19_find_peak_groups_are_gap_clusters.

(* add_lone_hits: when every lone hit is assigned -1 or a peak that contains it (what
   fully_contained_in returns, C17), there is no ValueError; times, lengths, dt and buffer sizes
   are untouched, and every peak gains exactly the areas (x gain) of the lone hits assigned to it:
   in area, in the waveform (delta pulses) and in area_per_channel *)
Theorem C19_add_lone_hits_conserves : forall gains fc lhs peaks,
  alh_valid peaks fc lhs ->
  exists peaks', add_lone_hits gains peaks fc lhs = Ok peaks' /\
    map lshape peaks' = map lshape peaks /\
    forall k, 0 <= k < zlen peaks ->
      let p := nth (Z.to_nat k) peaks lp0 in let p' := nth (Z.to_nat k) peaks' lp0 in
      lp_area p' = lp_area p + added gains k fc lhs /\
      zsum (lp_data p') = zsum (lp_data p) + added gains k fc lhs /\
      zsum (lp_apc p') = zsum (lp_apc p) + added gains k fc lhs.
Proof. exact add_lone_hits_conserves. Qed.
Print Assumptions C19_add_lone_hits_conserves.

Theorem C19_add_lone_hits_keeps_area_integral : forall gains fc lhs peaks peaks',
  alh_valid peaks fc lhs -> add_lone_hits gains peaks fc lhs = Ok peaks' ->
  Forall (fun p => lp_area p = zsum (lp_data p) /\ lp_area p = zsum (lp_apc p)) peaks ->
  Forall (fun p => lp_area p = zsum (lp_data p) /\ lp_area p = zsum (lp_apc p)) peaks'.
Proof. exact add_lone_hits_keeps_area_integral. Qed.
Print Assumptions C19_add_lone_hits_keeps_area_integral.

(* ------------------------------------------------------------------------------------------ *)
(* replace_merged / _replace_merged: for skip windows that lie inside the array, do not overlap
   and have strictly increasing ends, the loop (including the insertion after the loop and all
   its assertions) returns  orig[0:s1] ++ [m1] ++ orig[e1:s2] ++ [m2] ++ ... ++ orig[ek:] :
   every merged peak once, exactly the originals outside all windows, untouched and in order. *)
Theorem C19_replace_merged_keeps_rest : forall (T : Type) (orig : list T) mw,
  wchain (zlen orig) 0 mw -> replace_merged orig mw = Ok (rm_spec orig 0 mw).
Proof. exact @replace_merged_spec. Qed.
Print Assumptions C19_replace_merged_keeps_rest.

(* ... and ordered: if the originals and the merged peaks are ordered by the key (time) and every
   merged peak lies after the originals before its window and before those from its window's end on
   (what touching windows of disjoint intervals give), the result is ordered by the key *)
Theorem C19_replace_merged_ordered : forall (T : Type) (key : T -> Z) (orig : list T) mw out,
  wchain (zlen orig) 0 mw -> ksorted key orig -> win_ordered key orig mw -> merge_sorted key mw ->
  replace_merged orig mw = Ok out -> ksorted key out.
Proof. exact @replace_merged_sorted. Qed.
Print Assumptions C19_replace_merged_ordered.

(* _merge_peaks: each merged peak adds areas, hit counts and per-channel areas, starts at the
   first start, reports the last end, never extends beyond it (and ends less than two of its
   samples before it), and its dt is a multiple of the gcd of the constituents' dt. *)
Theorem C19_merge_adds_and_spans : forall ns nch old p E,
  merge_group ns nch old = Ok (p, E) ->
  exists first, hd_error old = Some first /\
  E = mend (last old first) /\ mt p = mt first /\
  marea p = zsum (map marea old) /\ mnhits p = zsum (map mnhits old) /\
  mapc p = fold_left zaddl (map mapc old) (repeat 0 nch) /\
  (Forall (fun q => length (mapc q) = nch) old ->
   forall c, nth c (mapc p) 0 = zsum (map (fun q => nth c (mapc q) 0) old)) /\
  (0 < ns -> Forall (fun q => 0 < mdt q) old -> mt first <= mend (last old first) ->
   let cdt := gcdl (mdt first) (map mdt old) in
   0 < cdt /\ (forall q, In q old -> (cdt | mdt q)) /\ (cdt | mdt p) /\
   0 <= mlen p /\ mt p + mlen p * mdt p <= E /\ E < mt p + mlen p * mdt p + 2 * mdt p).
Proof. exact merge_group_spec. Qed.
Print Assumptions C19_merge_adds_and_spans.

(* ... and its waveform: for disjoint time-ordered constituents (dt > 0, length >= 0) the buffer
   they are summed into - each up-sampled by dt / common_dt with the samples divided by that
   factor - integrates to the sum of the constituents' waveform integrals; the stored waveform is
   that buffer through store_downsampled_waveform, so it integrates to the same value unless the
   down-sampling truncates (factor > 1 not dividing the length: T5) *)
Theorem C19_merge_waveform_conserves_integral : forall ns nch old p E,
  merge_group ns nch old = Ok (p, E) -> 0 < ns ->
  Forall (fun q => 0 < mdt q /\ 0 <= mlen q) old -> disjointb old = true ->
  exists first, hd_error old = Some first /\
  let cdt := gcdl (mdt first) (map mdt old) in
  let len0 := (mend (last old first) - mt first) / cdt in
  let buf := map (fun j => buf_at old cdt (mt first) j 0%Q) (zseqn 0 (Z.to_nat len0)) in
  let f := ds_factor len0 ns in
  (qsum buf == qsum (map (fun q => wf_integral (mdata q) (mlen q)) old))%Q /\
  mdata p = snd (store_downsampled len0 cdt ns buf) /\
  ((f <= 1 \/ (f | len0)) ->
   (qsum (mdata p) == qsum (map (fun q => wf_integral (mdata q) (mlen q)) old))%Q).
Proof. exact merge_group_waveform. Qed.
Print Assumptions C19_merge_waveform_conserves_integral.

(* sample by sample: inside the slice of a constituent q the buffer holds q's sample
   (j - i0) / up divided by up (i0 = (q.time - time) / common_dt, up = q.dt / common_dt); slices
   of disjoint time-ordered peaks do not overlap, so nothing is overwritten *)
Theorem C19_merge_waveform_samples : forall cdt t0 old lo j acc q,
  slices_from cdt t0 lo old -> In q old -> p_i0 cdt t0 q <= j < p_end cdt t0 q ->
  buf_at old cdt t0 j acc = (qget (mdata q) ((j - p_i0 cdt t0 q) / p_up cdt q) / inject_Z (p_up cdt q))%Q.
Proof. exact buf_at_inside. Qed.
Print Assumptions C19_merge_waveform_samples.

Theorem C19_merge_peaks_one_group_per_range : forall ns nch ps se gs,
  merge_peaks ns nch ps se = Ok gs ->
  2 <= zlen ps /\ disjointb ps = true /\
  Forall2 (fun r g => merge_group ns nch (firstn (Z.to_nat (snd r - fst r)) (skipn (Z.to_nat (fst r)) ps)) = Ok g)
          se gs.
Proof. exact merge_peaks_groups. Qed.
Print Assumptions C19_merge_peaks_one_group_per_range.

(* ------------------------------------------------------------------------------------------ *)
(* compute_index_of_fraction: for ascending fractions_desired the single pass returns, for every
   fraction independently, the index at which the cumulative area fraction first reaches it
   (iof1: linear inside the sample; 0 when never reached), with the documented special case that
   the last entry is the peak length when the fraction being waited for at the end equals 1. *)
Theorem C19_index_of_fraction_is_definition : forall A len data fs,
  qsorted fs -> index_of_fraction A len data fs = iof_spec A len data fs.
Proof. exact index_of_fraction_spec. Qed.
Print Assumptions C19_index_of_fraction_is_definition.

(* compute_widths (K = len(peak["width"]) >= 2, positive area, every fraction below 1 reached):
   with T(m) = the area-fraction time of the fraction m / (2 (K - 1)) in ns (T of the fraction 1 =
   the peak length), median_time = T(1/2), width[k] = T(1/2 + k/(2(K-1))) - T(1/2 - k/(2(K-1))),
   area_decile_from_midpoint[k] = T(k/(K-1)) - T(1/2). *)
Theorem C19_widths_is_definition : forall K A len dt data, (2 <= K)%nat -> (0 < A)%Q ->
  (forall m, 0 <= m < 2 * Z.of_nat K - 2 -> iof1 A data 0 0%Q (wfrac K m) <> None) ->
  compute_widths K A len dt data = widths_spec K A len dt data.
Proof. exact compute_widths_spec. Qed.
Print Assumptions C19_widths_is_definition.

(* a proper peak (non-negative samples, area = their sum > 0) reaches every fraction, and every
   area-fraction time t lies inside the peak and is where the area left of t (whole samples plus
   the linear part of the sample t falls into) equals the fraction of the area *)
Theorem C19_widths_proper_peak : forall K A len dt data, (2 <= K)%nat -> (0 < A)%Q ->
  Forall (fun x => 0 <= x)%Q data -> (A == qsum data)%Q ->
  compute_widths K A len dt data = widths_spec K A len dt data /\
  forall m t, 0 <= m <= 2 * Z.of_nat K - 2 -> iof1 A data 0 0%Q (wfrac K m) = Some t ->
    (0 <= t <= inject_Z (zlen data))%Q /\ (cum_at data t == wfrac K m * A)%Q.
Proof. exact widths_proper_peak. Qed.
Print Assumptions C19_widths_proper_peak.

(* the area-fraction time in general (any start index i and area `seen` before it) *)
Theorem C19_area_fraction_time_is_definition : forall A, (0 < A)%Q -> forall f data i seen t,
  Forall (fun x => 0 <= x)%Q data -> (seen <= f)%Q -> iof1 A data i seen f = Some t ->
  (inject_Z i <= t <= inject_Z i + inject_Z (zlen data))%Q /\
  (seen * A + cum_at data (t - inject_Z i) == f * A)%Q.
Proof. exact iof1_cum. Qed.
Print Assumptions C19_area_fraction_time_is_definition.

(* compute_center_time: for non-negative samples with positive sum the center time is
   time + floor(dt * (mean sample index + 1/2)) and lies inside the peak (the clip is the identity);
   zero-sum peaks get their start time *)
Theorem C19_center_time_is_definition : forall time len dt data,
  Forall (fun x => 0 <= x) data -> 0 < zsum data -> 0 < dt -> len = zlen data ->
  center_time time len dt data = center_spec time dt data /\
  time <= center_spec time dt data <= time + len * dt.
Proof. exact center_time_spec. Qed.
Print Assumptions C19_center_time_is_definition.

Theorem C19_center_time_of_empty_peak : forall time len dt data, 0 <= len * dt ->
  zsum (firstn (Z.to_nat len) data) = 0 -> center_time time len dt data = time.
Proof. exact center_time_empty. Qed.
Print Assumptions C19_center_time_of_empty_peak.

(* ------------------------------------------------------------------------------------------ *)
(* _split_peaks: for strictly increasing positive split points ending at n (= len(w)), a parent
   dt that is a multiple of orig_dt and an area passing min_area, the children tile the parent's
   span [t, t + n*dt): the first starts at t, each ends where the next starts, the last ends at
   the parent's end, all have positive length and dt = orig_dt. *)
Theorem C19_split_tiles_parent : forall t dt area min_area odt n splits,
  0 < odt -> 0 < dt -> (odt | dt) -> min_area <= area ->
  splits <> [] -> increasing 0 splits -> last splits 0 = n ->
  exists cs, split_peak t dt area min_area odt splits = Ok (true, cs) /\
             tiled t cs (t + n * dt) /\ Forall (fun c => cdt c = odt) cs /\ length cs = length splits.
Proof. exact split_peak_tiles. Qed.
Print Assumptions C19_split_tiles_parent.

(* LocalMinimumSplitter.find_split_points yields exactly such split points (ending at len(w)), so
   local-minimum splitting tiles the parent *)
Theorem C19_local_minimum_split_points : forall mh mr w, lms_domain mh w ->
  let s := lms_split_points w mh mr in
  increasing 0 s /\ (s <> [] -> last s 0 = zlen w).
Proof. exact lms_split_points_ok. Qed.
Print Assumptions C19_local_minimum_split_points.

Theorem C19_local_minimum_split_tiles_parent : forall t dt area min_area odt w mh mr,
  0 < odt -> 0 < dt -> (odt | dt) -> min_area <= area -> lms_domain mh w ->
  lms_split_points w mh mr <> [] ->
  exists cs, split_peak_local_minimum t dt area min_area odt w mh mr = Ok (true, cs) /\
             tiled t cs (t + zlen w * dt) /\ Forall (fun c => cdt c = odt) cs.
Proof. exact local_minimum_split_tiles. Qed.
Print Assumptions C19_local_minimum_split_tiles_parent.

(* NaturalBreaksSplitter (repaired, /repo 8263a29: the closing split point is len(w)): whatever
   interior index its goodness of split selects (the floats are not modelled: max_i is an input),
   the two children tile the parent exactly.  So both splitters tile the parent. *)
Theorem C19_natural_breaks_split_tiles_parent : forall t dt area min_area odt w max_i,
  0 < odt -> 0 < dt -> (odt | dt) -> min_area <= area -> 0 < max_i < zlen w ->
  exists cs, split_peak_natural_breaks t dt area min_area odt w max_i true = Ok (true, cs) /\
             tiled t cs (t + zlen w * dt) /\ Forall (fun c => cdt c = odt) cs /\ length cs = 2%nat.
Proof. exact natural_breaks_split_tiles. Qed.
Print Assumptions C19_natural_breaks_split_tiles_parent.

(* documentation of the pinned tree: the closing split point len(w) - 1 tiled only up to the
   parent's end minus one sample (children of [100,116) ended at 114). *)
Theorem C19_split_tiles_parent_pinned_refuted : exists cs,
  split_peak 100 2 12 0 1 [2; 7] = Ok (true, cs) /\ tiled 100 cs 114 /\ ~ tiled 100 cs 116.
Proof. exact split_short_of_end. Qed.
Print Assumptions C19_split_tiles_parent_pinned_refuted.

(* ------------------------------------------------------------------------------------------ *)
(* highest_density_region (repaired, /repo 1da565c: `len(gaps) >= _buffer_size`): every returned
   interval list fits the result buffer; otherwise the -1 marker (None) is returned. *)
Theorem C19_hdr_intervals_fit_buffer : forall data fs upper bs outs,
  highest_density_region data fs upper bs = Ok outs -> Forall (fits bs) outs.
Proof. exact hdr_intervals_fit_buffer. Qed.
Print Assumptions C19_hdr_intervals_fit_buffer.

(* documentation of the pinned tree: the test `len(gaps) > _buffer_size` let 3 intervals through
   for a buffer of 2 *)
Theorem C19_hdr_intervals_fit_buffer_pinned_refuted :
  exists ivs bs, (zlen ivs - 1 >? bs) = false /\ ivs = runs (sort_z [4; 2; 0]) /\ ~ zlen ivs <= Z.max 1 bs.
Proof. exact hdr_pinned_buffer_test_refuted. Qed.
Print Assumptions C19_hdr_intervals_fit_buffer_pinned_refuted.

(* highest_density_region equals its definition (Spec/HDRSpec.v), for a non-negative sample array
   with positive total and a fraction in (0, 1].
   only_upper_part = True: the reported amplitude h is >= 0 and is THE height above which the
   distribution holds exactly the fraction: sum over the samples above h of (sample - h) =
   f * total; the intervals are exactly the maximal runs (non-empty, ascending, separated by at
   least one index, covering precisely that set) of {i : data[i] > h}. *)
Theorem C19_hdr_upper_is_definition : forall data f bs,
  Forall (fun d => 0 <= d) data -> 0 < zsum data -> (0 < f)%Q -> (f <= 1)%Q ->
  exists o, highest_density_region data [f] true bs = Ok [o] /\ hdr_upper_result data f o.
Proof. exact hdr_upper_is_definition. Qed.
Print Assumptions C19_hdr_upper_is_definition.

(* only_upper_part = False (repaired, /repo 2181c25: the tie test starts from the largest sample):
   the intervals are exactly the maximal runs of an upper level set {i : data[i] >= L} whose samples
   hold the fraction while no higher level set does, and amplitude * (number of its samples) =
   (its area) - f * total. *)
Theorem C19_hdr_is_definition : forall data f bs,
  Forall (fun d => 0 <= d) data -> 0 < zsum data -> (0 < f)%Q -> (f <= 1)%Q ->
  exists o, highest_density_region data [f] false bs = Ok [o] /\ hdr_level_result data f o.
Proof. exact hdr_level_is_definition. Qed.
Print Assumptions C19_hdr_is_definition.

(* documentation of the pinned tree: with `lowest_sample_seen = np.inf` the tie test never skipped
   j = 1, so a tied largest sample was cut when one of the tied samples alone held the fraction:
   data [3,1,3,0], fraction 1/4 -> the single interval [2,3), sample 0 (also 3) left out *)
Theorem C19_hdr_is_definition_pinned_refuted :
  exists data f bs o,
    Forall (fun d => 0 <= d) data /\ 0 < zsum data /\ (0 < f)%Q /\ (f <= 1)%Q /\
    highest_density_region_pinned data [f] false bs = Ok [o] /\ ho_iv o = Some [(2, 3)] /\
    ~ hdr_level_result data f o.
Proof. exact hdr_level_tie_pinned_refuted. Qed.
Print Assumptions C19_hdr_is_definition_pinned_refuted.

(* an ascending list of fractions: every fraction gets the result it would get alone (both modes);
   a total <= 0 is the ValueError *)
Theorem C19_hdr_fractions_independent : forall data fs upper bs, qsorted fs -> 0 < zsum data ->
  exists outs, highest_density_region data fs upper bs = Ok outs /\
               Forall2 (fun f o => highest_density_region data [f] upper bs = Ok [o]) fs outs.
Proof. exact hdr_fractions_independent. Qed.
Print Assumptions C19_hdr_fractions_independent.

Theorem C19_hdr_no_area_is_error : forall data fs upper bs,
  zsum data <= 0 -> highest_density_region data fs upper bs = Err 1.
Proof. exact hdr_no_area. Qed.
Print Assumptions C19_hdr_no_area_is_error.

(* ------------------------------------------------------------------------------------------ *)
(* sum_waveform.  Full statement: every processed peak has area = sum over channels, and its stored
   waveform integrates to the area also after down-sampling.  The second half is false when the
   down-sampling factor does not divide the length (T5). *)
Definition C19_full_sum_waveform_area : Prop :=
  forall gains recs prev_i next_i nsr dt lmax ns nch p hs buf area apc,
    0 <= sp_len p -> 0 < ns -> Forall (fun h => 0 <= sh_ch h < Z.of_nat nch) hs ->
    sw_scan gains recs prev_i next_i nsr dt lmax (sp_t p) (sp_len p) (sp_dt p) hs
            (repeat 0 (Z.to_nat (sp_len p))) 0 (repeat 0 nch) = Ok (buf, area, apc) ->
    area = zsum apc /\
    (qsum (snd (store_downsampled (sp_len p) (sp_dt p) ns (map inject_Z buf))) == inject_Z area)%Q.

(* one peak: area accumulated over the hits = sum of area_per_channel = integral of the sum
   waveform buffer; the stored waveform integrates to the area when nothing is truncated *)
Theorem C19_sum_waveform_area_partial : forall gains recs prev_i next_i nsr dt lmax ns nch p hs buf area apc,
  0 <= sp_len p -> 0 < ns ->
  Forall (fun h => 0 <= sh_ch h < Z.of_nat nch) hs ->
  sw_scan gains recs prev_i next_i nsr dt lmax (sp_t p) (sp_len p) (sp_dt p) hs
          (repeat 0 (Z.to_nat (sp_len p))) 0 (repeat 0 nch) = Ok (buf, area, apc) ->
  let r := store_downsampled (sp_len p) (sp_dt p) ns (map inject_Z buf) in
  let f := ds_factor (sp_len p) ns in
  area = zsum apc /\ area = zsum buf /\
  ((f <= 1 \/ (f | sp_len p)) -> (qsum (snd r) == inject_Z area)%Q).
Proof. exact sw_peak_area. Qed.
Print Assumptions C19_sum_waveform_area_partial.

(* down-sampling stores exactly the integral of the kept prefix of the buffer *)
Theorem C19_store_downsampled_integral : forall len dt ns buf,
  0 <= len -> 0 < ns -> length buf = Z.to_nat len ->
  let r := store_downsampled len dt ns buf in
  let f := ds_factor len ns in
  (qsum (snd r) == qsum (firstn (Z.to_nat (if f >? 1 then len / f * f else len)) buf))%Q /\
  ((f <= 1 \/ (f | len)) -> (qsum (snd r) == qsum buf)%Q).
Proof. exact store_downsampled_integral. Qed.
Print Assumptions C19_store_downsampled_integral.

(* the loop over all peaks: a processed prefix (each satisfying the law), then - if the hits run
   out - one peak that only lost its area and an untouched remainder *)
Theorem C19_sum_waveform_all_peaks : forall gains recs prev_i next_i nsr dt lmax ns nch, 0 < ns ->
  forall ps hs out,
    Forall (fun p => 0 <= sp_len p) ps ->
    Forall (fun h => 0 <= sh_ch h < Z.of_nat nch) hs ->
    sw_peaks gains recs prev_i next_i nsr dt lmax ns nch ps hs = Ok out ->
    exists done rest, out = done ++ rest /\
      Forall2 (sw_peak_ok ns) (firstn (length done) ps) done /\
      (rest = [] \/ exists p pr, skipn (length done) ps = p :: pr /\
                     rest = mkswpeak (sp_t p) (sp_len p) (sp_dt p) 0 (sp_apc p) (sp_data p) :: pr).
Proof. exact sw_peaks_conserve. Qed.
Print Assumptions C19_sum_waveform_all_peaks.

(* sample by sample: the scan over the hits of one peak adds, for exactly the hits it uses (sw_used:
   not ending before the peak, up to the first one starting after it) and their hit waveforms w
   (own record completed from the previous / next fragment), to every sample k of the buffer the
   hit's contribution hit_contrib = gain * w[k - (h_t/dt - p_t/dt)] inside the hit, else 0; the
   area grows by the hits' areas inside the peak, area_per_channel[c] by those of channel c *)
Theorem C19_sum_waveform_sample_is_hit_sum :
  forall gains recs prev_i next_i nsr dt lmax p_t p_len p_dt nch, 0 <= p_len ->
  forall hs buf area apc buf' area' apc',
    Forall (fun h => 0 <= sh_ch h < Z.of_nat nch) hs ->
    length buf = Z.to_nat p_len -> length apc = nch ->
    sw_scan gains recs prev_i next_i nsr dt lmax p_t p_len p_dt hs buf area apc = Ok (buf', area', apc') ->
    exists ws, Forall2 (fun h w => hit_wave recs prev_i next_i nsr lmax h = Ok w) (sw_used dt p_t p_len hs) ws /\
      let hw := combine (sw_used dt p_t p_len hs) ws in
      (forall k, 0 <= k < p_len -> zget buf' k = zget buf k + sum_contrib gains dt p_t hw k) /\
      area' = area + sum_area gains dt p_t p_len hw /\
      (forall c, nth c apc' 0 = nth c apc 0 + sum_area_ch gains dt p_t p_len c hw).
Proof. exact sw_scan_samples. Qed.
Print Assumptions C19_sum_waveform_sample_is_hit_sum.

(* T5: [1,1,1,1,7] in a 4-sample buffer -> [2,2] (half units: 4+4 = 8 against an area of 22) *)
Theorem C19_sum_waveform_area_after_downsampling_refuted :
  exists p', sum_waveform [1; 1] [t5_rec] [-1] [-1] 6 5 4 2 [t5_peak] [t5_hit] = Ok [p'] /\
             sp_area p' = 22 /\ sp_area p' = zsum (sp_apc p') /\ sp_len p' = 2 /\ sp_dt p' = 2 /\
             (qsum (sp_data p') == 8)%Q /\ ~ (qsum (sp_data p') == inject_Z (sp_area p'))%Q.
Proof. exact sum_waveform_truncation_witness. Qed.
Print Assumptions C19_sum_waveform_area_after_downsampling_refuted.
