(* C19 — Peak clustering, summing, merging and splitting conserve hits, area and time.
   Only property theorems, each closed by `exact <lemma>` and followed by Print Assumptions. *)
From SV Require Import Model.PeakHelpers Spec.PeakHelpersSpec Proof.PeakHelpersProof.
From SV Require Import Model.Peaks Spec.PeaksSpec Proof.PeaksProof Proof.PeaksTheorems Proof.PeaksExamples.

(* ------------------------------------------------------------------------------------------ *)
(* symmetric_moving_average (repaired code, `just_out >= 0`) equals the defining windowed mean:
   out[i] = (sum of a[max(0,i-w) .. min(n,i+w+1))) / (number of those samples), as an exact
   fraction, for every array and every wing width 0 <= w <= len(a). *)
Definition C19_full_moving_average_is_definition : Prop :=
  forall a w, 0 <= w -> sma a w = sma_spec a w.

Theorem C19_moving_average_is_definition_partial : forall a w,
  0 <= w <= zlen a -> sma a w = sma_spec a w.
Proof. exact sma_is_windowed_mean. Qed.
Print Assumptions C19_moving_average_is_definition_partial.

(* wing widths larger than the array: count starts at wing_width although only n samples were
   summed; the result is sum/wing_width instead of the mean. *)
Theorem C19_moving_average_is_definition_refuted : exists a w, 0 <= w /\ sma a w <> sma_spec a w.
Proof. exact sma_wide_wing_refuted. Qed.
Print Assumptions C19_moving_average_is_definition_refuted.

(* ------------------------------------------------------------------------------------------ *)
(* find_peaks: whenever the assertions in front of the loop hold and the run succeeds, the output
   is  map peak_of (filter keep gs)  for THE clustering gs of the hits (it exists, is unique, and
   concatenates to the hit list: every hit in exactly one cluster, in order); peak_of / keep are
   the closed formulas of Spec/PeaksSpec.v (start, truncated length, hit count, area, area per
   channel, largest gap; area and channel cuts); every returned peak has positive length. *)
Theorem C19_find_peaks_are_gap_clusters : forall P gains nch hs ps,
  Forall (fun x => 0 <= hch x) hs -> fp_asserts P gains hs = true ->
  find_peaks P gains nch hs = Ok ps ->
  exists gs, Clustering P hs gs /\ (forall gs', Clustering P hs gs' -> gs' = gs) /\ concat gs = hs /\
             ps = map (peak_of P gains nch) (filter (keep P gains nch) gs) /\
             Forall (fun p => 0 < plen p) ps.
Proof. exact find_peaks_spec. Qed.
Print Assumptions C19_find_peaks_are_gap_clusters.

(* the same without assuming success: the run result (peaks or the ValueError) is fp_out of the clustering *)
Theorem C19_find_peaks_result_is_fp_out : forall P gains nch hs,
  Forall (fun x => 0 <= hch x) hs -> fp_asserts P gains hs = true ->
  exists gs, Clustering P hs gs /\ find_peaks P gains nch hs = fp_out P gains nch gs.
Proof. exact find_peaks_clusters. Qed.
Print Assumptions C19_find_peaks_result_is_fp_out.

(* each peak spans its hits plus the extensions (hits of one dt, as the docstring assumes) *)
Theorem C19_find_peaks_peak_spans_hits : forall P gains nch g d,
  g <> [] -> uniform d g -> 0 < d -> 0 <= fp_lext P -> 0 <= fp_rext P -> hits_sorted g ->
  let p := peak_of P gains nch g in
  pt p = gfirst g - fp_lext P /\ pdt p = d /\ pnhits p = zlen g /\
  (forall h, In h g -> pt p + fp_lext P <= ht h /\ hend h <= gend g) /\
  pend p <= gend g + fp_rext P < pend p + d /\
  ((d | gend g - pt p + fp_rext P) -> pend p = gend g + fp_rext P).
Proof. exact peak_spans_hits. Qed.
Print Assumptions C19_find_peaks_peak_spans_hits.

(* disjoint and time-ordered: full statement (false: T3), the part that holds, and the witness *)
Definition C19_full_find_peaks_disjoint_ordered : Prop :=
  forall P gains nch hs ps d,
    find_peaks P gains nch hs = Ok ps -> Forall (fun x => 0 <= hch x) hs -> fp_asserts P gains hs = true ->
    hits_sorted hs -> uniform d hs -> 0 < d -> 0 <= fp_lext P -> 0 <= fp_rext P ->
    peaks_disjoint_ordered ps.

Theorem C19_find_peaks_disjoint_ordered_partial : forall P gains nch hs ps gs d,
  find_peaks P gains nch hs = Ok ps -> Forall (fun x => 0 <= hch x) hs -> fp_asserts P gains hs = true ->
  Clustering P hs gs -> AllFar P gs -> uniform d hs -> 0 < d -> 0 <= fp_lext P -> 0 <= fp_rext P ->
  peaks_disjoint_ordered ps.
Proof. exact find_peaks_disjoint. Qed.
Print Assumptions C19_find_peaks_disjoint_ordered_partial.

Theorem C19_find_peaks_disjoint_ordered_refuted :
  exists P gains nch hs ps,
    fp_asserts P gains hs = true /\ hits_sorted hs /\ uniform 1 hs /\
    Forall (fun x => 0 <= hch x) hs /\ 0 <= fp_lext P /\ 0 <= fp_rext P /\
    find_peaks P gains nch hs = Ok ps /\ ~ peaks_disjoint_ordered ps.
Proof. exact find_peaks_overlap_witness. Qed.
Print Assumptions C19_find_peaks_disjoint_ordered_refuted.
