(* C19 — Peak clustering, summing, merging and splitting conserve hits, area and time.
   Only property theorems, each closed by `exact <lemma>` and followed by Print Assumptions. *)
From SV Require Import Model.PeakHelpers Spec.PeakHelpersSpec Proof.PeakHelpersProof.

(* symmetric_moving_average (repaired code, `just_out >= 0`) equals the defining windowed mean:
   out[i] = (sum of a[max(0,i-w) .. min(n,i+w+1))) / (number of those samples), as an exact
   fraction, for every array and every wing width 0 <= w <= len(a). *)
Definition C19_full_moving_average_is_definition : Prop :=
  forall a w, 0 <= w -> sma a w = sma_spec a w.

Theorem C19_moving_average_is_definition_partial : forall a w,
  0 <= w <= zlen a -> sma a w = sma_spec a w.
Proof. exact sma_is_windowed_mean. Qed.
Print Assumptions C19_moving_average_is_definition_partial.

(* wing widths larger than the array: count starts at wing_width although only n samples were
   summed; the result is sum/wing_width instead of the mean. *)
Theorem C19_moving_average_is_definition_refuted : exists a w, 0 <= w /\ sma a w <> sma_spec a w.
Proof. exact sma_wide_wing_refuted. Qed.
Print Assumptions C19_moving_average_is_definition_refuted.
