(* C11 — Only what is missing is computed, and only what policy allows is saved.
   This file contains only property theorems, each closed by `exact <lemma>` and followed by
   Print Assumptions.  Model: Model/Planner.v; specification: Spec/PlannerSpec.v. *)
From SV Require Import Spec.PlannerSpec Proof.PlannerProof Proof.PlannerSaversProof Proof.PlannerDfsProof
  Proof.PlannerTopProof Proof.PlannerWiringProof Proof.PlannerExamples Proof.PlannerGetIterProof.

(* A request computes exactly the needed, unstored data types, loads every other needed one, never both;
   a plugin runs iff one of its outputs is needed and unstored.  (No hypothesis on the graph: a plan that
   is returned at all has this shape.) *)
Theorem C11_planner_computes_exactly_missing : forall g cx rq c,
  get_components g cx rq = Ok c ->
  (forall d, In d (k_plugins c) <-> needed g cx rq d /\ unstored cx d) /\
  (forall d, In d (k_loaders c) <-> needed g cx rq d /\ stored cx d) /\
  NoDup (k_plugins c) /\ NoDup (k_loaders c) /\
  (forall j, In j (running_idx g c) <->
             exists d p, plugin_of g d = Some (j, p) /\ needed g cx rq d /\ unstored cx d).
Proof. exact computes_exactly_missing. Qed.
Print Assumptions C11_planner_computes_exactly_missing.

(* A saver exists for d2 in the frontends fl iff the policies dictate it: d2 is an unstored output of a
   running non-temporary plugin, its policy admits it (ALWAYS / TARGET and a target / EXPLICIT and in
   save=), the request is not partial / fuzzy / incomplete-tolerant, and fl is the non-empty list of the
   writable frontends that take d2; at most one entry per data type. *)
Theorem C11_planner_saves_by_policy : forall g cx rq c,
  get_components g cx rq = Ok c ->
  (forall d2 fl, In (d2, fl) (k_savers c) <-> dictated_saver g cx rq d2 fl) /\
  NoDup (map fst (k_savers c)).
Proof. exact saves_by_policy. Qed.
Print Assumptions C11_planner_saves_by_policy.

(* _target_should_be_saved is the save-policy table, for every integer policy value ... *)
Theorem C11_target_should_be_saved_table : forall sw is_target in_save,
  target_should_be_saved sw is_target in_save =
  if policy_conflict sw in_save then Err E_VALUE else Ok (policy_admits sw is_target in_save).
Proof. exact target_should_be_saved_spec. Qed.
Print Assumptions C11_target_should_be_saved_table.

(* ... and, decided by computation, on its finite domain SaveWhen x bool x bool *)
Theorem C11_target_should_be_saved_finite : forall sw is_target in_save,
  In sw savewhen_values ->
  res_bool_eqb (target_should_be_saved sw is_target in_save)
    (if policy_conflict sw in_save then Err E_VALUE else Ok (policy_admits sw is_target in_save)) = true.
Proof. exact target_should_be_saved_finite. Qed.
Print Assumptions C11_target_should_be_saved_finite.

(* On a well-formed graph with registered targets the planner either returns a plan — and then no needed
   unstored type was refused and no NEVER-saved type listed in save= is computed — or raises
   DataNotAvailable exactly because a needed unstored type may not be created (forbidden, or saved above
   EXPLICIT under a time range), or ValueError exactly because a NEVER-saved type listed in save= would be
   computed.  Nothing is computed silently, no other failure exists. *)
Theorem C11_planner_errors_explicitly : forall g cx rq,
  wf_graph g -> (forall t, In t (r_targets rq) -> In t (all_provs g)) ->
  c_fuzzy cx && c_incomplete cx = false ->
  match get_components g cx rq with
  | Ok _ => ~ creation_refused g cx rq /\ ~ never_saved_requested g cx rq
  | Err e => (e = E_DNA /\ creation_refused g cx rq) \/ (e = E_VALUE /\ never_saved_requested g cx rq)
  end.
Proof. exact errors_explicit. Qed.
Print Assumptions C11_planner_errors_explicitly.

(* the same reading of every error without any assumption on the graph *)
Theorem C11_planner_errors_sound : forall g cx rq,
  match get_components g cx rq with
  | Ok _ => ~ creation_refused g cx rq /\ ~ never_saved_requested g cx rq
  | Err e =>
      (e = E_DNA /\ creation_refused g cx rq) \/ (e = E_VALUE /\ never_saved_requested g cx rq) \/
      (e = E_UNSUPPORTED /\ c_fuzzy cx && c_incomplete cx = true) \/ e = E_FUEL \/ e = E_KEY
  end.
Proof. exact errors_sound. Qed.
Print Assumptions C11_planner_errors_sound.

(* One origin per topic, single-thread processor (post office): registration never fails and every
   consumed topic has exactly one producer, the loader if the type is loaded and its plugin otherwise. *)
Theorem C11_one_origin_per_topic_single : forall g cx rq c,
  wf_graph g -> get_components g cx rq = Ok c ->
  exists w, wiring_single g c = Ok w /\ one_origin g c w.
Proof. exact one_origin_single. Qed.
Print Assumptions C11_one_origin_per_topic_single.

(* One origin per topic, threaded processor (Model: wiring_fixed = ThreadedMailboxProcessor.__init__ since
   /repo commit e1cd0b8: the divider of a multi-output plugin feeds only outputs that are not loader-fed);
   it is the same wiring as the post office's. *)
Theorem C11_one_origin_per_topic_threaded : forall g cx rq c,
  wf_graph g -> get_components g cx rq = Ok c ->
  one_origin g c (wiring_fixed g c) /\ wiring_single g c = Ok (wiring_fixed g c).
Proof. exact one_origin_threaded_fixed. Qed.
Print Assumptions C11_one_origin_per_topic_threaded.

(* Documentation of defect D5 (repaired by e1cd0b8): the threaded wiring BEFORE the fix (Model: wiring_pinned,
   the divider feeds ALL outputs).  Full statement: *)
Definition C11_full_one_origin_threaded_pinned : Prop := full_one_origin_threaded_pinned.
(* refuted by the D5 configuration (a stored output of a running multi-output plugin gets two senders); the
   harness replays this configuration on the real code on every run, so a revert of the fix is a VIOLATION *)
Theorem C11_one_origin_threaded_pinned_refuted : ~ C11_full_one_origin_threaded_pinned.
Proof. exact one_origin_threaded_pinned_refuted. Qed.
Print Assumptions C11_one_origin_threaded_pinned_refuted.
(* and it was right exactly when no running multi-output plugin has a loader-fed output *)
Theorem C11_one_origin_threaded_pinned_partial : forall g cx rq c,
  wf_graph g -> get_components g cx rq = Ok c ->
  no_loader_fed_sibling g c -> one_origin g c (wiring_pinned g c).
Proof. exact one_origin_pinned_partial. Qed.
Print Assumptions C11_one_origin_threaded_pinned_partial.

(* get_iter's merge of several same-kind targets keeps the graph well formed, so all of the above applies
   to the request that reaches get_components ... *)
Theorem C11_get_iter_rewrite_wf : forall g kinds targets g' t',
  wf_graph g -> (forall t, In t targets -> In t (all_provs g)) ->
  get_iter_rewrite g kinds targets = Ok (g', t') ->
  wf_graph g' /\ (forall t, In t t' -> In t (all_provs g')).
Proof. exact get_iter_rewrite_wf. Qed.
Print Assumptions C11_get_iter_rewrite_wf.

(* ... but the policy `TARGET` is then evaluated against the temporary merge target.  Full statement
   against the targets the user listed: *)
Definition C11_full_saves_by_policy_user_targets : Prop := full_saves_by_policy_user_targets.
Theorem C11_saves_by_policy_user_targets_refuted : ~ C11_full_saves_by_policy_user_targets.
Proof. exact saves_by_policy_user_targets_refuted. Qed.
Print Assumptions C11_saves_by_policy_user_targets_refuted.
