(* C01 -- Results do not depend on chunking, processor, parallelism or what is stored.
   Only property theorems (closed by `exact <lemma>`), each followed by Print Assumptions.
   Statements that are not (yet) proved are kept visible as Definitions C01_full_*.

   Reading guide.  A stream is the list of chunks one data type carries in one run.
   `chunking_of dt run R a b cs` : cs is non-empty, every chunk is well formed (sorted rows, every row inside
   its chunk), the chunks are contiguous from a to b, their rows concatenate to R, all carry data type dt and
   run id run, and -- the hypothesis under which strax itself is chunking independent, see design_notes/C01.md
   finding F1 -- no row starts on the exclusive end of the chunk that carries it (`tight`; this only excludes
   zero-length rows [x, x) stored in a chunk that ends at x).
   `given` holds the streams the model does not choose: what the source plugins yield and what the loaders of
   the stored data types yield; they are arbitrary chunkings.  Everything else is computed. *)
From SV Require Import Model.Rows Model.SplitArray Model.Chunk Model.Rechunker Model.Network
     Proof.RechunkerProof Proof.NetworkProof Proof.NetworkGraphProof Proof.NetworkLoopProof Proof.NetworkDownProof.

(* Plugin.iter with one dependency hands do_compute exactly the dependency's chunks one by one *)
Theorem C01_single_dependency_iter_is_identity : forall dt run cs s e,
  cs <> [] -> Forall wf cs -> uniform dt run cs -> chain s cs e ->
  exists out, iter_single cs = Ok out /\ Forall2 same_data cs out /\ Forall wf out.
Proof. exact iter_single_spec. Qed.
Print Assumptions C01_single_dependency_iter_is_identity.

(* kind_chunking_independent, one lemma per finished kind: the output stream is a tight well-formed contiguous
   chunking of the computation applied to the whole input, whatever the chunking of the input *)

(* row-wise and filtering plugins (also every single output of a multi-output plugin, cut plugins): any computation
   that distributes over concatenation *)
Theorem C01_kind_local_chunking_independent : forall m h dt run R a b cs,
  local_comp h -> chunking_of dt run R a b cs ->
  exists out, run_local m h cs = Ok out /\ chunking_of (o_dtype m) (o_run m) (h R) a b out.
Proof. exact run_local_correct. Qed.
Print Assumptions C01_kind_local_chunking_independent.

Theorem C01_rowwise_and_filter_are_local : forall a b md rem,
  local_comp (h_rowwise a b) /\ local_comp (h_filter a b md rem) /\
  (forall g, keeps_interval g -> local_comp (map g)) /\ (forall p, local_comp (filter p)).
Proof. intros a b md rem. exact (conj (local_h_rowwise a b) (conj (local_h_filter a b md rem) (conj local_map local_filter))). Qed.
Print Assumptions C01_rowwise_and_filter_are_local.

(* exhaust plugins: ANY computation on the whole input that keeps rows ordered and in range *)
Theorem C01_kind_exhaust_chunking_independent : forall m f dt run R a b cs,
  whole_comp f -> chunking_of dt run R a b cs ->
  exists out, run_exhaust m f cs = Ok out /\ chunking_of (o_dtype m) (o_run m) (f R) a b out.
Proof. exact run_exhaust_correct. Qed.
Print Assumptions C01_kind_exhaust_chunking_independent.

(* down-chunking plugins (several sub-chunks per call): any local computation with any cut rule that tiles the call;
   the harness rule down_cut is such a rule *)
Theorem C01_kind_down_chunking_independent : forall m h cut dt run R a b cs,
  local_comp h -> cut_ok cut -> chunking_of dt run R a b cs ->
  exists out, run_down m h cut cs = Ok out /\ chunking_of (o_dtype m) (o_run m) (h R) a b out.
Proof. exact run_down_correct. Qed.
Print Assumptions C01_kind_down_chunking_independent.

Theorem C01_harness_down_cut_tiles_the_call : forall k, cut_ok (down_cut k).
Proof. exact down_cut_ok. Qed.
Print Assumptions C01_harness_down_cut_tiles_the_call.

(* same-kind merge consumers are call-wise computations once the calls hold equally many rows of both inputs *)
Theorem C01_kind_merge_is_callwise : forall a1 a2 b, pair_comp equal_len (h_merge2 a1 a2 b).
Proof. exact pair_h_merge2. Qed.
Print Assumptions C01_kind_merge_is_callwise.

(* LoopPlugin over two data kinds with fully-contained selection is a call-wise computation for every aligned
   sequence of tight calls: no premise on the calls beyond alignment (zero-length rows at chunk ENDs are excluded by
   tightness -- finding F1 is exactly the failure of this statement without it) *)
Theorem C01_kind_loop_is_callwise : forall a b, pair_comp (fun _ => True) (h_loop a b).
Proof. exact pair_h_loop. Qed.
Print Assumptions C01_kind_loop_is_callwise.

(* results_chunking_independent (partial: the kinds local / exhaust / down-chunking / two-dependency call-wise computations, with
   the alignment of Plugin.iter for two dependencies as an explicit hypothesis, to be discharged by C08):
   for every topologically ordered graph of such nodes, every chunking of every source and every stored subset
   with any chunking (both through `given`), evaluation succeeds and the stream of EVERY data type carries exactly
   the rows of the whole-run evaluation and tiles the run *)
Theorem C01_results_chunking_independent_partial :
  forall (align : list Z -> stream -> stream -> res calls2) (align_pre : list row -> list row -> Prop),
  (forall bs dt1 run1 dt2 run2 R1 R2 T s1 s2,
     chunking_of dt1 run1 R1 0 T s1 -> chunking_of dt2 run2 R2 0 T s2 -> align_pre R1 R2 ->
     exists calls, align bs s1 s2 = Ok calls /\ aligned R1 R2 0 T calls /\
                   (map rt R1 = map rt R2 -> map re R1 = map re R2 -> equal_len calls)) ->
  forall T src given g target,
  graph_ok align_pre T src given [] g ->
  exists env, eval_graph align given [] g = Ok env /\
    match lookup target env with
    | Some cs => exists R, lookup target (eval_whole src [] g) = Some R /\ tiles R 0 T cs
    | None => lookup target (eval_whole src [] g) = None
    end.
Proof. exact results_chunking_independent. Qed.
Print Assumptions C01_results_chunking_independent_partial.

(* target_stream_tiles_run: what `tiles` gives for the chunks get_iter yields: continuity_check passes, the
   stream spans the run, every row lies wholly inside the chunk that carries it, no boundary cuts a row *)
Theorem C01_target_stream_tiles_run : forall R a b cs,
  tiles R a b cs ->
  continuity_check cs = None /\ stream_start cs = a /\ stream_end cs = b /\
  Forall (fun c => Forall (fun r => cstart c <= rt r /\ rt r <= re r /\ re r <= cend c) (crows c) /\ sorted (crows c)) cs /\
  (forall pre c post, cs = pre ++ c :: post -> post <> [] -> ~ exists q, In q R /\ straddles q (cend c)).
Proof. exact target_stream_tiles_run. Qed.
Print Assumptions C01_target_stream_tiles_run.

(* rechunk_on_save on or off, any target size of at least one row: what the saver writes is again a well-formed
   contiguous chunking of the same rows over the same range (uses C07's rechunk_stream_correct) *)
Theorem C01_saved_stream_chunking : forall dt run R a b cs rechunk,
  chunking_of dt run R a b cs -> Forall (fun c => 0 < ctarget c) cs ->
  exists out, saved_stream rechunk cs = Ok out /\ out <> [] /\ Forall wf out /\ chain a out b /\ flat_map crows out = R.
Proof. exact saved_stream_correct. Qed.
Print Assumptions C01_saved_stream_chunking.

(* the alignment hypothesis is satisfiable (the coarsest legal alignment: one call over the whole run), so the
   partial theorem is not vacuous; the Example ex_graph_ok / ex_eval in Proof/NetworkGraphProof.v instantiate it *)
Theorem C01_alignment_hypothesis_satisfiable : forall bs dt1 run1 dt2 run2 R1 R2 T s1 s2,
  chunking_of dt1 run1 R1 0 T s1 -> chunking_of dt2 run2 R2 0 T s2 -> True ->
  exists calls, align_one bs s1 s2 = Ok calls /\ aligned R1 R2 0 T calls /\
                (map rt R1 = map rt R2 -> map re R1 = map re R2 -> equal_len calls).
Proof. exact align_one_ok. Qed.
Print Assumptions C01_alignment_hypothesis_satisfiable.

(* ---------------------------------------------------------------------------------------------------------- *)
(* full statements that are not proved here                                                                     *)
(* ---------------------------------------------------------------------------------------------------------- *)

(* the full results_chunking_independent: the conclusion of the partial theorem for the real alignment of
   Plugin.iter (iter2 = the C08 model of Plugin.iter for two dependencies, staircase_ok = the class of inputs on
   which it promises success, DESIGN section 7 T4) WITHOUT the alignment hypothesis.  It follows from the partial
   theorem and C08's iter_calls_aligned / iter_rows_exactly_once once those are merged. *)
Definition C01_full_results_chunking_independent
           (iter2 : list Z -> stream -> stream -> res calls2) (staircase_ok : list row -> list row -> Prop) : Prop :=
  forall T src given g target,
  graph_ok staircase_ok T src given [] g ->
  exists env, eval_graph iter2 given [] g = Ok env /\
    match lookup target env with
    | Some cs => exists R, lookup target (eval_whole src [] g) = Some R /\ tiles R 0 T cs
    | None => lookup target (eval_whole src [] g) = None
    end.

(* the overlap-window kind is property C09's model (overlap_equals_whole_run, overlap_output_contiguous); in C01 it
   is covered by the correspondence (oracles i, ii, iv) *)

(* stage_determinism (schedule independence): refers to the mailbox property C05.  For every terminating
   schedule of the threaded processor (any max_workers, lazy or eager, any capacity above the chunk lag) and for
   the single-thread processor, each subscriber of a data type reads exactly the sequence its producer sent;
   by induction over the topological order the stream at every node is the one eval_graph computes.
   `delivered sched d reader` stands for the sequence C05's transition system delivers. *)
Definition C01_full_stage_determinism : Prop :=
  forall (schedule : Type) (terminating : schedule -> Prop)
         (delivered : schedule -> Z -> Z -> stream)      (* schedule -> data type -> reader -> what it read *)
         (align : list Z -> stream -> stream -> res calls2) (given : Z -> option stream) (g : list node) env,
  eval_graph align given [] g = Ok env ->
  forall sched, terminating sched ->
  forall d reader cs, lookup d env = Some cs -> delivered sched d reader = cs.
