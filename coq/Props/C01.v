(* C01 -- Results do not depend on chunking, processor, parallelism or what is stored.
   Only property theorems (closed by `exact <lemma>`), each followed by Print Assumptions.
   Statements that are not (yet) proved are kept visible as Definitions C01_full_*.

   Reading guide.  A stream is the list of chunks one data type carries in one run.
   `chunking_of dt run R a b cs` : cs is non-empty, every chunk is well formed (sorted rows, every row inside
   its chunk), the chunks are contiguous from a to b, their rows concatenate to R, all carry data type dt and
   run id run, and -- the hypothesis under which strax itself is chunking independent, see design_notes/C01.md
   finding F1 -- no row starts on the exclusive end of the chunk that carries it (`tight`; this only excludes
   zero-length rows [x, x) stored in a chunk that ends at x).
   `given` holds the streams the model does not choose: what the source plugins yield and what the loaders of
   the stored data types yield; they are arbitrary chunkings.  Everything else is computed. *)
From SV Require Import Model.Rows Model.SplitArray Model.Chunk Model.Rechunker Model.Network
     Model.Mailbox Proof.MailboxInOrder Model.PluginIter Model.NetworkIter Proof.PluginIterStair
     Proof.RechunkerProof Proof.NetworkProof Proof.NetworkGraphProof Proof.NetworkLoopProof Proof.NetworkDownProof
     Proof.NetworkIterProof Proof.NetworkChannelProof.

(* Plugin.iter with one dependency hands do_compute exactly the dependency's chunks one by one *)
Theorem C01_single_dependency_iter_is_identity : forall dt run cs s e,
  cs <> [] -> Forall wf cs -> uniform dt run cs -> chain s cs e ->
  exists out, iter_single cs = Ok out /\ Forall2 same_data cs out /\ Forall wf out.
Proof. exact iter_single_spec. Qed.
Print Assumptions C01_single_dependency_iter_is_identity.

(* kind_chunking_independent, one lemma per finished kind: the output stream is a tight well-formed contiguous
   chunking of the computation applied to the whole input, whatever the chunking of the input *)

(* row-wise and filtering plugins (also every single output of a multi-output plugin, cut plugins): any computation
   that distributes over concatenation *)
Theorem C01_kind_local_chunking_independent : forall m h dt run R a b cs,
  local_comp h -> chunking_of dt run R a b cs ->
  exists out, run_local m h cs = Ok out /\ chunking_of (o_dtype m) (o_run m) (h R) a b out.
Proof. exact run_local_correct. Qed.
Print Assumptions C01_kind_local_chunking_independent.

Theorem C01_rowwise_and_filter_are_local : forall a b md rem,
  local_comp (h_rowwise a b) /\ local_comp (h_filter a b md rem) /\
  (forall g, keeps_interval g -> local_comp (map g)) /\ (forall p, local_comp (filter p)).
Proof. intros a b md rem. exact (conj (local_h_rowwise a b) (conj (local_h_filter a b md rem) (conj local_map local_filter))). Qed.
Print Assumptions C01_rowwise_and_filter_are_local.

(* exhaust plugins: ANY computation on the whole input that keeps rows ordered and in range *)
Theorem C01_kind_exhaust_chunking_independent : forall m f dt run R a b cs,
  whole_comp f -> chunking_of dt run R a b cs ->
  exists out, run_exhaust m f cs = Ok out /\ chunking_of (o_dtype m) (o_run m) (f R) a b out.
Proof. exact run_exhaust_correct. Qed.
Print Assumptions C01_kind_exhaust_chunking_independent.

(* down-chunking plugins (several sub-chunks per call): any local computation with any cut rule that tiles the call;
   the harness rule down_cut is such a rule *)
Theorem C01_kind_down_chunking_independent : forall m h cut dt run R a b cs,
  local_comp h -> cut_ok cut -> chunking_of dt run R a b cs ->
  exists out, run_down m h cut cs = Ok out /\ chunking_of (o_dtype m) (o_run m) (h R) a b out.
Proof. exact run_down_correct. Qed.
Print Assumptions C01_kind_down_chunking_independent.

Theorem C01_harness_down_cut_tiles_the_call : forall k, cut_ok (down_cut k).
Proof. exact down_cut_ok. Qed.
Print Assumptions C01_harness_down_cut_tiles_the_call.

(* same-kind merge consumers are call-wise computations once the calls hold equally many rows of both inputs *)
Theorem C01_kind_merge_is_callwise : forall a1 a2 b, pair_comp equal_len (h_merge2 a1 a2 b).
Proof. exact pair_h_merge2. Qed.
Print Assumptions C01_kind_merge_is_callwise.

(* LoopPlugin over two data kinds with fully-contained selection is a call-wise computation for every aligned
   sequence of tight calls: no premise on the calls beyond alignment (zero-length rows at chunk ENDs are excluded by
   tightness -- finding F1 is exactly the failure of this statement without it) *)
Theorem C01_kind_loop_is_callwise : forall a b, pair_comp (fun _ => True) (h_loop a b).
Proof. exact pair_h_loop. Qed.
Print Assumptions C01_kind_loop_is_callwise.

(* results_chunking_independent (partial: the kinds local / exhaust / down-chunking / two-dependency call-wise computations, with
   the alignment of Plugin.iter for two dependencies as an explicit hypothesis, to be discharged by C08):
   for every topologically ordered graph of such nodes, every chunking of every source and every stored subset
   with any chunking (both through `given`), evaluation succeeds and the stream of EVERY data type carries exactly
   the rows of the whole-run evaluation and tiles the run *)
Theorem C01_results_chunking_independent_partial :
  forall (align : list Z -> stream -> stream -> res calls2) (align_pre : list row -> list row -> Prop) (rn : option Z),
  (forall bs dt1 dt2 R1 R2 T s1 s2,
     chunking_of dt1 rn R1 0 T s1 -> chunking_of dt2 rn R2 0 T s2 -> align_pre R1 R2 ->
     exists calls, align bs s1 s2 = Ok calls /\ aligned R1 R2 0 T calls /\
                   ends_nt T (map (fun p => cend (fst p)) calls)) ->
  forall T src given g target,
  graph_ok align_pre rn T src given [] g ->
  exists env, eval_graph align given [] g = Ok env /\
    match lookup target env with
    | Some cs => exists R, lookup target (eval_whole src [] g) = Some R /\ tiles R 0 T cs
    | None => lookup target (eval_whole src [] g) = None
    end.
Proof. exact results_chunking_independent. Qed.
Print Assumptions C01_results_chunking_independent_partial.

(* aligned tight calls hold equally many rows of two inputs with the same row starts: the equal-length check of
   Chunk.merge for same-kind inputs can never fire on them *)
Theorem C01_aligned_calls_equal_len : forall R1 R2 a b calls,
  aligned R1 R2 a b calls -> map rt R1 = map rt R2 -> equal_len calls.
Proof. exact aligned_equal_len. Qed.
Print Assumptions C01_aligned_calls_equal_len.

(* the alignment hypothesis DISCHARGED for Plugin.iter itself (align_iter = C08's plugin_iter on the two inputs),
   from C08_iter_total_below_pass_limit, C08_iter_calls_aligned and the loop invariants of C08
   (Proof/NetworkIterCalls.v), under iter_pre R1 R2 :=
     no zero-length row in R1, none in R2, and at every time y the staircase of mutually straddling rows of
     (R1, R2) settles within the pass limit ITER_MAX_PASSES (stair_ok, C08) *)
Theorem C01_iter_alignment_from_C08 : forall rn bs dt1 dt2 R1 R2 T s1 s2,
  chunking_of dt1 rn R1 0 T s1 -> chunking_of dt2 rn R2 0 T s2 -> iter_pre R1 R2 ->
  exists calls, align_iter bs s1 s2 = Ok calls /\ aligned R1 R2 0 T calls /\
                ends_nt T (map (fun p => cend (fst p)) calls).
Proof. exact align_iter_ok. Qed.
Print Assumptions C01_iter_alignment_from_C08.

(* results_chunking_independent, closed: Plugin.iter itself aligns the two-dependency nodes; no alignment
   hypothesis is left.  For every topologically ordered graph of local (row-wise, filter, cut, each output of a
   multi-output plugin), exhaust, down-chunking, same-kind-merge and loop nodes whose two-dependency nodes satisfy
   iter_pre on their whole-run inputs (graph_ok), every tight chunking without a zero-duration chunk kept back at
   the end of every source and of every stored data type (`given`): evaluation succeeds and the stream of every
   data type has exactly the rows of the whole-run evaluation and tiles the run. *)
Theorem C01_results_chunking_independent : forall rn T src given g target,
  graph_ok iter_pre rn T src given [] g ->
  exists env, eval_graph align_iter given [] g = Ok env /\
    match lookup target env with
    | Some cs => exists R, lookup target (eval_whole src [] g) = Some R /\ tiles R 0 T cs
    | None => lookup target (eval_whole src [] g) = None
    end.
Proof. exact results_chunking_independent_iter. Qed.
Print Assumptions C01_results_chunking_independent.

(* target_stream_tiles_run: what `tiles` gives for the chunks get_iter yields: continuity_check passes, the
   stream spans the run, every row lies wholly inside the chunk that carries it, no boundary cuts a row *)
Theorem C01_target_stream_tiles_run : forall R a b cs,
  tiles R a b cs ->
  continuity_check cs = None /\ stream_start cs = a /\ stream_end cs = b /\
  Forall (fun c => Forall (fun r => cstart c <= rt r /\ rt r <= re r /\ re r <= cend c) (crows c) /\ sorted (crows c)) cs /\
  (forall pre c post, cs = pre ++ c :: post -> post <> [] -> ~ exists q, In q R /\ straddles q (cend c)).
Proof. exact target_stream_tiles_run. Qed.
Print Assumptions C01_target_stream_tiles_run.

(* rechunk_on_save on or off, any target size of at least one row: what the saver writes is again a well-formed
   contiguous chunking of the same rows over the same range (uses C07's rechunk_stream_correct) *)
Theorem C01_saved_stream_chunking : forall dt run R a b cs rechunk,
  chunking_of dt run R a b cs -> Forall (fun c => 0 < ctarget c) cs ->
  exists out, saved_stream rechunk cs = Ok out /\ out <> [] /\ Forall wf out /\ chain a out b /\ flat_map crows out = R.
Proof. exact saved_stream_correct. Qed.
Print Assumptions C01_saved_stream_chunking.

(* the alignment hypothesis is satisfiable (the coarsest legal alignment: one call over the whole run), so the
   partial theorem is not vacuous; the Example ex_graph_ok / ex_eval in Proof/NetworkGraphProof.v instantiate it *)
Theorem C01_alignment_hypothesis_satisfiable : forall rn bs dt1 dt2 R1 R2 T s1 s2,
  chunking_of dt1 rn R1 0 T s1 -> chunking_of dt2 rn R2 0 T s2 -> True ->
  exists calls, align_one bs s1 s2 = Ok calls /\ aligned R1 R2 0 T calls /\
                ends_nt T (map (fun p => cend (fst p)) calls).
Proof. exact align_one_ok. Qed.
Print Assumptions C01_alignment_hypothesis_satisfiable.

(* stage_determinism, channel level, from C05 (C05_mailbox_delivery_safe, C05_mailbox_complete): a producer sends the
   chunks of a stream cs through a strax Mailbox; for EVERY schedule, any number of subscribers, any capacity, lazy
   or eager, any driver mask, with or without a kill: every subscriber has at every moment received a prefix of
   cs in order, and exactly cs once its iteration has ended; without a kill, when all threads have finished,
   every subscriber has received exactly cs -- also when the chunks are futures computed by a worker pool *)
Theorem C01_stage_determinism_channel : forall cfg cs nfut drives killer sched st,
  run cfg (init cfg drives (source_of (encode cs)) killer nfut) sched = Some st ->
  forall i r, nth_error (rds st) i = Some r ->
    (exists rest, decode cs (r_log r) ++ rest = cs) /\ (r_pc r = RDone -> decode cs (r_log r) = cs).
Proof. exact channel_delivery. Qed.
Print Assumptions C01_stage_determinism_channel.

Theorem C01_stage_determinism_channel_complete : forall cfg cs nfut drives sched st,
  drives <> [] -> run cfg (init cfg drives (source_of (encode cs)) None nfut) sched = Some st ->
  all_terminal st = true -> forall i r, nth_error (rds st) i = Some r -> decode cs (r_log r) = cs.
Proof. exact channel_complete. Qed.
Print Assumptions C01_stage_determinism_channel_complete.

Theorem C01_stage_determinism_channel_futures : forall cfg cs nfut drives sched st,
  drives <> [] -> run cfg (init cfg drives (source_of (encode_fut cs)) None nfut) sched = Some st ->
  all_terminal st = true -> forall i r, nth_error (rds st) i = Some r -> decode cs (r_log r) = cs.
Proof. exact channel_complete_futures. Qed.
Print Assumptions C01_stage_determinism_channel_futures.

(* ---------------------------------------------------------------------------------------------------------- *)
(* full statements that are not proved here                                                                     *)
(* ---------------------------------------------------------------------------------------------------------- *)

(* the overlap-window kind is property C09's model (overlap_equals_whole_run, overlap_output_contiguous); in C01 it
   is covered by the correspondence (oracles i, ii, iv); nodes with three or more dependencies likewise *)

(* stage_determinism at the level of the whole network.  What is proved above is the channel: every subscriber of ONE
   mailbox reads exactly what its producer sent, for every schedule.  Missing for the network statement below:
   (1) a transition system that composes the mailbox LTS of C05 into a network whose stage threads read from
       upstream mailboxes and send what Plugin.iter / do_compute make of it (DESIGN's Model/MailboxNet.v of C13 is
       not on main), so that "a stage is a deterministic function of the sequences it reads" can be composed with
       the channel theorem along the topological order;
   (2) for the single-thread processor, C06's PostOffice model (C06_single_thread_no_failure_complete: the caller
       receives exactly the whole-run message sequence, for arbitrary DAGs) has 1:1 stages only (one message from
       each dependency, one out), not stages that consume several chunks per call (Plugin.iter over unaligned
       inputs, exhaust) or emit several (down-chunking).
   `delivered sched d reader` stands for the sequence the network delivers. *)
Definition C01_full_stage_determinism : Prop :=
  forall (schedule : Type) (terminating : schedule -> Prop)
         (delivered : schedule -> Z -> Z -> stream)      (* schedule -> data type -> reader -> what it read *)
         (align : list Z -> stream -> stream -> res calls2) (given : Z -> option stream) (g : list node) env,
  eval_graph align given [] g = Ok env ->
  forall sched, terminating sched ->
  forall d reader cs, lookup d env = Some cs -> delivered sched d reader = cs.
