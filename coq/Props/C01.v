(* C01 -- Results do not depend on chunking, processor, parallelism or what is stored.
   Only property theorems (closed by `exact <lemma>`), each followed by Print Assumptions.
   Statements that are not (yet) proved are kept visible as Definitions C01_full_*.

   Reading guide.  A stream is the list of chunks one data type carries in one run.
   `chunking_of dt run R a b cs` : cs is non-empty, every chunk is well formed (sorted rows, every row inside
   its chunk), the chunks are contiguous from a to b, their rows concatenate to R, all carry data type dt and
   run id run, and -- the hypothesis under which strax itself is chunking independent, see design_notes/C01.md
   finding F1 -- no row starts on the exclusive end of the chunk that carries it (`tight`; this only excludes
   zero-length rows [x, x) stored in a chunk that ends at x).
   `given` holds the streams the model does not choose: what the source plugins yield and what the loaders of
   the stored data types yield; they are arbitrary chunkings.  Everything else is computed. *)
From SV Require Import Model.Rows Model.SplitArray Model.Chunk Model.Rechunker Model.Network
     Model.Mailbox Proof.MailboxInOrder Model.PluginIter Model.NetworkIter Proof.PluginIterStair
     Proof.RechunkerProof Proof.NetworkProof Proof.NetworkGraphProof Proof.NetworkLoopProof Proof.NetworkDownProof
     Proof.NetworkIterProof Proof.NetworkChannelProof Proof.NetworkFullProof Model.MailboxNet Proof.NetworkNetProof.
From SV Require Proof.NetworkOverlapProof.

(* Plugin.iter with one dependency hands do_compute exactly the dependency's chunks one by one *)
Theorem C01_single_dependency_iter_is_identity : forall dt run cs s e,
  cs <> [] -> Forall wf cs -> uniform dt run cs -> chain s cs e ->
  exists out, iter_single cs = Ok out /\ Forall2 same_data cs out /\ Forall wf out.
Proof. exact iter_single_spec. Qed.
Print Assumptions C01_single_dependency_iter_is_identity.

(* kind_chunking_independent, one lemma per finished kind: the output stream is a tight well-formed contiguous
   chunking of the computation applied to the whole input, whatever the chunking of the input *)

(* row-wise and filtering plugins (also every single output of a multi-output plugin, cut plugins): any computation
   that distributes over concatenation *)
Theorem C01_kind_local_chunking_independent : forall m h dt run R a b cs,
  local_comp h -> chunking_of dt run R a b cs ->
  exists out, run_local m h cs = Ok out /\ chunking_of (o_dtype m) (o_run m) (h R) a b out.
Proof. exact run_local_correct. Qed.
Print Assumptions C01_kind_local_chunking_independent.

Theorem C01_rowwise_and_filter_are_local : forall a b md rem,
  local_comp (h_rowwise a b) /\ local_comp (h_filter a b md rem) /\
  (forall g, keeps_interval g -> local_comp (map g)) /\ (forall p, local_comp (filter p)).
Proof. intros a b md rem. exact (conj (local_h_rowwise a b) (conj (local_h_filter a b md rem) (conj local_map local_filter))). Qed.
Print Assumptions C01_rowwise_and_filter_are_local.

(* exhaust plugins: ANY computation on the whole input that keeps rows ordered and in range *)
Theorem C01_kind_exhaust_chunking_independent : forall m f dt run R a b cs,
  whole_comp f -> chunking_of dt run R a b cs ->
  exists out, run_exhaust m f cs = Ok out /\ chunking_of (o_dtype m) (o_run m) (f R) a b out.
Proof. exact run_exhaust_correct. Qed.
Print Assumptions C01_kind_exhaust_chunking_independent.

(* down-chunking plugins (several sub-chunks per call): any local computation with any cut rule that tiles the call;
   the harness rule down_cut is such a rule *)
Theorem C01_kind_down_chunking_independent : forall m h cut dt run R a b cs,
  local_comp h -> cut_ok cut -> chunking_of dt run R a b cs ->
  exists out, run_down m h cut cs = Ok out /\ chunking_of (o_dtype m) (o_run m) (h R) a b out.
Proof. exact run_down_correct. Qed.
Print Assumptions C01_kind_down_chunking_independent.

Theorem C01_harness_down_cut_tiles_the_call : forall k, cut_ok (down_cut k).
Proof. exact down_cut_ok. Qed.
Print Assumptions C01_harness_down_cut_tiles_the_call.

(* same-kind merge consumers are call-wise computations once the calls hold equally many rows of both inputs *)
Theorem C01_kind_merge_is_callwise : forall a1 a2 b, pair_comp equal_len (h_merge2 a1 a2 b).
Proof. exact pair_h_merge2. Qed.
Print Assumptions C01_kind_merge_is_callwise.

(* LoopPlugin over two data kinds with fully-contained selection is a call-wise computation for every aligned
   sequence of tight calls: no premise on the calls beyond alignment (zero-length rows at chunk ENDs are excluded by
   tightness -- finding F1 is exactly the failure of this statement without it) *)
Theorem C01_kind_loop_is_callwise : forall a b, pair_comp (fun _ => True) (h_loop a b).
Proof. exact pair_h_loop. Qed.
Print Assumptions C01_kind_loop_is_callwise.

(* results_chunking_independent (partial: the kinds local / exhaust / down-chunking / two-dependency call-wise computations, with
   the alignment of Plugin.iter for two dependencies as an explicit hypothesis, to be discharged by C08):
   for every topologically ordered graph of such nodes, every chunking of every source and every stored subset
   with any chunking (both through `given`), evaluation succeeds and the stream of EVERY data type carries exactly
   the rows of the whole-run evaluation and tiles the run *)
Theorem C01_results_chunking_independent_partial :
  forall (align : list Z -> stream -> stream -> res calls2) (align_pre : list row -> list row -> Prop) (rn : option Z),
  (forall bs dt1 dt2 R1 R2 T s1 s2,
     chunking_of dt1 rn R1 0 T s1 -> chunking_of dt2 rn R2 0 T s2 -> align_pre R1 R2 ->
     exists calls, align bs s1 s2 = Ok calls /\ aligned R1 R2 0 T calls /\
                   ends_nt T (map (fun p => cend (fst p)) calls)) ->
  forall (ovl : ovl_t) (ovl_pre : (list row -> list row) -> Z -> Z -> list row -> Prop),
  (forall m f wt wl wr sw dt R T cs,
     o_run m = rn -> chunking_core dt rn R 0 T cs -> ovl_pre f wl wr R ->
     exists out, ovl m f wt wl wr sw cs = Ok out /\ chunking_core (o_dtype m) rn (f R) 0 T out) ->
  forall T src (nt : Z -> Prop) given g target,
  graph_ok align_pre rn ovl_pre T src nt given [] g ->
  exists env, eval_graph_x ovl align given [] g = Ok env /\
    match lookup target env with
    | Some cs => exists R, lookup target (eval_whole src [] g) = Some R /\ tiles R 0 T cs
    | None => lookup target (eval_whole src [] g) = None
    end.
Proof. exact results_chunking_independent. Qed.
Print Assumptions C01_results_chunking_independent_partial.

(* aligned tight calls hold equally many rows of two inputs with the same row starts: the equal-length check of
   Chunk.merge for same-kind inputs can never fire on them *)
Theorem C01_aligned_calls_equal_len : forall R1 R2 a b calls,
  aligned R1 R2 a b calls -> map rt R1 = map rt R2 -> equal_len calls.
Proof. exact aligned_equal_len. Qed.
Print Assumptions C01_aligned_calls_equal_len.

(* the alignment hypothesis DISCHARGED for Plugin.iter itself (align_iter = C08's plugin_iter on the two inputs),
   from C08_iter_total_below_pass_limit, C08_iter_calls_aligned and the loop invariants of C08
   (Proof/NetworkIterCalls.v), under iter_pre R1 R2 :=
     no zero-length row in R1, none in R2, and at every time y the staircase of mutually straddling rows of
     (R1, R2) settles within the pass limit ITER_MAX_PASSES (stair_ok, C08) *)
Theorem C01_iter_alignment_from_C08 : forall rn bs dt1 dt2 R1 R2 T s1 s2,
  chunking_of dt1 rn R1 0 T s1 -> chunking_of dt2 rn R2 0 T s2 -> iter_pre R1 R2 ->
  exists calls, align_iter bs s1 s2 = Ok calls /\ aligned R1 R2 0 T calls /\
                ends_nt T (map (fun p => cend (fst p)) calls).
Proof. exact align_iter_ok. Qed.
Print Assumptions C01_iter_alignment_from_C08.

(* kind_overlap_chunking_independent, from C09's main theorem (C09_overlap_equals_whole_run): the stream of an
   overlap-window node is OverlapWindowPlugin.iter itself (ovl_c09 = C09's ow_iter, Model/NetworkIter.v); for every
   computation f that is window-local within (2 wl, 2 wr), disjoint sorted positive-length input rows R (dsp) and
   EVERY tight well-formed contiguous chunking of R, the output stream is a tight well-formed contiguous chunking of
   f R with one data type and run id.  (Nothing is claimed about a zero-duration chunk at the end of the output:
   chunking_core, not chunking_of.) *)
Theorem C01_kind_overlap_chunking_independent : forall rn m f wt wl wr sw dt R T cs,
  o_run m = rn -> chunking_core dt rn R 0 T cs -> NetworkOverlapProof.ovl_pre f wl wr R ->
  exists out, ovl_c09 m f wt wl wr sw cs = Ok out /\ chunking_core (o_dtype m) rn (f R) 0 T out.
Proof. exact NetworkOverlapProof.ovl_c09_ok. Qed.
Print Assumptions C01_kind_overlap_chunking_independent.

(* results_chunking_independent, CLOSED: Plugin.iter itself (C08) aligns the two-dependency nodes and
   OverlapWindowPlugin.iter itself (C09) runs the overlap-window nodes; no hypothesis about either is left.
   For every topologically ordered graph of local (row-wise, filter, cut, each output of a multi-output plugin),
   exhaust, down-chunking, overlap-window, same-kind-merge and loop nodes such that (graph_ok)
     - every two-dependency node's whole-run inputs satisfy iter_pre (no zero-length rows, staircase below the pass
       limit) and, for a same-kind merge, have equal row intervals,
     - every overlap-window node's computation is window-local within twice its window and its whole-run input is
       disjoint, sorted, of positive length (ovl_pre),
     - `nt` (the data types known to keep no zero-duration chunk back at the end) holds of both inputs of every
       two-dependency node, propagates backwards through one-chunk-per-call nodes, and is not claimed of
       overlap-window outputs,
     - every given stream (source or stored data type) is a tight well-formed contiguous chunking of its whole-run
       rows with one run id (and without a zero-duration chunk at the end where nt is claimed),
   evaluation succeeds and the stream of every data type has exactly the rows of the whole-run evaluation and tiles
   the run. *)
Theorem C01_results_chunking_independent : forall rn T src (nt : Z -> Prop) given g target,
  graph_ok iter_pre rn NetworkOverlapProof.ovl_pre T src nt given [] g ->
  exists env, eval_graph_x ovl_c09 align_iter given [] g = Ok env /\
    match lookup target env with
    | Some cs => exists R, lookup target (eval_whole src [] g) = Some R /\ tiles R 0 T cs
    | None => lookup target (eval_whole src [] g) = None
    end.
Proof. exact results_chunking_independent_full. Qed.
Print Assumptions C01_results_chunking_independent.

(* target_stream_tiles_run: what `tiles` gives for the chunks get_iter yields: continuity_check passes, the
   stream spans the run, every row lies wholly inside the chunk that carries it, no boundary cuts a row *)
Theorem C01_target_stream_tiles_run : forall R a b cs,
  tiles R a b cs ->
  continuity_check cs = None /\ stream_start cs = a /\ stream_end cs = b /\
  Forall (fun c => Forall (fun r => cstart c <= rt r /\ rt r <= re r /\ re r <= cend c) (crows c) /\ sorted (crows c)) cs /\
  (forall pre c post, cs = pre ++ c :: post -> post <> [] -> ~ exists q, In q R /\ straddles q (cend c)).
Proof. exact target_stream_tiles_run. Qed.
Print Assumptions C01_target_stream_tiles_run.

(* rechunk_on_save on or off, any target size of at least one row: what the saver writes is again a well-formed
   contiguous chunking of the same rows over the same range (uses C07's rechunk_stream_correct) *)
Theorem C01_saved_stream_chunking : forall dt run R a b cs rechunk,
  chunking_of dt run R a b cs -> Forall (fun c => 0 < ctarget c) cs ->
  exists out, saved_stream rechunk cs = Ok out /\ out <> [] /\ Forall wf out /\ chain a out b /\ flat_map crows out = R.
Proof. exact saved_stream_correct. Qed.
Print Assumptions C01_saved_stream_chunking.

(* the alignment hypothesis is satisfiable (the coarsest legal alignment: one call over the whole run), so the
   partial theorem is not vacuous; the Example ex_graph_ok / ex_eval in Proof/NetworkGraphProof.v instantiate it *)
Theorem C01_alignment_hypothesis_satisfiable : forall rn bs dt1 dt2 R1 R2 T s1 s2,
  chunking_of dt1 rn R1 0 T s1 -> chunking_of dt2 rn R2 0 T s2 -> True ->
  exists calls, align_one bs s1 s2 = Ok calls /\ aligned R1 R2 0 T calls /\
                ends_nt T (map (fun p => cend (fst p)) calls).
Proof. exact align_one_ok. Qed.
Print Assumptions C01_alignment_hypothesis_satisfiable.

(* stage_determinism, channel level, from C05 (C05_mailbox_delivery_safe, C05_mailbox_complete): a producer sends the
   chunks of a stream cs through a strax Mailbox; for EVERY schedule, any number of subscribers, any capacity, lazy
   or eager, any driver mask, with or without a kill: every subscriber has at every moment received a prefix of
   cs in order, and exactly cs once its iteration has ended; without a kill, when all threads have finished,
   every subscriber has received exactly cs -- also when the chunks are futures computed by a worker pool *)
Theorem C01_stage_determinism_channel : forall cfg cs nfut drives killer sched st,
  run cfg (init cfg drives (source_of (encode cs)) killer nfut) sched = Some st ->
  forall i r, nth_error (rds st) i = Some r ->
    (exists rest, decode cs (r_log r) ++ rest = cs) /\ (r_pc r = RDone -> decode cs (r_log r) = cs).
Proof. exact channel_delivery. Qed.
Print Assumptions C01_stage_determinism_channel.

Theorem C01_stage_determinism_channel_complete : forall cfg cs nfut drives sched st,
  drives <> [] -> run cfg (init cfg drives (source_of (encode cs)) None nfut) sched = Some st ->
  all_terminal st = true -> forall i r, nth_error (rds st) i = Some r -> decode cs (r_log r) = cs.
Proof. exact channel_complete. Qed.
Print Assumptions C01_stage_determinism_channel_complete.

Theorem C01_stage_determinism_channel_futures : forall cfg cs nfut drives sched st,
  drives <> [] -> run cfg (init cfg drives (source_of (encode_fut cs)) None nfut) sched = Some st ->
  all_terminal st = true -> forall i r, nth_error (rds st) i = Some r -> decode cs (r_log r) = cs.
Proof. exact channel_complete_futures. Qed.
Print Assumptions C01_stage_determinism_channel_futures.

(* stage_determinism, network level, on C13's network model (Model/MailboxNet.v: C05's mailbox transition system
   composed into networks with worker threads -- loaders, plugins, dividers -- savers, discarders and the consumer;
   any wiring).  MailboxNet fixes in advance what each mailbox's sender will send (its source list, the "prophecy");
   here that is the stream of the data type, e.g. the one eval_graph computes, message number i carrying chunk
   number i.  Then for EVERY network, EVERY schedule, EVERY reachable network state: every subscriber of every
   mailbox has received a prefix of that stream in order, exactly the stream once its iteration ended, and (without
   kills) exactly the stream when all threads of the mailbox have finished. *)
Theorem C01_stage_determinism_network : forall streams drives killer nfut n0 sched n,
  (forall d cfg st, nth_error (n_boxes n0) d = Some (cfg, st) ->
     st = init cfg (drives d) (source_of (encode (streams d))) (killer d) (nfut d)) ->
  nrun n0 sched = Some n ->
  forall d cfg st, nth_error (n_boxes n) d = Some (cfg, st) ->
  forall i r, nth_error (rds st) i = Some r ->
    (exists rest, decode (streams d) (r_log r) ++ rest = streams d) /\
    (r_pc r = RDone -> decode (streams d) (r_log r) = streams d).
Proof. exact network_delivery. Qed.
Print Assumptions C01_stage_determinism_network.

Theorem C01_stage_determinism_network_complete : forall streams drives nfut n0 sched n,
  (forall d cfg st, nth_error (n_boxes n0) d = Some (cfg, st) ->
     drives d <> [] /\ st = init cfg (drives d) (source_of (encode (streams d))) None (nfut d)) ->
  nrun n0 sched = Some n ->
  forall d cfg st, nth_error (n_boxes n) d = Some (cfg, st) -> all_terminal st = true ->
  forall i r, nth_error (rds st) i = Some r -> decode (streams d) (r_log r) = streams d.
Proof. exact network_complete. Qed.
Print Assumptions C01_stage_determinism_network_complete.

(* ---------------------------------------------------------------------------------------------------------- *)
(* full statements that are not proved here                                                                     *)
(* ---------------------------------------------------------------------------------------------------------- *)

(* nodes with three or more dependencies: the C08 side is already k-ary (the proof of C01_iter_alignment_from_C08
   uses only theorems stated for any number of dependencies); what is binary is C01's own vocabulary: the node
   kind CPair, calls2 = list of PAIRS of chunks, rows1 / rows2, pair_comp with h : rows -> rows -> rows, the merge
   instance over map2 and the loop instance over one things kind.  A k-ary version needs calls as lists of chunks,
   computations over list (list row), a k-ary zip for the merge instance and a loop instance over several things
   kinds; not done.  Such nodes are covered by the correspondence only. *)

(* stage_determinism with the stages' computations inside the transition system.  Proved above: every channel of
   every network delivers exactly what its sender sends, for every schedule.  MailboxNet's stages are 1:1 and what
   they send is a prophecy, not computed from what they read; so the fixpoint "every stage reads exactly its
   dependencies' eval_graph streams (channel theorem), run_node is a function of what is read, hence it sends its own
   eval_graph stream" cannot be closed INSIDE the model: that needs a network model whose senders apply
   Plugin.iter / do_compute to the sequences their subscriptions delivered (stages that consume several chunks per
   call or emit several are outside MailboxNet and outside C06's PostOffice model alike).
   `delivered sched d reader` stands for the sequence such a network delivers. *)
Definition C01_full_stage_determinism : Prop :=
  forall (schedule : Type) (terminating : schedule -> Prop)
         (delivered : schedule -> Z -> Z -> stream)      (* schedule -> data type -> reader -> what it read *)
         (align : list Z -> stream -> stream -> res calls2) (given : Z -> option stream) (g : list node) env,
  eval_graph align given [] g = Ok env ->
  forall sched, terminating sched ->
  forall d reader cs, lookup d env = Some cs -> delivered sched d reader = cs.
