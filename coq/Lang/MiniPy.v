(* MiniPy: a deep embedding of the small imperative subset of Python that the pure numba kernels of
   strax use, with a total, executable big-step interpreter.

   The programs interpreted here are NOT written by hand: harness/translate.py regenerates them
   (coq/Gen/<Name>.v) from the Python `ast` of the named function in /repo on every run, by a purely
   syntactic mapping.  Proof/Refine<Name>.v proves that the regenerated program computes, for ALL
   inputs, exactly what the hand-written model computes.

   Semantics notes (what a MiniPy construct means, next to the Python it is generated from):
   * integers are unbounded (Z), like Python ints; numba's int64 wrap-around is not modelled
     (neither is it in the hand-written models);
   * arrays are immutable values: lists of rows (a structured array, Model/Rows.v) or lists of Z
     (an integer array); `x[i] = e` rebinds the local name x to the updated list.  The translator
     rejects programs in which this differs from numpy's in-place update (aliasing, writes to the
     array that is being iterated);
   * `d["time"]` is rt, `strax.endtime(d)` is re (the row abstraction shared by all models);
   * negative indices and slice bounds follow Python (counted from the end, slices clip);
   * an out-of-range index, an operation on the wrong kind of value, the use of a local before its
     assignment, a division by zero are all `OStuck` (Python would raise IndexError / TypeError /
     UnboundLocalError / ZeroDivisionError; numba would not even check the index).  The refinement
     theorems show the generated programs never get stuck;
   * `while` takes fuel (`OOutOfFuel` when exhausted); everything else is structural recursion. *)
From Coq Require Import String.
From SV Require Export Model.Rows.

Notation str := String.string.

(* ------------------------------------------------------------------------------------------- *)
(* Values *)

Inductive val :=
| VUndef                      (* a local that has not been assigned yet *)
| VInt (z : Z)
| VBool (b : bool)
| VRow (r : row)              (* one element of a structured array *)
| VRows (rs : list row)       (* structured array *)
| VInts (zs : list Z)         (* integer array *)
| VTuple (vs : list val)
| VStr (s : str)                       (* only passed through (the `kind` of stable_argsort) *)
| VMat (m : list (list Z))             (* 2-d integer array *)
| VRec (fs : list (str * val))         (* one element of a structured array with arbitrary fields *)
| VRecs (rs : list (list (str * val))). (* structured array with arbitrary fields *)

(* ------------------------------------------------------------------------------------------- *)
(* Syntax *)

Inductive binop := BAdd | BSub | BMul | BFloorDiv | BMod.
Inductive cmpop := CLt | CLe | CGt | CGe | CEq | CNe.

Inductive expr :=
| EInt (z : Z)
| EBool (b : bool)
| EVar (x : str)
| EBin (op : binop) (a b : expr)
| ECmp (op : cmpop) (a b : expr)
| EAnd (a b : expr)               (* only generated in test position; yields the truth value *)
| EOr (a b : expr)
| ENot (a : expr)
| ENeg (a : expr)                  (* -a *)
| EMax (a b : expr)               (* max(a, b) *)
| EMin (a b : expr)               (* min(a, b) *)
| ELen (a : expr)                 (* len(a) *)
| EIndex (a i : expr)             (* a[i] *)
| EField (a : expr) (f : str)     (* a["time"] on an element or on a whole array *)
| EEndtime (a : expr)             (* strax.endtime(a) on an element or on a whole array *)
| ESliceTo (a hi : expr)          (* a[:hi] *)
| ESliceFrom (a lo : expr)        (* a[lo:] *)
| EZeros (n : expr)               (* np.zeros(n, dtype=np.int64 / np.int32) *)
| EZeros2 (n m : expr)            (* np.zeros((n, m), dtype=...) *)
| EFull (n c : expr)              (* np.ones(n, dtype=...) * c *)
| EMaxOf (a : expr)               (* a.max() of a non-empty integer array *)
| EArgsort (a k : expr)           (* strax.sort_enforcement.stable_argsort(a, kind=k) *)
| ETuple (es : list expr).

Inductive iterable :=
| IEnum (i d : str) (arr : expr)               (* for i, d in enumerate(arr) *)
| IRange (i : str) (n : expr)                  (* for i in range(n) *)
| IEnumZip (i x y : str) (a b : expr)          (* for i, (x, y) in enumerate(zip(a, b)) *)
| IIn (i : str) (arr : expr).                  (* for i in arr *)

Inductive stmt :=
| SSkip                                          (* pass *)
| SAssign (x : str) (e : expr)                   (* x = e;  x op= e is generated as x = x op e *)
| SSetIndex (x : str) (i e : expr)               (* x[i] = e, x an integer array *)
| SSetIndex2 (x : str) (i j e : expr)            (* x[i, j] = e, x a 2-d integer array *)
| SSeq (a b : stmt)
| SIf (c : expr) (a b : stmt)                    (* elif = nested SIf in b *)
| SFor (it : iterable) (body orelse : stmt)      (* for ... : body  else: orelse *)
| SWhile (c : expr) (body : stmt)
| SBreak
| SContinue
| SReturn (e : expr)
| SRaise (exn : str).                            (* raise Name / raise Name();  assert c is generated
                                                    as  if c: pass  else: raise AssertionError *)

Record func := mkfunc { fname : str; fparams : list str; fbody : stmt }.

(* ------------------------------------------------------------------------------------------- *)
(* Environments: association lists with a fixed shape.  `init_env` binds every formal and every
   assigned local (VUndef) up front, so `update` is always in place. *)

Definition env := list (str * val).

Fixpoint lookup (e : env) (x : str) : option val :=
  match e with
  | [] => None
  | (y, v) :: rest => if String.eqb y x then Some v else lookup rest x
  end.

Fixpoint update (e : env) (x : str) (v : val) : env :=
  match e with
  | [] => [(x, v)]
  | (y, w) :: rest => if String.eqb y x then (y, v) :: rest else (y, w) :: update rest x v
  end.

Fixpoint bind_all (e : env) (bs : list (str * val)) : env :=
  match bs with
  | [] => e
  | (x, v) :: rest => bind_all (update e x v) rest
  end.

(* private copies of the list functions used on the (always concrete) name lists, so that the
   symbolic-execution tactic can unfold them without touching length/app/combine on data *)
Fixpoint e_snoc (l : list str) (x : str) : list str :=
  match l with [] => [x] | y :: r => y :: e_snoc r x end.
Fixpoint e_app (a b : list str) : list str :=
  match a with [] => b | y :: r => y :: e_app r b end.
Fixpoint e_len {A} (l : list A) : nat :=
  match l with [] => O | _ :: r => S (e_len r) end.
Fixpoint e_combine (a : list str) (b : list val) : env :=
  match a, b with x :: r, v :: s => (x, v) :: e_combine r s | _, _ => [] end.
Fixpoint e_nat_eqb (a b : nat) : bool :=
  match a, b with O, O => true | S a', S b' => e_nat_eqb a' b' | _, _ => false end.

Fixpoint mem_str (x : str) (l : list str) : bool :=
  match l with [] => false | y :: r => if String.eqb y x then true else mem_str x r end.

Fixpoint add_new (acc l : list str) : list str :=
  match l with
  | [] => acc
  | x :: r => if mem_str x acc then add_new acc r else add_new (e_snoc acc x) r
  end.

Definition iter_targets (it : iterable) : list str :=
  match it with
  | IEnum i d _ => [i; d]
  | IRange i _ => [i]
  | IEnumZip i x y _ _ => [i; x; y]
  | IIn i _ => [i]
  end.

(* names assigned in a statement, in order of first occurrence (with repetitions) *)
Fixpoint assigned (s : stmt) : list str :=
  match s with
  | SAssign x _ => [x]
  | SSetIndex x _ _ => [x]
  | SSetIndex2 x _ _ _ => [x]
  | SSeq a b => e_app (assigned a) (assigned b)
  | SIf _ a b => e_app (assigned a) (assigned b)
  | SFor it body orelse => e_app (iter_targets it) (e_app (assigned body) (assigned orelse))
  | SWhile _ body => assigned body
  | _ => []
  end.

Definition env_names (f : func) : list str := add_new (add_new [] (fparams f)) (assigned (fbody f)).

Fixpoint init_vals (n : nat) (args : list val) : list val :=
  match n with
  | O => []
  | S n' => match args with [] => VUndef :: init_vals n' [] | a :: r => a :: init_vals n' r end
  end.

(* formals bound to the actuals, the remaining names to VUndef; None on an arity mismatch
   (default values of formals are not modelled: every argument must be given) *)
Definition init_env (f : func) (args : list val) : option env :=
  if e_nat_eqb (e_len args) (e_len (fparams f))
  then if e_nat_eqb (e_len (add_new [] (fparams f))) (e_len (fparams f))
       then Some (e_combine (env_names f) (init_vals (e_len (env_names f)) args))
       else None
  else None.

(* environment with the given names, positionally: the refinement proofs build their invariants
   with the names taken from the program (env_names), never with literal names *)
Definition mk_env (names : list str) (vals : list val) : env := e_combine names vals.

(* ------------------------------------------------------------------------------------------- *)
(* List-level primitives (kept folded by the symbolic-execution tactic; see the lemmas below) *)

(* Python index normalisation: i in [-n, n) *)
Definition norm_index (n : nat) (i : Z) : option nat :=
  if (0 <=? i) && (i <? Z.of_nat n) then Some (Z.to_nat i)
  else if (- Z.of_nat n <=? i) && (i <? 0) then Some (Z.to_nat (i + Z.of_nat n))
  else None.

Definition idx {A} (l : list A) (i : Z) : option A :=
  match norm_index (length l) i with Some k => nth_error l k | None => None end.

(* Python slice bound: negative counts from the end, everything clips (Z.to_nat clips at 0,
   firstn / skipn clip at the length) *)
Definition slice_bound (n : nat) (i : Z) : nat :=
  if i <? 0 then Z.to_nat (Z.of_nat n + i) else Z.to_nat i.

Definition slice_to {A} (l : list A) (hi : Z) : list A := firstn (slice_bound (length l) hi) l.
Definition slice_from {A} (l : list A) (lo : Z) : list A := skipn (slice_bound (length l) lo) l.

Fixpoint set_nth {A} (l : list A) (k : nat) (v : A) : option (list A) :=
  match l, k with
  | [], _ => None
  | _ :: r, O => Some (v :: r)
  | x :: r, S k' => match set_nth r k' v with Some r' => Some (x :: r') | None => None end
  end.

Definition set_idx {A} (l : list A) (i : Z) (v : A) : option (list A) :=
  match norm_index (length l) i with Some k => set_nth l k v | None => None end.

Definition zeros (n : Z) : option (list Z) :=
  if n <? 0 then None else Some (repeat 0 (Z.to_nat n)).

Definition len_z {A} (l : list A) : Z := Z.of_nat (length l).

Definition zeros2 (n m : Z) : option (list (list Z)) :=
  if (n <? 0) || (m <? 0) then None else Some (repeat (repeat 0 (Z.to_nat m)) (Z.to_nat n)).

Definition full (n c : Z) : option (list Z) :=
  if n <? 0 then None else Some (repeat c (Z.to_nat n)).

Definition set_idx2 (m : list (list Z)) (i j v : Z) : option (list (list Z)) :=
  match idx m i with
  | Some r => match set_idx r j v with Some r' => set_idx m i r' | None => None end
  | None => None
  end.

Definition max_of (l : list Z) : option Z :=
  match l with [] => None | x :: r => Some (zmaxl x r) end.

(* specified semantics of stable_argsort(keys, kind="mergesort"): the indices 0..n-1 ordered by
   key, equal keys in index order (stable insertion sort; any stable sort gives the same list) *)
Fixpoint as_ins (x : nat * Z) (l : list (nat * Z)) : list (nat * Z) :=
  match l with
  | [] => [x]
  | y :: r => if snd x <=? snd y then x :: l else y :: as_ins x r
  end.
Definition argsort_pairs (keys : list Z) : list (nat * Z) :=
  fold_right as_ins [] (combine (seq 0 (length keys)) keys).
Definition stable_argsort (keys : list Z) : list Z := map (fun p => Z.of_nat (fst p)) (argsort_pairs keys).

Fixpoint rec_get (f : str) (fs : list (str * val)) : option val :=
  match fs with
  | [] => None
  | (g, v) :: rest => if String.eqb g f then Some v else rec_get f rest
  end.

Fixpoint recs_col (f : str) (rs : list (list (str * val))) : option (list Z) :=
  match rs with
  | [] => Some []
  | r :: rest =>
      match rec_get f r, recs_col f rest with
      | Some (VInt z), Some zs => Some (z :: zs)
      | _, _ => None
      end
  end.

(* ------------------------------------------------------------------------------------------- *)
(* Expressions *)

Definition field_get (f : str) (r : row) : option Z :=
  if String.eqb f "time"%string then Some (rt r)
  else if String.eqb f "channel"%string then Some (rch r)
  else None.

Definition field_all (f : str) (rs : list row) : option (list Z) :=
  if String.eqb f "time"%string then Some (map rt rs)
  else if String.eqb f "channel"%string then Some (map rch rs)
  else None.

Definition truthy (v : val) : option bool :=
  match v with
  | VBool b => Some b
  | VInt z => Some (negb (z =? 0))
  | _ => None
  end.

Definition eval_bin (op : binop) (x y : Z) : option val :=
  match op with
  | BAdd => Some (VInt (x + y))
  | BSub => Some (VInt (x - y))
  | BMul => Some (VInt (x * y))
  | BFloorDiv => if y =? 0 then None else Some (VInt (x / y))
  | BMod => if y =? 0 then None else Some (VInt (x mod y))
  end.

Definition eval_cmp (op : cmpop) (x y : Z) : bool :=
  match op with
  | CLt => x <? y
  | CLe => x <=? y
  | CGt => x >? y
  | CGe => x >=? y
  | CEq => x =? y
  | CNe => negb (x =? y)
  end.

Definition v_len (v : val) : option val :=
  match v with
  | VRows rs => Some (VInt (len_z rs))
  | VInts zs => Some (VInt (len_z zs))
  | VMat m => Some (VInt (len_z m))
  | VRecs rs => Some (VInt (len_z rs))
  | _ => None
  end.

Definition v_index (a i : val) : option val :=
  match a, i with
  | VRows rs, VInt k => option_map VRow (idx rs k)
  | VInts zs, VInt k => option_map VInt (idx zs k)
  | VRecs rs, VInt k => option_map VRec (idx rs k)
  | _, _ => None
  end.

Definition v_field (a : val) (f : str) : option val :=
  match a with
  | VRow r => option_map VInt (field_get f r)
  | VRows rs => option_map VInts (field_all f rs)
  | VRec fs => rec_get f fs
  | VRecs rs => option_map VInts (recs_col f rs)
  | _ => None
  end.

Definition v_endtime (a : val) : option val :=
  match a with
  | VRow r => Some (VInt (re r))
  | VRows rs => Some (VInts (map re rs))
  | _ => None
  end.

Definition v_slice_to (a i : val) : option val :=
  match a, i with
  | VRows rs, VInt k => Some (VRows (slice_to rs k))
  | VInts zs, VInt k => Some (VInts (slice_to zs k))
  | _, _ => None
  end.

Definition v_slice_from (a i : val) : option val :=
  match a, i with
  | VRows rs, VInt k => Some (VRows (slice_from rs k))
  | VInts zs, VInt k => Some (VInts (slice_from zs k))
  | _, _ => None
  end.

Definition v_zeros (n : val) : option val :=
  match n with VInt k => option_map VInts (zeros k) | _ => None end.

Definition v_zeros2 (n m : val) : option val :=
  match n, m with VInt a, VInt b => option_map VMat (zeros2 a b) | _, _ => None end.

Definition v_full (n c : val) : option val :=
  match n, c with VInt a, VInt b => option_map VInts (full a b) | _, _ => None end.

Definition v_max_of (a : val) : option val :=
  match a with VInts zs => option_map VInt (max_of zs) | _ => None end.

Definition mergesort_name : str := "mergesort"%string.

(* any other kind is rejected by strax with SortingError; here it is stuck (the refinement
   theorems are stated for kind = "mergesort", the only value strax passes) *)
Definition v_argsort (a k : val) : option val :=
  match a, k with
  | VInts zs, VStr kind => if String.eqb kind mergesort_name then Some (VInts (stable_argsort zs)) else None
  | _, _ => None
  end.

Definition v_int2 (f : Z -> Z -> option val) (a b : val) : option val :=
  match a, b with VInt x, VInt y => f x y | _, _ => None end.

Definition obind {A B} (o : option A) (f : A -> option B) : option B :=
  match o with Some a => f a | None => None end.

Fixpoint eval (e : expr) (en : env) : option val :=
  match e with
  | EInt z => Some (VInt z)
  | EBool b => Some (VBool b)
  | EVar x => match lookup en x with Some VUndef => None | o => o end
  | EBin op a b => obind (eval a en) (fun va => obind (eval b en) (fun vb => v_int2 (eval_bin op) va vb))
  | ECmp op a b => obind (eval a en) (fun va => obind (eval b en) (fun vb =>
                     v_int2 (fun x y => Some (VBool (eval_cmp op x y))) va vb))
  | EAnd a b => match obind (eval a en) truthy with
                | Some true => option_map VBool (obind (eval b en) truthy)
                | Some false => Some (VBool false)
                | None => None
                end
  | EOr a b => match obind (eval a en) truthy with
               | Some true => Some (VBool true)
               | Some false => option_map VBool (obind (eval b en) truthy)
               | None => None
               end
  | ENot a => option_map (fun b => VBool (negb b)) (obind (eval a en) truthy)
  | ENeg a => match eval a en with Some (VInt x) => Some (VInt (- x)) | _ => None end
  | EMax a b => obind (eval a en) (fun va => obind (eval b en) (fun vb =>
                  v_int2 (fun x y => Some (VInt (Z.max x y))) va vb))
  | EMin a b => obind (eval a en) (fun va => obind (eval b en) (fun vb =>
                  v_int2 (fun x y => Some (VInt (Z.min x y))) va vb))
  | ELen a => obind (eval a en) v_len
  | EIndex a i => obind (eval a en) (fun va => obind (eval i en) (fun vi => v_index va vi))
  | EField a f => obind (eval a en) (fun va => v_field va f)
  | EEndtime a => obind (eval a en) v_endtime
  | ESliceTo a i => obind (eval a en) (fun va => obind (eval i en) (fun vi => v_slice_to va vi))
  | ESliceFrom a i => obind (eval a en) (fun va => obind (eval i en) (fun vi => v_slice_from va vi))
  | EZeros n => obind (eval n en) v_zeros
  | EZeros2 n m => obind (eval n en) (fun vn => obind (eval m en) (fun vm => v_zeros2 vn vm))
  | EFull n c => obind (eval n en) (fun vn => obind (eval c en) (fun vc => v_full vn vc))
  | EMaxOf a => obind (eval a en) v_max_of
  | EArgsort a k => obind (eval a en) (fun va => obind (eval k en) (fun vk => v_argsort va vk))
  | ETuple es =>
      option_map VTuple
        ((fix go (l : list expr) : option (list val) :=
            match l with
            | [] => Some []
            | x :: r => match eval x en, go r with
                        | Some v, Some vs => Some (v :: vs)
                        | _, _ => None
                        end
            end) es)
  end.

Definition eval_test (c : expr) (en : env) : option bool := obind (eval c en) truthy.

(* ------------------------------------------------------------------------------------------- *)
(* Iterables: the list of per-iteration bindings, computed once before the loop starts *)

Fixpoint enum_from {A} (k : nat) (l : list A) : list (nat * A) :=
  match l with [] => [] | x :: r => (k, x) :: enum_from (S k) r end.

Definition v_elems (v : val) : option (list val) :=
  match v with
  | VRows rs => Some (map VRow rs)
  | VInts zs => Some (map VInt zs)
  | VRecs rs => Some (map VRec rs)
  | _ => None
  end.

Definition zi (k : nat) : val := VInt (Z.of_nat k).

Definition enum_binds (i d : str) (k : nat) (els : list val) : list (list (str * val)) :=
  map (fun kv => [(i, zi (fst kv)); (d, snd kv)]) (enum_from k els).
Definition range_binds (i : str) (k n : nat) : list (list (str * val)) :=
  map (fun j => [(i, zi j)]) (seq k n).
Definition zip_binds (i x y : str) (k : nat) (la lb : list val) : list (list (str * val)) :=
  map (fun kv => [(i, zi (fst kv)); (x, fst (snd kv)); (y, snd (snd kv))]) (enum_from k (combine la lb)).

Definition in_binds (i : str) (els : list val) : list (list (str * val)) := map (fun v => [(i, v)]) els.

Definition eval_iter (it : iterable) (en : env) : option (list (list (str * val))) :=
  match it with
  | IEnum i d arr =>
      obind (obind (eval arr en) v_elems) (fun els =>
        Some (enum_binds i d 0 els))
  | IRange i n =>
      match eval n en with
      | Some (VInt z) => Some (range_binds i 0 (Z.to_nat z))
      | _ => None
      end
  | IEnumZip i x y a b =>
      obind (obind (eval a en) v_elems) (fun la =>
      obind (obind (eval b en) v_elems) (fun lb =>
        Some (zip_binds i x y 0 la lb)))
  | IIn i arr => obind (obind (eval arr en) v_elems) (fun els => Some (in_binds i els))
  end.

(* ------------------------------------------------------------------------------------------- *)
(* Statements *)

Inductive outcome :=
| ONormal (e : env)           (* fell off the end (at top level: `return None`, e observable) *)
| OBreak (e : env)
| OContinue (e : env)
| OReturn (v : val)
| ORaise (exn : str)
| OStuck
| OOutOfFuel.

(* the for loop: ONormal = exhausted, OBreak = left by break *)
Fixpoint iter_list (step : env -> outcome) (els : list (list (str * val))) (e : env) : outcome :=
  match els with
  | [] => ONormal e
  | b :: rest =>
      match step (bind_all e b) with
      | ONormal e' | OContinue e' => iter_list step rest e'
      | o => o
      end
  end.

Fixpoint iter_while (fuel : nat) (c : expr) (step : env -> outcome) (e : env) : outcome :=
  match fuel with
  | O => OOutOfFuel
  | S n =>
      match eval_test c e with
      | None => OStuck
      | Some false => ONormal e
      | Some true =>
          match step e with
          | ONormal e' | OContinue e' => iter_while n c step e'
          | OBreak e' => ONormal e'
          | o => o
          end
      end
  end.

Fixpoint exec (fuel : nat) (s : stmt) (e : env) : outcome :=
  match s with
  | SSkip => ONormal e
  | SAssign x a => match eval a e with Some v => ONormal (update e x v) | None => OStuck end
  | SSetIndex x i a =>
      match lookup e x, eval i e, eval a e with
      | Some (VInts zs), Some (VInt k), Some (VInt v) =>
          match set_idx zs k v with Some zs' => ONormal (update e x (VInts zs')) | None => OStuck end
      | _, _, _ => OStuck
      end
  | SSetIndex2 x i j a =>
      match lookup e x, eval i e, eval j e, eval a e with
      | Some (VMat m), Some (VInt ki), Some (VInt kj), Some (VInt v) =>
          match set_idx2 m ki kj v with Some m' => ONormal (update e x (VMat m')) | None => OStuck end
      | _, _, _, _ => OStuck
      end
  | SSeq a b => match exec fuel a e with ONormal e' => exec fuel b e' | o => o end
  | SIf c a b =>
      match eval_test c e with
      | Some true => exec fuel a e
      | Some false => exec fuel b e
      | None => OStuck
      end
  | SFor it body orelse =>
      match eval_iter it e with
      | None => OStuck
      | Some els =>
          match iter_list (exec fuel body) els e with
          | ONormal e' => exec fuel orelse e'
          | OBreak e' => ONormal e'
          | OContinue _ => OStuck
          | o => o
          end
      end
  | SWhile c body => iter_while fuel c (exec fuel body) e
  | SBreak => OBreak e
  | SContinue => OContinue e
  | SReturn a => match eval a e with Some v => OReturn v | None => OStuck end
  | SRaise n => ORaise n
  end.

Definition run (fuel : nat) (f : func) (args : list val) : outcome :=
  match init_env f args with
  | None => OStuck
  | Some e =>
      match exec fuel (fbody f) e with
      | OBreak _ | OContinue _ => OStuck
      | o => o
      end
  end.

(* ------------------------------------------------------------------------------------------- *)
(* Access to the pieces of a program without naming its variables (the refinement proofs take
   loop bodies and variable names from the generated program, so a renamed local keeps them valid) *)

Fixpoint first_for (s : stmt) : option (iterable * stmt * stmt) :=
  match s with
  | SFor it b o => Some (it, b, o)
  | SSeq a b => match first_for a with Some r => Some r | None => first_for b end
  | SIf _ a b => match first_for a with Some r => Some r | None => first_for b end
  | SWhile _ b => first_for b
  | _ => None
  end.

Fixpoint first_while (s : stmt) : option (expr * stmt) :=
  match s with
  | SWhile c b => Some (c, b)
  | SSeq a b => match first_while a with Some r => Some r | None => first_while b end
  | SIf _ a b => match first_while a with Some r => Some r | None => first_while b end
  | SFor _ b o => match first_while b with Some r => Some r | None => first_while o end
  | _ => None
  end.

(* all for loops / while loops of a statement, in textual order (outer before inner) *)
Fixpoint all_fors (s : stmt) : list (iterable * stmt * stmt) :=
  match s with
  | SFor it b o => (it, b, o) :: all_fors b ++ all_fors o
  | SSeq a b => all_fors a ++ all_fors b
  | SIf _ a b => all_fors a ++ all_fors b
  | SWhile _ b => all_fors b
  | _ => []
  end.

Fixpoint all_whiles (s : stmt) : list (expr * stmt) :=
  match s with
  | SWhile c b => (c, b) :: all_whiles b
  | SSeq a b => all_whiles a ++ all_whiles b
  | SIf _ a b => all_whiles a ++ all_whiles b
  | SFor _ b o => all_whiles b ++ all_whiles o
  | _ => []
  end.

Definition nth_for_body (k : nat) (s : stmt) : stmt :=
  match nth_error (all_fors s) k with Some (_, b, _) => b | None => SSkip end.
Definition nth_for_targets (k : nat) (s : stmt) : list str :=
  match nth_error (all_fors s) k with Some (it, _, _) => iter_targets it | None => [] end.
Definition nth_while_cond (k : nat) (s : stmt) : expr :=
  match nth_error (all_whiles s) k with Some (c, _) => c | None => EBool false end.
Definition nth_while_body (k : nat) (s : stmt) : stmt :=
  match nth_error (all_whiles s) k with Some (_, b) => b | None => SSkip end.

Definition for_body (s : stmt) : stmt := match first_for s with Some (_, b, _) => b | None => SSkip end.
Definition for_else (s : stmt) : stmt := match first_for s with Some (_, _, o) => o | None => SSkip end.
Definition for_targets (s : stmt) : list str :=
  match first_for s with Some (it, _, _) => iter_targets it | None => [] end.
Definition while_cond (s : stmt) : expr := match first_while s with Some (c, _) => c | None => EBool false end.
Definition while_body (s : stmt) : stmt := match first_while s with Some (_, b) => b | None => SSkip end.

(* ------------------------------------------------------------------------------------------- *)
(* Symbolic execution.  `mp_eval` unfolds expression evaluation and the environment operations
   (all on concrete syntax / concrete environment spines) and leaves integer arithmetic, the
   list-level primitives, the loop combinators and `exec` folded.  `mp_step` unfolds `exec` by one
   statement at a closed occurrence (never under a binder), so terms stay proportional to the
   program; a symbolic condition is then case-split by hand (`destruct ... eqn:`). *)

Ltac mp_eval :=
  cbv beta iota zeta delta
    [init_env env_names add_new mem_str assigned iter_targets init_vals mk_env
     e_snoc e_app e_len e_combine e_nat_eqb
     eval eval_test eval_iter truthy eval_bin eval_cmp obind option_map
     v_len v_index v_field v_endtime v_slice_to v_slice_from v_zeros v_int2 v_elems zi
     v_zeros2 v_full v_max_of v_argsort mergesort_name
     field_get field_all lookup update bind_all
     fname fparams fbody
     String.eqb Ascii.eqb Bool.eqb].

Ltac mp_eval_in H :=
  cbv beta iota zeta delta
    [init_env env_names add_new mem_str assigned iter_targets init_vals mk_env
     e_snoc e_app e_len e_combine e_nat_eqb
     eval eval_test eval_iter truthy eval_bin eval_cmp obind option_map
     v_len v_index v_field v_endtime v_slice_to v_slice_from v_zeros v_int2 v_elems zi
     v_zeros2 v_full v_max_of v_argsort mergesort_name
     field_get field_all lookup update bind_all
     fname fparams fbody
     String.eqb Ascii.eqb Bool.eqb] in H.

Ltac mp_step :=
  match goal with
  | |- context [exec ?f (SSeq ?a ?b) ?e] =>
      change (exec f (SSeq a b) e) with (match exec f a e with ONormal e' => exec f b e' | o => o end)
  | |- context [exec ?f SSkip ?e] => change (exec f SSkip e) with (ONormal e)
  | |- context [exec ?f SBreak ?e] => change (exec f SBreak e) with (OBreak e)
  | |- context [exec ?f SContinue ?e] => change (exec f SContinue e) with (OContinue e)
  | |- context [exec ?f (SRaise ?n) ?e] => change (exec f (SRaise n) e) with (ORaise n)
  | |- context [exec ?f (SReturn ?a) ?e] =>
      change (exec f (SReturn a) e) with (match eval a e with Some v => OReturn v | None => OStuck end)
  | |- context [exec ?f (SAssign ?x ?a) ?e] =>
      change (exec f (SAssign x a) e)
        with (match eval a e with Some v => ONormal (update e x v) | None => OStuck end)
  | |- context [exec ?f (SSetIndex ?x ?i ?a) ?e] =>
      change (exec f (SSetIndex x i a) e)
        with (match lookup e x, eval i e, eval a e with
              | Some (VInts zs), Some (VInt k), Some (VInt v) =>
                  match set_idx zs k v with Some zs' => ONormal (update e x (VInts zs')) | None => OStuck end
              | _, _, _ => OStuck
              end)
  | |- context [exec ?f (SSetIndex2 ?x ?i ?j ?a) ?e] =>
      change (exec f (SSetIndex2 x i j a) e)
        with (match lookup e x, eval i e, eval j e, eval a e with
              | Some (VMat m), Some (VInt ki), Some (VInt kj), Some (VInt v) =>
                  match set_idx2 m ki kj v with Some m' => ONormal (update e x (VMat m')) | None => OStuck end
              | _, _, _, _ => OStuck
              end)
  | |- context [exec ?f (SIf ?c ?a ?b) ?e] =>
      change (exec f (SIf c a b) e)
        with (match eval_test c e with
              | Some true => exec f a e
              | Some false => exec f b e
              | None => OStuck
              end)
  | |- context [exec ?f (SFor ?it ?b ?o) ?e] =>
      change (exec f (SFor it b o) e)
        with (match eval_iter it e with
              | None => OStuck
              | Some els =>
                  match iter_list (exec f b) els e with
                  | ONormal e' => exec f o e'
                  | OBreak e' => ONormal e'
                  | OContinue _ => OStuck
                  | o' => o'
                  end
              end)
  | |- context [exec ?f (SWhile ?c ?b) ?e] =>
      change (exec f (SWhile c b) e) with (iter_while f c (exec f b) e)
  end; mp_eval; cbn [negb rec_get String.eqb Ascii.eqb Bool.eqb].

Ltac mp_steps := repeat mp_step.

(* ------------------------------------------------------------------------------------------- *)
(* Facts about the list-level primitives *)

Lemma len_z_nil {A} : len_z (@nil A) = 0.
Proof. reflexivity. Qed.

Lemma len_z_cons {A} (x : A) l : len_z (x :: l) = 1 + len_z l.
Proof. unfold len_z. cbn [length]. lia. Qed.

Lemma len_z_nonneg {A} (l : list A) : 0 <= len_z l.
Proof. unfold len_z. lia. Qed.

Lemma enum_binds_nil i d k : enum_binds i d k [] = [].
Proof. reflexivity. Qed.

Lemma enum_binds_cons i d k v r : enum_binds i d k (v :: r) = [(i, zi k); (d, v)] :: enum_binds i d (S k) r.
Proof. reflexivity. Qed.

Lemma range_binds_0 i k : range_binds i k 0 = [].
Proof. reflexivity. Qed.

Lemma range_binds_S i k n : range_binds i k (S n) = [(i, zi k)] :: range_binds i (S k) n.
Proof. reflexivity. Qed.

Lemma zip_binds_nil_l i x y k lb : zip_binds i x y k [] lb = [].
Proof. reflexivity. Qed.

Lemma zip_binds_nil_r i x y k la : zip_binds i x y k la [] = [].
Proof. destruct la; reflexivity. Qed.

Lemma zip_binds_cons i x y k a la b lb :
  zip_binds i x y k (a :: la) (b :: lb) = [(i, zi k); (x, a); (y, b)] :: zip_binds i x y (S k) la lb.
Proof. reflexivity. Qed.

Lemma idx_0 {A} (x : A) l : idx (x :: l) 0 = Some x.
Proof.
  unfold idx, norm_index. cbn [length].
  replace ((0 <=? 0) && (0 <? Z.of_nat (S (length l)))) with true by lia. reflexivity.
Qed.

Lemma idx_nat {A} (l : list A) k : (k < length l)%nat -> idx l (Z.of_nat k) = nth_error l k.
Proof.
  intros H. unfold idx, norm_index.
  replace ((0 <=? Z.of_nat k) && (Z.of_nat k <? Z.of_nat (length l))) with true by lia.
  rewrite Nat2Z.id. reflexivity.
Qed.

Lemma idx_nat_nth {A} (l : list A) k d : (k < length l)%nat -> idx l (Z.of_nat k) = Some (nth k l d).
Proof. intros H. rewrite idx_nat by exact H. apply nth_error_nth'. exact H. Qed.

Lemma idx_app_mid {A} (l1 l2 : list A) x : idx (l1 ++ x :: l2) (Z.of_nat (length l1)) = Some x.
Proof.
  rewrite idx_nat by (rewrite app_length; cbn [length]; lia).
  rewrite nth_error_app2 by lia. rewrite Nat.sub_diag. reflexivity.
Qed.

Lemma slice_to_nat {A} (l : list A) k : slice_to l (Z.of_nat k) = firstn k l.
Proof. unfold slice_to, slice_bound. replace (Z.of_nat k <? 0) with false by lia. rewrite Nat2Z.id. reflexivity. Qed.

Lemma slice_from_nat {A} (l : list A) k : slice_from l (Z.of_nat k) = skipn k l.
Proof. unfold slice_from, slice_bound. replace (Z.of_nat k <? 0) with false by lia. rewrite Nat2Z.id. reflexivity. Qed.

Lemma slice_to_0 {A} (l : list A) : slice_to l 0 = [].
Proof. exact (slice_to_nat l 0). Qed.

Lemma slice_from_0 {A} (l : list A) : slice_from l 0 = l.
Proof. exact (slice_from_nat l 0). Qed.

Lemma slice_from_1 {A} (x : A) l : slice_from (x :: l) 1 = l.
Proof. exact (slice_from_nat (x :: l) 1). Qed.

(* a[:-1] drops the last element *)
Lemma slice_to_m1 {A} (l : list A) : slice_to l (-1) = removelast l.
Proof.
  unfold slice_to, slice_bound. cbn [Z.ltb Z.compare].
  replace (Z.to_nat (Z.of_nat (length l) + -1)) with (pred (length l)) by lia.
  symmetry. apply removelast_firstn_len.
Qed.

Lemma set_nth_app_mid {A} (l1 l2 : list A) x v : set_nth (l1 ++ x :: l2) (length l1) v = Some (l1 ++ v :: l2).
Proof. induction l1 as [|y l1 IH]; cbn [app length set_nth]; [reflexivity|]. rewrite IH. reflexivity. Qed.

Lemma set_idx_app_mid {A} (l1 l2 : list A) x v :
  set_idx (l1 ++ x :: l2) (Z.of_nat (length l1)) v = Some (l1 ++ v :: l2).
Proof.
  unfold set_idx, norm_index.
  replace ((0 <=? Z.of_nat (length l1)) && (Z.of_nat (length l1) <? Z.of_nat (length (l1 ++ x :: l2)))) with true
    by (rewrite app_length; cbn [length]; lia).
  rewrite Nat2Z.id. apply set_nth_app_mid.
Qed.

Lemma zeros_nat k : zeros (Z.of_nat k) = Some (repeat 0 k).
Proof. unfold zeros. replace (Z.of_nat k <? 0) with false by lia. rewrite Nat2Z.id. reflexivity. Qed.

Lemma enum_from_map {A B} (f : A -> B) k l :
  enum_from k (map f l) = map (fun kv => (fst kv, f (snd kv))) (enum_from k l).
Proof. revert k; induction l as [|x l IH]; intros k; cbn [map enum_from fst snd]; [reflexivity|]. rewrite IH. reflexivity. Qed.

(* the equations of the two loop combinators, for rewriting *)
Lemma iter_list_nil step e : iter_list step [] e = ONormal e.
Proof. reflexivity. Qed.

Lemma iter_list_cons step b rest e :
  iter_list step (b :: rest) e =
  match step (bind_all e b) with
  | ONormal e' | OContinue e' => iter_list step rest e'
  | o => o
  end.
Proof. reflexivity. Qed.

Lemma iter_while_S n c step e :
  iter_while (S n) c step e =
  match eval_test c e with
  | None => OStuck
  | Some false => ONormal e
  | Some true =>
      match step e with
      | ONormal e' | OContinue e' => iter_while n c step e'
      | OBreak e' => ONormal e'
      | o => o
      end
  end.
Proof. reflexivity. Qed.

Lemma len_z_map {A B} (f : A -> B) l : len_z (map f l) = len_z l.
Proof. unfold len_z. rewrite map_length. reflexivity. Qed.

Lemma len_z_app {A} (l1 l2 : list A) : len_z (l1 ++ l2) = len_z l1 + len_z l2.
Proof. unfold len_z. rewrite app_length. lia. Qed.

Lemma idx_map_app_mid {A B} (f : A -> B) l1 x l2 :
  idx (map f (l1 ++ x :: l2)) (Z.of_nat (length l1)) = Some (f x).
Proof.
  rewrite map_app. cbn [map]. rewrite <- (map_length f l1). apply idx_app_mid.
Qed.

Lemma map_const_repeat {A B} (b : B) (l : list A) : map (fun _ => b) l = repeat b (length l).
Proof. induction l as [|x l IH]; cbn [map length repeat]; [reflexivity|]. rewrite IH. reflexivity. Qed.

Lemma in_binds_nil i : in_binds i [] = [].
Proof. reflexivity. Qed.

Lemma in_binds_cons i v r : in_binds i (v :: r) = [(i, v)] :: in_binds i r.
Proof. reflexivity. Qed.

Lemma full_nat k c : full (Z.of_nat k) c = Some (repeat c k).
Proof. unfold full. replace (Z.of_nat k <? 0) with false by lia. rewrite Nat2Z.id. reflexivity. Qed.

Lemma zeros2_nat n m : zeros2 (Z.of_nat n) (Z.of_nat m) = Some (repeat (repeat 0 m) n).
Proof.
  unfold zeros2. replace ((Z.of_nat n <? 0) || (Z.of_nat m <? 0)) with false by lia.
  rewrite !Nat2Z.id. reflexivity.
Qed.

Lemma set_idx2_app_mid (m1 m2 : list (list Z)) r1 x r2 v :
  set_idx2 (m1 ++ (r1 ++ x :: r2) :: m2) (Z.of_nat (length m1)) (Z.of_nat (length r1)) v
  = Some (m1 ++ (r1 ++ v :: r2) :: m2).
Proof. unfold set_idx2. rewrite idx_app_mid, set_idx_app_mid, set_idx_app_mid. reflexivity. Qed.

Lemma idx_nth_error {A} (l : list A) k x : nth_error l k = Some x -> idx l (Z.of_nat k) = Some x.
Proof.
  intros H. rewrite idx_nat; [exact H|]. apply nth_error_Some. rewrite H. discriminate.
Qed.
