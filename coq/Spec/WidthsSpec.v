(* Defining formulas of compute_widths / compute_center_time (strax/processing/peak_properties.py). *)
From SV Require Export Model.Widths Spec.PeakPropsSpec.
Open Scope Z_scope.

(* the m-th of the 2K - 1 area fractions of compute_widths: m / (2 (K - 1)) *)
Definition wfrac (K : nat) (m : Z) : Q := (m # Pos.of_nat (2 * (K - 1)))%Q.

(* area-fraction time (in samples) of the m-th fraction: the position at which the cumulative area
   first reaches it (iof1 of Spec/PeakPropsSpec.v); the time of the last fraction (1) is the peak length *)
Definition aft (K : nat) (A : Q) (len : Z) (data : list Q) (m : Z) : Q :=
  if m =? 2 * Z.of_nat K - 2 then inject_Z len else qdflt (iof1 A data 0 0%Q (wfrac K m)).

(* median_time = T(1/2); width[k] = T(1/2 + k/(2(K-1))) - T(1/2 - k/(2(K-1)));
   area_decile_from_midpoint[k] = T(k/(K-1)) - T(1/2), in ns *)
Definition widths_spec (K : nat) (A : Q) (len dt : Z) (data : list Q) : Q * list Q * list Q :=
  let T m := (aft K A len data m * inject_Z dt)%Q in
  let c := Z.of_nat K - 1 in
  (T c, map (fun k => (T (c + k)%Z - T (c - k)%Z)%Q) (zseqn 0 K),
   map (fun k => (T (2 * k)%Z - T c)%Q) (zseqn 0 K)).

(* area left of the (fractional) sample position t: whole samples before floor(t) plus the
   fraction t - floor(t) of the sample floor(t) *)
Fixpoint cum_at (data : list Q) (t : Q) : Q :=
  match data with
  | [] => 0%Q
  | x :: d => if Qle_bool 1 t then (x + cum_at d (t - 1))%Q else if Qle_bool t 0 then 0%Q else (t * x)%Q
  end.

(* center time: time + floor(dt * (mean sample index + 1/2)), mean index = sum(i x_i) / sum(x_i) *)
Definition center_spec (time dt : Z) (data : list Z) : Z :=
  time + dt * (2 * wsum 0 data + zsum data) / (2 * zsum data).
