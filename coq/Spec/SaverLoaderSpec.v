(* Abstract notions used by the C03 theorems: streams of chunks, their rows, range, boundaries;
   what it means for a stored chunk entry to agree with a chunk and its file; and the statement
   about the rechunker (proved for property C07) that the C03 theorems take as a premise. *)
From SV Require Import Model.Chunk Model.Rechunker Model.SaverLoader.

(* each chunk starts where the previous one ended *)
Fixpoint contiguous (cs : list chunk) : Prop :=
  match cs with
  | [] => True
  | c :: rest => match rest with [] => True | d :: _ => cend c = cstart d end /\ contiguous rest
  end.

Definition all_rows (cs : list chunk) : list row := flat_map crows cs.

Definition first_start (cs : list chunk) : option Z :=
  match cs with [] => None | c :: _ => Some (cstart c) end.
Definition final_end (cs : list chunk) : option Z :=
  match cs with [] => None | c :: _ => Some (cend (last cs c)) end.

(* the (start, end) pairs of the chunks, and the set of cut points *)
Definition bounds (cs : list chunk) : list (Z * Z) := map (fun c => (cstart c, cend c)) cs.
Definition cut_points (cs : list chunk) : list Z :=
  match cs with [] => [] | c :: _ => cstart c :: map cend cs end.

(* x lies strictly inside a row-free gap: no row contains or touches x *)
Definition row_free_at (rows : list row) (x : Z) : Prop := Forall (fun r => re r < x \/ x < rt r) rows.

(* same rows, range and run id (data type, kind and target size are stamped by the loader) *)
Definition same_data (c d : chunk) : Prop :=
  cstart d = cstart c /\ cend d = cend c /\ crows d = crows c /\ crun d = crun c.

(* a contiguous well-formed stream of one run and data type *)
Definition stream_ok (run dt : Z) (cs : list chunk) : Prop :=
  cs <> [] /\ Forall wf cs /\ contiguous cs /\ Forall (fun c => crun c = Some run /\ cdtype c = dt) cs.

(* C07's rechunk_stream_correct, as used here *)
Definition rechunk_spec : Prop :=
  forall run dt cs,
    stream_ok run dt cs -> Forall (fun c => 0 < ctarget c) cs ->
    exists cs',
      rechunk_stream cs = Ok cs' /\ cs' <> [] /\ Forall wf cs' /\ contiguous cs' /\
      Forall (fun c => crun c = Some run) cs' /\
      all_rows cs' = all_rows cs /\ first_start cs' = first_start cs /\ final_end cs' = final_end cs /\
      (forall x, In x (cut_points cs') -> In x (cut_points cs) \/ row_free_at (all_rows cs) x).

Definition first_row (rows : list row) : option row := hd_error rows.
Definition last_row (rows : list row) : option row :=
  match rows with [] => None | r0 :: _ => Some (last rows r0) end.

Section Agreement.
  Variable blob : Type.
  Variable encode : Z -> list row -> blob.
  Variable bsize : blob -> Z.

  (* chunk entry ci (number i) of the metadata agrees with chunk c and with the files on disk *)
  Definition info_agrees (itemsize comp : Z) (files : list (Z * blob)) (i : Z) (c : chunk) (ci : chunk_info) : Prop :=
    ci_i ci = i /\
    ci_n ci = Z.of_nat (length (crows c)) /\
    ci_nbytes ci = Z.of_nat (length (crows c)) * itemsize /\
    ci_start ci = Some (cstart c) /\ ci_end ci = Some (cend c) /\ ci_run ci = crun c /\
    ci_first_time ci = opt_map rt (first_row (crows c)) /\
    ci_first_endtime ci = opt_map re (first_row (crows c)) /\
    ci_last_time ci = opt_map rt (last_row (crows c)) /\
    ci_last_endtime ci = opt_map re (last_row (crows c)) /\
    match crows c with
    | [] => ci_filename ci = None /\ ci_filesize ci = None /\ lookup i files = None
    | rows => ci_filename ci = Some i /\ lookup i files = Some (encode comp rows) /\
              (ci_filesize ci = None \/ ci_filesize ci = Some (bsize (encode comp rows)))
    end.

  (* entries numbered from i on agree with the chunks *)
  Fixpoint infos_agree (itemsize comp : Z) (files : list (Z * blob)) (i : Z) (cs : list chunk) (l : list chunk_info) : Prop :=
    match cs, l with
    | [], [] => True
    | c :: cs', ci :: l' => info_agrees itemsize comp files i c ci /\ infos_agree itemsize comp files (i + 1) cs' l'
    | _, _ => False
    end.
End Agreement.
