(* C11 — declarative specification of the planner: what is needed, what may be created, what the
   save policies dictate, what "one origin per topic" means. *)
From SV Require Export Model.Planner.

Section Spec.
  Variables (g : graph) (cx : context) (rq : request).

  Definition stored (d : dt) : Prop := loadable (c_fes cx) d = true.
  Definition unstored (d : dt) : Prop := loadable (c_fes cx) d = false.

  (* the least set containing the targets and the dependencies of every needed unstored type *)
  Inductive needed : dt -> Prop :=
  | needed_target d : In d (r_targets rq) -> needed d
  | needed_dep d j p d' :
      needed d -> unstored d -> plugin_of g d = Some (j, p) -> In d' (p_deps p) -> needed d'.

  (* the same as a reachability relation from one starting point *)
  Inductive reach (a : dt) : dt -> Prop :=
  | reach_refl : reach a a
  | reach_step b j p c :
      reach a b -> unstored b -> plugin_of g b = Some (j, p) -> In c (p_deps p) -> reach a c.

  (* a type that may not be created: forbidden by the context, or saved above EXPLICIT (TARGET / ALWAYS)
     while a time range is requested *)
  Definition may_not_create (d : dt) : Prop :=
    exists j p, plugin_of g d = Some (j, p) /\ blocked cx rq p d = true.

  (* the save-policy table of the property statement *)
  Definition policy_admits (sw : Z) (is_target in_save : bool) : bool :=
    if sw =? SAVEWHEN_ALWAYS then true
    else if sw =? SAVEWHEN_TARGET then is_target
    else if sw =? SAVEWHEN_EXPLICIT then in_save
    else if sw =? SAVEWHEN_NEVER then false
    else true.   (* not a SaveWhen value; the code saves *)
  Definition policy_conflict (sw : Z) (in_save : bool) : bool := (sw =? SAVEWHEN_NEVER) && in_save.

  Definition admits (p : plugin) (d : dt) : bool :=
    policy_admits (sw_of p d) (mem d (r_targets rq)) (mem d (r_save rq)).
  Definition conflict (p : plugin) (d : dt) : bool :=
    policy_conflict (sw_of p d) (mem d (r_save rq)).

  (* the saving loop of a running, non-temporary plugin is entered through a visited output x *)
  Definition save_loop_entered (p : plugin) (x : dt) : Prop :=
    p_temp p = false /\ partial_request cx rq = false /\ (admits p x = true \/ multi_output p = true).

  (* a NEVER-saved type listed in save= is about to be computed *)
  Definition never_saved_requested : Prop :=
    exists x j p, needed x /\ unstored x /\ plugin_of g x = Some (j, p) /\ p_temp p = false /\
      (conflict p x = true \/
       (save_loop_entered p x /\ exists d2, In d2 (p_prov p) /\ unstored d2 /\ conflict p d2 = true)).

  Definition creation_refused : Prop := exists x, needed x /\ unstored x /\ may_not_create x.

  (* what the policies dictate: (d2, fl) must be saved into the frontends fl *)
  Definition dictated_saver (d2 : dt) (fl : list nat) : Prop :=
    exists x j p, needed x /\ unstored x /\ plugin_of g x = Some (j, p) /\ save_loop_entered p x /\
      In d2 (p_prov p) /\ unstored d2 /\ admits p d2 = true /\
      fl = saver_frontends (c_fes cx) d2 /\ fl <> [].
End Spec.

(* one origin per topic *)
Definition expected_origin (g : graph) (c : components) (t : dt) : option origin :=
  if mem t (k_loaders c) then Some (OLoader t)
  else match plugin_of g t with Some (j, _) => Some (OPlugin j) | None => None end.

Definition one_origin (g : graph) (c : components) (w : wiring) : Prop :=
  NoDup (map fst w) /\
  (forall t o, In (t, o) w -> expected_origin g c t = Some o) /\
  (forall t, In t (consumed g c) -> exists o, In (t, o) w).

(* graphs *)
Definition wf_graph (g : graph) : Prop := wf_graphb g = true.
