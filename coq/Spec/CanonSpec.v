(* C02 — what "the same option value" means: equality of JSON-like values up to the insertion order
   of dicts at any depth and up to tuple-versus-list (both are JSON arrays).  Executable. *)
From SV Require Import Base.Prelude Model.Canon.

Fixpoint veqb (v1 v2 : value) : bool :=
  match v1 with
  | VInt a => match v2 with VInt b => a =? b | _ => false end
  | VStr a => match v2 with VStr b => a =? b | _ => false end
  | VList l1 | VTuple l1 =>
      match v2 with
      | VList l2 | VTuple l2 =>
          (fix go (l1 l2 : list value) : bool :=
             match l1, l2 with
             | [], [] => true
             | x :: r1, y :: r2 => veqb x y && go r1 r2
             | _, _ => false
             end) l1 l2
      | _ => false
      end
  | VDict d1 =>
      match v2 with
      | VDict d2 =>
          (fix go (d : list (Z * value)) : bool :=
             match d with
             | [] => true
             | (k, x) :: r =>
                 match lookup k d2 with
                 | Some y => veqb x y && go r
                 | None => false
                 end
             end) d1
          && forallb (fun kv => has_key (fst kv) d1) d2
      | _ => false
      end
  end.

(* a list or tuple that looks like one item of a hashablized dict: [str, anything] *)
Definition pair_shaped (v : value) : bool :=
  match v with
  | VList [VStr _; _] | VTuple [VStr _; _] => true
  | _ => false
  end.

(* the domain on which the canonical string determines the value: dict keys are unique, dicts are
   not empty, and no list/tuple has an element of the shape [str, x].  (Outside it hashablize
   identifies {k: v} with [[k, v]] and {} with [].) *)
Fixpoint dom (v : value) : Prop :=
  match v with
  | VInt _ | VStr _ => True
  | VList l | VTuple l =>
      (fix go (l : list value) : Prop :=
         match l with
         | [] => True
         | x :: r => (pair_shaped x = false /\ dom x) /\ go r
         end) l
  | VDict d =>
      d <> [] /\ NoDup (keys d) /\
      (fix go (d : list (Z * value)) : Prop :=
         match d with
         | [] => True
         | kv :: r => dom (snd kv) /\ go r
         end) d
  end.
