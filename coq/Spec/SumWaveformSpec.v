(* Per-sample definition of the sum waveform (strax/processing/peak_building.py::sum_waveform):
   what one hit contributes to one sample of the peak. *)
From SV Require Export Model.SumWaveform.
Open Scope Z_scope.

Section SWSpec.
Variable gains : list Z.
Variable recs : list swrec.
Variable prev_i next_i : list Z.
Variable nsr dt : Z.
Variable lmax : nat.

(* the hit's waveform: its own record's samples, completed from the previous / next fragment *)
Definition hit_wave (h : swhit) : res (list Z) :=
  let ri := sh_rec h in
  do hw1 <- build_hit_waveform h (recn recs ri) (repeat 0 lmax);
  do hw2 <- (if (sh_li h <? 0) && negb (zgetd prev_i ri (-1) =? -1)
             then build_hit_waveform h (recn recs (zgetd prev_i ri (-1))) hw1 else Ok hw1);
  (if (sh_ri h >? nsr) && negb (zgetd next_i ri (-1) =? -1)
   then build_hit_waveform h (recn recs (zgetd next_i ri (-1))) hw2 else Ok hw2).

(* peak sample k is the absolute sample p_t/dt + k, i.e. sample j = k - (h_t/dt - p_t/dt) of the
   hit; inside the hit it receives that sample of the hit waveform times the channel's gain *)
Definition hit_contrib (p_t : Z) (h : swhit) (w : list Z) (k : Z) : Z :=
  let j := k - (sh_t h / dt - p_t / dt) in
  if (0 <=? j) && (j <? sh_len h) then zget w j * zget gains (sh_ch h) else 0.

(* area of the hit inside the peak *)
Definition hit_area_in (p_t p_len : Z) (h : swhit) (w : list Z) : Z :=
  zsum (map (hit_contrib p_t h w) (zseqn 0 (Z.to_nat p_len))).

(* the hits the scan adds: those not ending before the peak (skipped), up to the first one that
   starts after the peak (the scan stops there) *)
Fixpoint sw_used (p_t p_len : Z) (hs : list swhit) : list swhit :=
  match hs with
  | [] => []
  | h :: r =>
      let shift := (p_t - sh_t h) / dt in
      if shift <=? - p_len then []
      else if sh_len h <=? shift then sw_used p_t p_len r
      else h :: sw_used p_t p_len r
  end.
End SWSpec.
