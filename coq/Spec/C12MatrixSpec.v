(* C12 — the domain of the violation matrix: which violation kind applies to which plugin kind,
   the variants of each cell, the shapes of the runs.  Mirrors harness/props/c12_impl.py
   (APPLICABLE, variants) and harness/props/c12.py (matrix_cells). *)
From SV Require Import Model.PluginKinds Model.C12Harness.

Definition all_kinds : list pkind := [KSource; KOrdinary; KMulti; KDown; KLoop; KCut; KOverlap].

Definition applicable_vks (k : pkind) : list Z :=
  match k with
  | KSource   => [VK_DTYPE_BARE; VK_DTYPE_CHUNK; VK_DTYPE_RAW; VK_ROWS_EARLY; VK_ROWS_LATE; VK_LABEL; VK_GAP; VK_OVERLAP]
  | KOrdinary => [VK_DTYPE_BARE; VK_DTYPE_CHUNK; VK_DTYPE_RAW; VK_ROWS_EARLY; VK_ROWS_LATE; VK_LABEL; VK_GAP; VK_OVERLAP;
                  VK_UNKNOWN_FIELD; VK_NON_ARRAY]
  | KMulti    => [VK_DTYPE_BARE; VK_DTYPE_CHUNK; VK_DTYPE_RAW; VK_ROWS_EARLY; VK_ROWS_LATE; VK_LABEL; VK_GAP; VK_OVERLAP;
                  VK_NON_DICT; VK_MISSING_KEY]
  | KDown     => [VK_DTYPE_BARE; VK_DTYPE_CHUNK; VK_DTYPE_RAW; VK_ROWS_EARLY; VK_ROWS_LATE; VK_LABEL; VK_GAP; VK_OVERLAP;
                  VK_NON_GENERATOR; VK_NON_CHUNK]
  | KLoop     => [VK_ROWS_EARLY; VK_ROWS_LATE; VK_NON_DICT; VK_UNKNOWN_FIELD]
  | KCut      => [VK_CUT_SHAPE]
  | KOverlap  => [VK_DTYPE_BARE; VK_DTYPE_CHUNK; VK_DTYPE_RAW; VK_ROWS_EARLY; VK_ROWS_LATE; VK_LABEL;
                  VK_UNKNOWN_FIELD; VK_NON_ARRAY]
  end.

(* dtype variants: extra / missing / renamed / retyped / reordered field *)
Definition dvs (vk : Z) : list Z := if is_dtype_vk vk then [0; 1; 2; 3; 4] else [0].

Definition ovs (k : pkind) (vk : Z) : list Z :=
  if (vk =? VK_ROWS_EARLY) || (vk =? VK_ROWS_LATE)
  then match k with KSource | KDown => [1] | KLoop => [0] | _ => [0; 1] end
  else if vk =? VK_NON_DICT then match k with KMulti => [0; 1] | _ => [0] end
  else if (vk =? VK_NON_GENERATOR) || (vk =? VK_NON_CHUNK) || (vk =? VK_NON_ARRAY) then [0; 1]
  else [0].

(* multi-output: the violation sits in the requested output tt (0) or in its sibling uu (1);
   gaps and overlaps concern the requested target only *)
Definition whichs (k : pkind) (vk : Z) : list Z :=
  match k with
  | KMulti => if (vk =? VK_NON_DICT) || (vk =? VK_MISSING_KEY) || (vk =? VK_GAP) || (vk =? VK_OVERLAP)
              then [0] else [0; 1]
  | _ => [0]
  end.

(* (number of source chunks, rows per source chunk) *)
Definition shapes : list (nat * nat) := [(1, 3); (2, 3); (3, 3); (4, 2)]%nat.

(* a gap or an overlap needs a neighbour *)
Definition shape_ok (vk : Z) (n : nat) : bool :=
  negb ((n =? 1)%nat && ((vk =? VK_GAP) || (vk =? VK_OVERLAP))).

Definition bools : list bool := [true; false].

Definition cells_of (k : pkind) (vk : Z) : list cell :=
  flat_map (fun dv => flat_map (fun w => flat_map (fun ov => flat_map (fun nr : nat * nat =>
    if shape_ok vk (fst nr) then
      flat_map (fun pos => flat_map (fun rechunk => map (fun ga =>
        mkcell k vk dv w ov pos (fst nr) (snd nr) rechunk ga) bools) bools) (seq 0 (fst nr))
    else []) shapes) (ovs k vk)) (whichs k vk)) (dvs vk).

Definition matrix_domain : list cell :=
  flat_map (fun k => flat_map (fun vk => cells_of k vk) (applicable_vks k)) all_kinds.

(* The cells in which the current code lets the violation through (findings F1, F2):
   a chunk built by the raw constructor around data of another dtype, for every plugin kind that
   can return chunks; a mislabelled chunk from a down-chunking plugin. *)
Definition is_escape_gen (fx : bool) (k : pkind) (vk : Z) : bool :=
  negb fx && ((vk =? VK_DTYPE_RAW) || ((vk =? VK_LABEL) && match k with KDown => true | _ => false end)).

(* for the code /repo currently carries: no cell escapes once REPAIRED_F1F2 = true *)
Definition is_escape := is_escape_gen REPAIRED_F1F2.

Definition good_domain : list cell :=
  flat_map (fun k => flat_map (fun nr : nat * nat => flat_map (fun rechunk => map (fun ga =>
    mkcell k VK_GOOD 0 0 0 0 (fst nr) (snd nr) rechunk ga) bools) bools) shapes) all_kinds.
