(* Specification vocabulary for the single-thread PostOffice theorems (property C06).
   Definitions only; the theorems are in Proof/PostOfficeProof.v. *)
From SV Require Export Model.PostOffice.

(* strax builds `iters` as a dict keyed by dependency name, so a stage never lists a dependency twice.
   (With a repeated dependency the two reader generators would share one reader name and PostOffice's
   own `assert self._last_msg_read[topic][reader] == msg_number - 1` fails.) *)
Definition nodup_deps (g : list node) : Prop :=
  forall t deps, nth_error g t = Some (Stage deps) -> NoDup deps.

(* the whole-run message sequence of topic t (fuel S (length g) is enough for every topic of a wf graph) *)
Definition whole_of (g : list node) (comb : nat -> list Z -> Z) (t : nat) : list Z :=
  whole g comb (S (length g)) t.

(* no stage of g reads topic t (then FINAL is the only reader of t) *)
Definition no_consumers (g : list node) (t : nat) : Prop :=
  forall i deps, nth_error g i = Some (Stage deps) -> ~ In t deps.

(* one whole run of the single-thread processor: register the readers, then drain FINAL *)
Definition po_run (g : list node) (comb : nat -> list Z -> Z) (fault : option (nat * nat))
           (target : nat) (spies : list bool) (steps fuel : nat) : state * res (list Z) :=
  drain g comb fault steps fuel (init g target spies) target [].

(* hypotheses of all theorems: a well-formed graph, a target in it, one spy flag per topic, and enough
   fuel (recursion depth: more than the target's index, e.g. any fuel > length g) and enough steps
   (more than the length of the result) — with these OutOfFuel / Err 99 cannot happen *)
Definition po_hyps (g : list node) (comb : nat -> list Z -> Z) (target : nat) (spies : list bool)
           (steps fuel : nat) : Prop :=
  wf_graph g /\ nodup_deps g /\ (target < length g)%nat /\ length spies = length g /\
  (target < fuel)%nat /\ (length (whole_of g comb target) < steps)%nat.

(* the saver spy of topic t in state st: it has received exactly the messages produced so far; an
   exhausted topic has produced its whole sequence; close() was called exactly once if the topic was
   declared exhausted and not at all otherwise *)
Definition spy_ok (g : list node) (comb : nat -> list Z -> Z) (spies : list bool) (st : state) (t : nat) : Prop :=
  let ts := get st t in
  has_spy ts = nth t spies false /\
  last_prod ts = Z.of_nat (ppos ts) - 1 /\
  (ppos ts <= length (whole_of g comb t))%nat /\
  spy_log ts = (if nth t spies false then firstn (ppos ts) (whole_of g comb t) else []) /\
  (exhausted ts = true -> ppos ts = length (whole_of g comb t)) /\
  spy_closed ts = (if nth t spies false && exhausted ts then 1%nat else 0%nat).

(* every stage has exactly one dependency *)
Definition chain_graph (g : list node) : Prop :=
  forall t deps, nth_error g t = Some (Stage deps) -> exists d, deps = [d].

(* upstream g t u: u is t or one of the topics t is (transitively) computed from *)
Inductive upstream (g : list node) : nat -> nat -> Prop :=
| up_refl t : upstream g t t
| up_step t deps d u : nth_error g t = Some (Stage deps) -> In d deps -> upstream g d u -> upstream g t u.

(* position fp of topic ft exists: message number fp, or for a source also "at the end" *)
Definition fault_in_range (g : list node) (comb : nat -> list Z -> Z) (ft fp : nat) : Prop :=
  (fp < length (whole_of g comb ft))%nat \/
  (exists msgs, nth_error g ft = Some (Src msgs) /\ fp = length msgs).

(* producer ft got to position fp in (the final state of) a run: it emitted message number fp, or - a
   source only - it was asked for one more message when it had emitted exactly fp and ended *)
Definition requested (g : list node) (st : state) (ft fp : nat) : Prop :=
  (fp < ppos (get st ft))%nat \/
  (fp = ppos (get st ft) /\ pdead (get st ft) = true /\ exists msgs, nth_error g ft = Some (Src msgs)).

(* the injected failure actually happened: the faulty producer died at exactly that position and
   its topic was not declared exhausted *)
Definition fired (fault : option (nat * nat)) (st : state) : Prop :=
  exists ft fp, fault = Some (ft, fp) /\ ppos (get st ft) = fp /\
                pdead (get st ft) = true /\ exhausted (get st ft) = false.
