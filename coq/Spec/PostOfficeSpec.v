(* Specification vocabulary for the single-thread PostOffice theorems (property C06).
   Definitions only; the theorems are in Proof/PostOfficeProof.v. *)
From SV Require Export Model.PostOffice.

(* strax builds `iters` as a dict keyed by dependency name, so a stage never lists a dependency twice.
   (With a repeated dependency the two reader generators would share one reader name and PostOffice's
   own `assert self._last_msg_read[topic][reader] == msg_number - 1` fails.) *)
Definition nodup_deps (g : list node) : Prop :=
  forall t deps, nth_error g t = Some (Stage deps) -> NoDup deps.

(* the whole-run message sequence of topic t (fuel S (length g) is enough for every topic of a wf graph) *)
Definition whole_of (g : list node) (comb : nat -> list Z -> Z) (t : nat) : list Z :=
  whole g comb (S (length g)) t.

(* no stage of g reads topic t (then FINAL is the only reader of t) *)
Definition no_consumers (g : list node) (t : nat) : Prop :=
  forall i deps, nth_error g i = Some (Stage deps) -> ~ In t deps.

(* the injected failure actually happened: the faulty producer died at exactly that position and
   its topic was not declared exhausted *)
Definition fired (fault : option (nat * nat)) (st : state) : Prop :=
  exists ft fp, fault = Some (ft, fp) /\ ppos (get st ft) = fp /\
                pdead (get st ft) = true /\ exhausted (get st ft) = false.
