(* What "window-local" means for the user computation of an overlap-window plugin (property C09).

   Inputs are disjoint, sorted, positive-length rows (dsp).  Cut the whole input R = L ++ I ++ T into
   three consecutive segments and run the computation on the middle segment I only.  Call an output
   row o *safe* when it is further than the margins (ml, mr) from every omitted input row:
        every q in L ends  before  rt o - ml,     every q in T starts after  re o + mr.
   f is window-local with margins (ml, mr) when, for every such cut,
     (agree)    the safe output rows of f I are exactly the safe output rows of f R, in order:
                no output row near the middle of the available data is lost, duplicated or computed
                from incomplete neighbours;
     (straddle) at every time x that is further than the margins from all omitted input, f I has an
                output row straddling x iff f R has one: the places where the output stream can be
                cut are the same;
   and its outputs are sorted, of positive length and lie inside any interval that holds the input.

   "One output per input row with the row's extent and a payload that depends only on the rows whose
   extent lies within (ml, mr) of it" and "one output per gap-separated group (gap <= ml, mr)" are
   proved to be window-local in Proof/WindowLocalProof.v. *)
From SV Require Export Model.Rows.

Definition pos_row (r : row) : Prop := 0 <= rt r /\ rt r < re r.

(* disjoint (end <= every later start), sorted, positive length, non-negative times *)
Fixpoint dsp (rs : list row) : Prop :=
  match rs with
  | [] => True
  | r :: rest => pos_row r /\ Forall (fun q => re r <= rt q) rest /\ dsp rest
  end.

Definition safeb (ml mr : Z) (L T : list row) (o : row) : bool :=
  forallb (fun q => re q + ml <? rt o) L && forallb (fun q => re o + mr <? rt q) T.

Definition pos_safe (ml mr : Z) (L T : list row) (x : Z) : Prop :=
  Forall (fun q => re q + ml < x) L /\ Forall (fun q => x + mr < rt q) T.

Definition straddled (O : list row) (x : Z) : Prop := Exists (fun o => straddles o x) O.

Record window_local (ml mr : Z) (f : list row -> list row) : Prop := mk_window_local {
  wl_sorted : forall I, dsp I -> sorted (f I);
  wl_pos : forall I, dsp I -> Forall (fun o => rt o < re o) (f I);
  wl_range : forall I lo hi, dsp I ->
      Forall (fun r => lo <= rt r /\ re r <= hi) I -> Forall (fun o => lo <= rt o /\ re o <= hi) (f I);
  wl_agree : forall L I T, dsp (L ++ I ++ T) ->
      filter (safeb ml mr L T) (f I) = filter (safeb ml mr L T) (f (L ++ I ++ T));
  wl_straddle : forall L I T x, dsp (L ++ I ++ T) -> pos_safe ml mr L T x ->
      (straddled (f I) x <-> straddled (f (L ++ I ++ T)) x)
}.

(* the payload of a per-row kernel may look at the rows q whose extent comes within (kl, kr) of r
   (closed: re q >= rt r - kl and rt q <= re r + kr) *)
Definition near_closed (kl kr : Z) (r q : row) : bool :=
  (rt r - kl <=? re q) && (rt q <=? re r + kr).

Definition payload_local (kl kr : Z) (h : row -> list row -> Z) : Prop :=
  forall r N N', filter (near_closed kl kr r) N = filter (near_closed kl kr r) N' -> h r N = h r N'.

(* several computations whose outputs can be cut at the same times (for instance: every output has
   one row per input row) *)
Definition same_cuts (fs : list (list row -> list row)) : Prop :=
  forall f1 f2 I x, In f1 fs -> In f2 fs -> dsp I -> (straddled (f1 I) x <-> straddled (f2 I) x).

(* weaker: of any two computations, one can be cut wherever the other can (e.g. a per-row output and a
   group former: every cut of the group output is a cut of the per-row output) *)
Definition nested_cuts (fs : list (list row -> list row)) : Prop :=
  forall f1 f2, In f1 fs -> In f2 fs ->
    (forall I x, dsp I -> straddled (f1 I) x -> straddled (f2 I) x) \/
    (forall I x, dsp I -> straddled (f2 I) x -> straddled (f1 I) x).
