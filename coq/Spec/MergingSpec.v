(* Specification of replace_merged: the result is the original list with every skip window
   replaced by its merged element, everything else untouched and in place. *)
From SV Require Export Model.Merging.

Section Spec.
Context {T : Type}.

(* orig[a:b] *)
Definition tslice (l : list T) (a b : Z) : list T :=
  firstn (Z.to_nat (b - a)) (skipn (Z.to_nat a) l).

(* orig[i:s1] ++ [m1] ++ orig[e1:s2] ++ [m2] ++ ... ++ orig[ek:] *)
Fixpoint rm_spec (orig : list T) (i : Z) (mw : list (T * Z * Z)) : list T :=
  match mw with
  | [] => tslice orig i (zlen orig)
  | (m, s, e) :: r => tslice orig i s ++ m :: rm_spec orig e r
  end.

Definition next_end_gt (e : Z) (r : list (T * Z * Z)) : Prop :=
  match r with [] => True | (_, _, e') :: _ => e < e' end.

(* windows inside [lo, n], each s <= e, consecutive windows do not overlap (e <= s') and their
   ends increase strictly (what touching_windows yields for disjoint merged peaks that each
   cover at least one original, or lie in distinct gaps) *)
Fixpoint wchain (n lo : Z) (mw : list (T * Z * Z)) : Prop :=
  match mw with
  | [] => True
  | (_, s, e) :: r => lo <= s /\ s <= e /\ e <= n /\ wchain n e r /\ next_end_gt e r
  end.
End Spec.
