(* Defining formulas of the waveform helpers (specification side). *)
From SV Require Export Model.PeakHelpers.

(* the samples a[lo], ..., a[hi-1] *)
Definition slice (a : list Z) (lo hi : Z) : list Z :=
  firstn (Z.to_nat (hi - lo)) (skipn (Z.to_nat lo) a).

Fixpoint zseq (i : Z) (k : nat) : list Z :=
  match k with O => [] | S k' => i :: zseq (i + 1) k' end.

(* windowed mean around sample i: the window is i-w .. i+w clipped to the array; the value is the
   exact fraction  (sum of the samples in the window) / (number of samples in the window). *)
Definition sma_window (a : list Z) (w i : Z) : Z * Z :=
  (Z.max 0 (i - w), Z.min (zlen a) (i + w + 1)).
Definition sma_spec_at (a : list Z) (w i : Z) : Z * Z :=
  let '(lo, hi) := sma_window a w i in (zsum (slice a lo hi), hi - lo).
Definition sma_spec (a : list Z) (w : Z) : list (Z * Z) :=
  map (sma_spec_at a w) (zseq 0 (length a)).
