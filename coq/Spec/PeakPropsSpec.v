(* Defining formula of compute_index_of_fraction. *)
From SV Require Export Model.PeakProps.

(* index at which the cumulative area fraction first reaches f: scan the samples, `seen` is the
   fraction of the area in the samples before i; inside the sample the position is linear
   (iof_value: i + A*(f - seen)/x, or i for an empty sample).  None: never reached. *)
Fixpoint iof1 (A : Q) (data : list Q) (i : Z) (seen f : Q) : option Q :=
  match data with
  | [] => None
  | x :: d =>
      if Qle_bool f (seen + x / A) then Some (iof_value A i x seen f)
      else iof1 A d (i + 1) (seen + x / A)%Q f
  end.

Definition is_none {X} (o : option X) : bool := match o with None => true | Some _ => false end.
Definition qdflt (o : option Q) : Q := match o with Some v => v | None => 0%Q end.

(* all fractions independently; unreached fractions give 0; and the documented special case:
   if the fraction the scan was waiting for when it stopped (the first unreached one, or the last
   one when all were reached) equals 1, the last entry is the peak length. *)
Definition iof_spec (A : Q) (len : Z) (data : list Q) (fs : list Q) : list Q :=
  let res := map (fun f => qdflt (iof1 A data 0 0%Q f)) fs in
  let needed := match find (fun f => is_none (iof1 A data 0 0%Q f)) fs with
                | Some f => f
                | None => last fs 0%Q
                end in
  if Qeq_bool needed 1 then set_last res (inject_Z len) else res.

Definition qsorted (fs : list Q) : Prop := ForallOrdPairs Qle fs.
