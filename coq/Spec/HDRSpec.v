(* Defining formulas of strax/processing/statistics.py::highest_density_region.
   data: integer samples; m2m: the indices ordered by decreasing sample value (the code's
   max_to_min).  "Cut" j = the j samples in front of m2m. *)
From SV Require Export Model.HDR.

Definition hdr_top (m2m : list Z) (j : Z) : list Z := firstn (Z.to_nat j) m2m.
Definition hdr_S (data m2m : list Z) (j : Z) : Z := zsum (map (zget data) (hdr_top m2m j)).
Definition hdr_low (data m2m : list Z) (upper : bool) (j : Z) : Z :=
  if upper then zget data (zget m2m j) else 0.
(* the fraction of the total the cut holds: above the next lower sample (only_upper_part) or above 0 *)
Definition hdr_seen (data m2m : list Z) (A : Z) (upper : bool) (j : Z) : Q :=
  (inject_Z (hdr_S data m2m j - j * hdr_low data m2m upper j) / inject_Z A)%Q.
Definition hdr_ivs (m2m : list Z) (bs j : Z) : option (list (Z * Z)) :=
  let ivs := runs (sort_z (hdr_top m2m j)) in
  if zlen ivs - 1 >=? bs then None else Some ivs.
Definition hdr_out_at (data m2m : list Z) (A : Z) (upper : bool) (bs j : Z) (fd : Q) : hdr_out :=
  let g := (fd / hdr_seen data m2m A upper j)%Q in
  mkho (hdr_ivs m2m bs j)
       ((1 - g) * inject_Z (hdr_S data m2m j) / inject_Z j + g * inject_Z (hdr_low data m2m upper j))%Q.

(* the first cut, among those the loop looks at (every j whose sample differs from the previous
   one: `lowest_sample_seen`), that holds the fraction *)
Fixpoint hdr_first (data m2m : list Z) (A : Z) (upper : bool) (js : list Z) (lowest : option Z) (f : Q)
  : option Z :=
  match js with
  | [] => None
  | j :: js' =>
      let v := zget data (zget m2m j) in
      if match lowest with Some l => l =? v | None => false end
      then hdr_first data m2m A upper js' lowest f
      else if Qle_bool f (hdr_seen data m2m A upper j) then Some j
           else hdr_first data m2m A upper js' (Some v) f
  end.

(* no cut holds the fraction: the whole array *)
Definition hdr_rest (data : list Z) (fd : Q) : hdr_out :=
  mkho (Some [(0, zlen data)]) ((1 - fd) * inject_Z (zsum data) / inject_Z (zlen data))%Q.

Definition hdr_res (data m2m : list Z) (A : Z) (upper : bool) (bs : Z) (js : list Z) (lowest : option Z)
           (f : Q) : option hdr_out :=
  match hdr_first data m2m A upper js lowest f with
  | Some j => Some (hdr_out_at data m2m A upper bs j f)
  | None => None
  end.

(* the result for one fraction *)
Definition hdr_one (data : list Z) (f : Q) (upper : bool) (bs : Z) : hdr_out :=
  match hdr_res data (rev (argsort data)) (zsum data) upper bs (zseqn 1 (length data - 1))
                (Some (zget data (zget (rev (argsort data)) 0))) f with
  | Some o => o
  | None => hdr_rest data f
  end.

(* area of the distribution above the height h, measured from h: the samples above h, minus h each *)
Definition above (h : Q) (d : Z) : bool := negb (Qle_bool (inject_Z d) h).
Definition hdr_area_above (data : list Z) (h : Q) : Q :=
  (inject_Z (zsum (filter (above h) data)) - inject_Z (zlen (filter (above h) data)) * h)%Q.

(* area and number of the samples at or above the level L *)
Definition level_area (data : list Z) (L : Z) : Z := zsum (filter (fun d => L <=? d) data).
Definition level_count (data : list Z) (L : Z) : Z := zlen (filter (fun d => L <=? d) data).

(* the largest sample occurs once *)
Definition top_unique (data : list Z) : Prop :=
  exists i, 0 <= i < zlen data /\ forall k, 0 <= k < zlen data -> k <> i -> zget data k < zget data i.

(* interval lists: i is covered; runs_ok: non-empty intervals in ascending order, consecutive ones
   separated by at least one index - so a list with a given union is the list of the maximal runs
   of that set *)
Definition covered (ivs : list (Z * Z)) (i : Z) : Prop := exists s e, In (s, e) ivs /\ s <= i < e.
Fixpoint runs_ok (prev : Z) (ivs : list (Z * Z)) : Prop :=
  match ivs with
  | [] => True
  | (s, e) :: r => prev < s /\ s < e /\ runs_ok e r
  end.
Definition hdr_intervals_are (o : hdr_out) (R : Z -> Prop) : Prop :=
  forall ivs, ho_iv o = Some ivs -> runs_ok (-1) ivs /\ forall i, covered ivs i <-> R i.

(* only_upper_part: the amplitude h is the height above which the distribution holds exactly the
   fraction f of the total; the intervals are the maximal runs of the samples above h *)
Definition hdr_upper_result (data : list Z) (f : Q) (o : hdr_out) : Prop :=
  let h := ho_amp o in
  (0 <= h)%Q /\ (hdr_area_above data h == f * inject_Z (zsum data))%Q /\
  hdr_intervals_are o (fun i => 0 <= i < zlen data /\ (h < inject_Z (zget data i))%Q).

(* without only_upper_part: the intervals are the maximal runs of the upper level set {data >= L},
   which holds the fraction while no higher level set does; amplitude x (number of its samples) is
   the surplus area *)
Definition hdr_level_result (data : list Z) (f : Q) (o : hdr_out) : Prop :=
  exists L, let F := (f * inject_Z (zsum data))%Q in
    (F <= inject_Z (level_area data L))%Q /\
    (forall L', L < L' -> (inject_Z (level_area data L') < F)%Q) /\
    (ho_amp o * inject_Z (level_count data L) == inject_Z (level_area data L) - F)%Q /\
    hdr_intervals_are o (fun i => 0 <= i < zlen data /\ L <= zget data i).
