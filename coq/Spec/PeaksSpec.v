(* Specification of find_peaks: peaks are the gap-threshold clusters of the hits (cut by the
   duration limit), filtered by the area and channel cuts, each with fields given by closed
   formulas over the hits of its cluster. *)
From SV Require Export Model.Peaks Spec.PeakHelpersSpec.

Section Spec.
Variable P : fp_params.
Variable gains : list Z.
Variable nch : nat.

(* latest end of the hits of a (non-empty) group *)
Definition gend (g : list hit) : Z :=
  match g with [] => 0 | h0 :: tl => zmaxl (hend h0) (map hend tl) end.
Definition gfirst (g : list hit) : Z := match g with [] => 0 | h0 :: _ => ht h0 end.
Definition gstart (g : list hit) : Z := gfirst g - fp_lext P.

(* A group is cohesive when every later hit joins the earlier ones: it starts less than
   gap_threshold after the latest end of all earlier hits of the group, and including it does
   not exceed max_duration.  e = latest end so far. *)
Fixpoint coh_from (pt0 e : Z) (tl : list hit) : Prop :=
  match tl with
  | [] => True
  | h :: r => fp_closes P e pt0 h = false /\ coh_from pt0 (Z.max e (hend h)) r
  end.
Definition cohesive (g : list hit) : Prop :=
  match g with [] => False | h0 :: tl => coh_from (ht h0 - fp_lext P) (hend h0) tl end.

(* the next hit does not join the group: far away, or it would make the peak too long *)
Definition boundary (g : list hit) (nh : hit) : Prop := fp_closes P (gend g) (gstart g) nh = true.
Definition far_boundary (g : list hit) (nh : hit) : Prop := fp_far P (gend g) nh = true.

(* hits is the concatenation of the groups gs, every group is cohesive, and between consecutive
   groups there is a boundary *)
Inductive Clustering : list hit -> list (list hit) -> Prop :=
| cl_nil : Clustering [] []
| cl_last g : cohesive g -> Clustering g [g]
| cl_cons g nh rest gs : cohesive g -> boundary g nh -> Clustering (nh :: rest) gs ->
                         Clustering (g ++ nh :: rest) (g :: gs).

(* gaps between each later hit's start and the latest end of the earlier hits *)
Fixpoint gaps_from (e : Z) (tl : list hit) : list Z :=
  match tl with [] => [] | h :: r => (ht h - e) :: gaps_from (Z.max e (hend h)) r end.
Definition gmaxgap (g : list hit) : Z :=
  match g with [] => 0 | h0 :: tl => zmaxl 0 (gaps_from (hend h0) tl) end.

Definition garea (g : list hit) : Z := zsum (map (contrib gains) g).
Definition gapc (g : list hit) : list Z :=
  map (fun c => zsum (map (contrib gains) (filter (fun h => hch h =? c) g))) (zseq 0 nch).
Definition glast_dt (g : list hit) : Z := hdt (last g (mkhit 0 0 1 0 0)).
Definition gdt (g : list hit) : Z := match g with [] => 0 | h0 :: _ => hdt h0 end.
Definition glen (g : list hit) : Z := Z.quot (gend g - gstart g + fp_rext P) (glast_dt g).

Definition peak_of (g : list hit) : peak :=
  mkpeak (gstart g) (glen g) (gdt g) (zlen g) (garea g) (gapc g) (gmaxgap g).
Definition keep (g : list hit) : bool :=
  negb ((garea g <? fp_min_area P) || (count_nz (gapc g) <? fp_min_ch P)).

Fixpoint fp_out (gs : list (list hit)) : res (list peak) :=
  match gs with
  | [] => Ok []
  | g :: r =>
      if keep g then
        if glen g <=? 0 then Err 1 else do ps <- fp_out r; Ok (peak_of g :: ps)
      else fp_out r
  end.

(* consecutive groups are all separated by the gap criterion (the duration cut never decided) *)
Inductive AllFar : list (list hit) -> Prop :=
| af_nil : AllFar []
| af_one g : AllFar [g]
| af_cons g g' gs : far_boundary g (hd (mkhit 0 0 1 0 0) g') -> AllFar (g' :: gs) -> AllFar (g :: g' :: gs).

End Spec.

Definition hits_sorted (hs : list hit) : Prop := ForallOrdPairs (fun a b => ht a <= ht b) hs.
