(* Chunk streams: what "a chunking of a run" and "contiguous output" mean for property C09. *)
From SV Require Export Model.Rows Model.Chunk.

(* every chunk starts where the previous one ended; the first starts at a *)
Fixpoint contiguous_from (a : Z) (cs : list chunk) : Prop :=
  match cs with
  | [] => True
  | c :: rest => cstart c = a /\ contiguous_from (cend c) rest
  end.

(* cs is a chunking of the rows R over [a, b): non-empty, contiguous, well formed, one data type and
   run id, and the rows concatenate to R.  Empty and zero-duration chunks are allowed. *)
Definition chunking_of (R : list row) (a b : Z) (dt : Z) (run : option Z) (cs : list chunk) : Prop :=
  cs <> [] /\ contiguous_from a cs /\ last_end a cs = b /\ Forall wf cs /\
  Forall (fun c => cdtype c = dt /\ crun c = run) cs /\ flat_map crows cs = R.

(* the chunks of output number k, in the order they are yielded *)
Definition item_chunk (k : nat) (it : option (list chunk)) : list chunk :=
  match it with
  | Some cs => match nth_error cs k with Some c => [c] | None => [] end
  | None => []
  end.
Definition out_stream (k : nat) (items : list (option (list chunk))) : list chunk :=
  flat_map (item_chunk k) items.
