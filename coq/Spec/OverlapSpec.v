(* Chunk streams: what "a chunking of a run" and "contiguous output" mean for property C09. *)
From SV Require Export Model.Rows Model.Chunk.

(* every chunk starts where the previous one ended; the first starts at a *)
Fixpoint contiguous_from (a : Z) (cs : list chunk) : Prop :=
  match cs with
  | [] => True
  | c :: rest => cstart c = a /\ contiguous_from (cend c) rest
  end.

(* cs is a chunking of the rows R over [a, b): non-empty, contiguous, well formed, one data type and
   run id, and the rows concatenate to R.  Empty and zero-duration chunks are allowed. *)
Definition chunking_of (R : list row) (a b : Z) (dt : Z) (run : option Z) (cs : list chunk) : Prop :=
  cs <> [] /\ contiguous_from a cs /\ last_end a cs = b /\ Forall wf cs /\
  Forall (fun c => cdtype c = dt /\ crun c = run) cs /\ flat_map crows cs = R.
