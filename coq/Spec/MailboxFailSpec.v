(* Vocabulary of the C06 theorems about the threaded mailbox network (Model/MailboxFail.v).  No proofs. *)
From SV Require Import Base.Prelude Model.Mailbox Model.MailboxFail Model.C06Run Model.C06Nets.
Local Open Scope nat_scope.

(* a schedule is any list of thread ids; nrun = None when it names a thread that is not enabled, so every
   `nrun ... = Some st` is a real execution prefix.  A run is maximal when nothing is enabled at its end. *)
Definition quiescent (nt : net) (st : nstate) : Prop := forall t, nenabled nt st t = false.

(* a deadlock: nothing can run but some thread has not finished — what a real run reports as a timeout *)
Definition deadlocked (nt : net) (st : nstate) : Prop := quiescent nt st /\ all_terminal st = false.

(* every saver was closed, and one that is closed without a recorded exception holds all n chunks *)
Definition savers_marked (st : nstate) (n : nat) : Prop :=
  forall i t, nth_error (ths st) i = Some t -> is_saver t = true ->
    t_closed t = true /\ (t_excrec t = true \/ length (t_rows t) = n).

(* every maximal run ends with all threads finished, the caller holding exception c, savers closed and marked *)
Definition failure_reaches_caller (nt : net) (st0 : nstate) (main n c : nat) : Prop :=
  forall sched st, nrun nt st0 sched = Some st -> quiescent nt st ->
    all_terminal st = true /\ main_outcome st main = Some (OErr (EOrig c)) /\ savers_marked st n.

(* every maximal run ends with all threads finished and the caller holding all n chunks in order, every saver
   closed normally with all n chunks *)
Definition completes (nt : net) (st0 : nstate) (main n : nat) : Prop :=
  forall sched st, nrun nt st0 sched = Some st -> quiescent nt st ->
    all_terminal st = true /\ main_outcome st main = Some (OOk (map Z.of_nat (seq 0 n))) /\
    forall i t, nth_error (ths st) i = Some t -> is_saver t = true ->
      t_closed t = true /\ t_excrec t = false /\ t_got t = None /\ t_rows t = map Z.of_nat (seq 0 n).

Definition valid_chain (sp : chain_spec) : Prop :=
  1 <= length (ch_caps sp) /\ length (ch_nsav sp) = length (ch_caps sp) /\
  (forall c, In c (ch_caps sp) -> 1 <= c).

Definition valid_fan (sp : fan_spec) : Prop := 1 <= fn_cap sp.

(* the thread with id t of a chain is a saver *)
Definition chain_is_saver (sp : chain_spec) (t : nat) : Prop :=
  length (ch_caps sp) <= t /\ t < chain_main sp.
