(* Direct ("quadratic") set-theoretic definitions of the interval primitives.  Each spec evaluates
   its defining formula independently for every (thing, container) pair; nothing here shares
   code with the two-pointer algorithms of Model/Intervals.v. *)
From SV Require Export Model.Rows.

Definition srow0 : row := mkrow 0 0 0 0.

(* first index (as Z) whose element satisfies p, else -1 *)
Fixpoint first_idx {A} (p : A -> bool) (l : list A) (i : nat) : Z :=
  match l with
  | [] => -1
  | x :: r => if p x then Z.of_nat i else first_idx p r (S i)
  end.

(* indices of the elements satisfying p *)
Fixpoint idxs {A} (p : A -> bool) (l : list A) (i : nat) : list nat :=
  match l with
  | [] => []
  | x :: r => if p x then i :: idxs p r (S i) else idxs p r (S i)
  end.

(* ---- containment ---- *)
(* the literal documented formula: c.time <= t.time and t.endtime <= c.endtime *)
Definition contains_lit (c a : row) : bool := (rt c <=? rt a) && (re a <=? re c).
(* the formula the code evaluates: additionally the thing's start lies before the container's
   exclusive end (differs from contains_lit only for a zero-length thing on a container's end) *)
Definition contains_strict (c a : row) : bool := contains_lit c a && (rt a <? re c).

Definition fc_spec_lit (cs : list row) (a : row) : Z := first_idx (fun c => contains_lit c a) cs 0.
Definition fc_spec_strict (cs : list row) (a : row) : Z := first_idx (fun c => contains_strict c a) cs 0.

(* split_by_containment: for every container the things assigned to it *)
Definition groups_spec (assign : list row -> row -> Z) (things cs : list row) : list (list row) :=
  map (fun j => filter (fun a => assign cs a =? Z.of_nat j) things) (seq 0 (length cs)).

(* ---- touching ---- *)
Definition touchesb (w : Z) (c q : row) : bool := (re q >? rt c - w) && (rt q <? re c + w).
Definition tw_spec (things cs : list row) (w : Z) : list (list nat) :=
  map (fun c => idxs (touchesb w c) things 0) cs.

(* ---- overlap of integer ranges [a1, a1+na) and [b1, b1+nb) ---- *)
(* members of range a that also lie in range b, by enumeration *)
Definition range_members (a1 na b1 nb : Z) : list Z :=
  filter (fun x => (b1 <=? x) && (x <? b1 + nb))
         (map (fun k => a1 + Z.of_nat k) (seq 0 (Z.to_nat na))).
Definition oi_spec (a1 na b1 nb : Z) : (Z * Z) * (Z * Z) :=
  match range_members a1 na b1 nb with
  | [] => ((0, 0), (0, 0))
  | x :: r =>
      let lo := x in
      let hi := last r x + 1 in
      ((lo - a1, hi - a1), (lo - b1, hi - b1))
  end.

(* ---- diff, breaks ---- *)
(* maximum of a list with default for the empty list *)
Definition maxl (d : Z) (l : list Z) : Z := fold_right Z.max d l.
Definition max_end_before (rs : list row) (i : nat) : Z :=
  match firstn i rs with [] => 0 | r :: rest => maxl (re r) (map re rest) end.

Definition diff_spec (rs : list row) : list Z :=
  map (fun i => rt (nth (S i) rs srow0) - max_end_before rs (S i)) (seq 0 (length rs - 1)%nat).

Definition is_break (rs : list row) (sb nb : Z) (i : nat) : bool :=
  rt (nth i rs srow0) >=? Z.max nb (max_end_before rs i) + sb.
Definition find_break_spec (rs : list row) (sb nb : Z) : option nat :=
  find (is_break rs sb nb) (seq 1 (length rs - 1)%nat).

(* ---- time to previous / next interval ---- *)
Definition minl (d : Z) (l : list Z) : Z := fold_right Z.min d l.
(* previous: intervals that start before the thing starts and end at or before its start *)
Definition prev_spec (ivs : list row) (th : row) : Z :=
  match map (fun iv => rt th - re iv) (filter (fun iv => (rt iv <? rt th) && (re iv <=? rt th)) ivs) with
  | [] => -1
  | x :: r => minl x r
  end.
(* the same with the natural definition "ends at or before the thing's start" only *)
Definition prev_spec_nat (ivs : list row) (th : row) : Z :=
  match map (fun iv => rt th - re iv) (filter (fun iv => re iv <=? rt th) ivs) with
  | [] => -1
  | x :: r => minl x r
  end.
Definition next_spec (ivs : list row) (th : row) : Z :=
  match map (fun iv => rt iv - re th) (filter (fun iv => rt iv >=? re th) ivs) with
  | [] => -1
  | x :: r => minl x r
  end.
Definition atp_spec (things ivs : list row) : list (Z * Z) :=
  match ivs with
  | [] => map (fun _ => (-1, -1)) things
  | _ => map (fun th => (prev_spec ivs th, next_spec ivs th)) things
  end.

(* ---- sorting ---- *)
(* out is the stable sort of inp by (time, channel): sorted, and for every (time, channel) value
   the rows carrying it appear in the same order in out and inp; same length *)
Definition tc_leb (a b : row) : bool := (rt a <? rt b) || ((rt a =? rt b) && (rch a <=? rch b)).
Definition tc_eqb (a b : row) : bool := (rt a =? rt b) && (rch a =? rch b).
Fixpoint sorted_leb {A} (leb : A -> A -> bool) (l : list A) : bool :=
  match l with
  | [] => true
  | x :: r => forallb (leb x) r && sorted_leb leb r
  end.
Definition rows_eqb (a b : list row) : bool :=
  (length a =? length b)%nat && forallb (fun p => row_eqb (fst p) (snd p)) (combine a b).
Definition same_classes (inp out : list row) : bool :=
  forallb (fun x => rows_eqb (filter (tc_eqb x) inp) (filter (tc_eqb x) out)) (inp ++ out).
Definition is_stable_sort_of (inp out : list row) : bool :=
  sorted_leb tc_leb out && same_classes inp out && (length inp =? length out)%nat.
(* weaker: sorted by (time, channel) and a rearrangement (multiset equality by counting) *)
Definition count_row (x : row) (l : list row) : nat := length (filter (row_eqb x) l).
Definition is_sorted_perm_of (inp out : list row) : bool :=
  sorted_leb tc_leb out && forallb (fun x => (count_row x inp =? count_row x out)%nat) (inp ++ out).
