(* C18 specification side: what "exactly the maximal runs at or above threshold" means, what the
   links of time-adjacent fragments are, and which samples lie within the extension of a hit. *)
From Coq Require Export Sorting.Sorted.
From SV Require Export Model.Hits Model.Reduction.

(* ---------- hits ---------- *)
Definition satP (thr x : Z) : Prop := thr <= FR2 * x.

(* w = A ++ R ++ B where R is a maximal run of samples at or above threshold *)
Definition run_at (thr : Z) (w A R B : list Z) : Prop :=
  w = A ++ R ++ B /\ R <> [] /\ Forall (satP thr) R /\
  (A = [] \/ exists A' y, A = A' ++ [y] /\ ~ satP thr y) /\
  (B = [] \/ exists y B', B = y :: B' /\ ~ satP thr y).

(* h describes the maximal run R = R1 ++ y :: R2 of the in-record samples w of record r (index k):
   y is the first maximal sample of the run *)
Definition hit_is_run (r : rec) (k thr : Z) (w : list Z) (h : hit) : Prop :=
  exists A R1 y R2 B,
    let R := R1 ++ y :: R2 in
    run_at thr w A R B /\
    Forall (fun v => v < y) R1 /\ Forall (fun v => v <= y) R2 /\
    h_left h = zlen A /\ h_right h = zlen A + zlen R /\
    h_time h = r_time r + zlen A * r_dt r /\ h_length h = zlen R /\
    h_dt h = r_dt r /\ h_ch h = r_ch r /\ h_reci h = k /\ h_thr h = thr /\
    h_area h = FR * zsum R + zlen R * (r_bl r mod FR) /\
    h_height h = FR * y + r_bl r mod FR /\
    h_maxtime h = r_time r + (zlen A + zlen R1) * r_dt r.

(* every sample at or above threshold from position lo on lies inside one of the hits *)
Definition covered (thr : Z) (w : list Z) (lo : Z) (hs : list hit) : Prop :=
  forall j, lo <= j < zlen w -> satP thr (nthZ w j) ->
            exists h, In h hs /\ h_left h <= j < h_right h.

(* the hits of one record: each is a maximal run with the right fields, they are in increasing
   order and separated by at least one sample, and they cover every sample at or above threshold *)
Definition record_hits_spec (r : rec) (k thr : Z) (hs : list hit) : Prop :=
  let w := firstnZ (r_length r) (r_data r) in
  Forall (hit_is_run r k thr w) hs /\
  StronglySorted (fun h1 h2 => h_right h1 < h_left h2) hs /\
  covered thr w 0 hs.

(* all records: the output is the concatenation, in record order, of the per-record hits *)
Fixpoint all_hits_spec (amp hon : list Z) (rs : list rec) (k : Z) (hs : list hit) : Prop :=
  match rs with
  | [] => hs = []
  | r :: rest => exists h1 h2, hs = h1 ++ h2 /\ record_hits_spec r k (threshold amp hon r) h1 /\
                               all_hits_spec amp hon rest (k + 1) h2
  end.

(* a record the hit finder accepts, with a positive threshold *)
Definition rec_ok (amp hon : list Z) (r : rec) : Prop :=
  0 <= r_ch r < zlen amp /\ r_ch r < zlen hon /\
  0 <= r_length r <= zlen (r_data r) /\ 0 < threshold amp hon r.

(* the per-channel arrays find_hits hands to _find_hits *)
Definition n_channels_of (rs : list rec) (amp hon : targ) : Z :=
  match amp, hon with
  | PerCh a, _ => zlen a
  | _, PerCh h => zlen h
  | _, _ => max_channel rs + 1
  end.
Definition targ_array (t : targ) (n : Z) : list Z :=
  match t with PerCh a => a | Scalar v => bcast v n end.

(* ---------- record links ---------- *)
(* channels are non-negative (record_links raises ValueError otherwise) *)
Definition rec_wf (r : rec) : Prop := 0 <= r_ch r.

Definition rec_at (rs : list rec) (i : Z) : rec :=
  nth (Z.to_nat i) rs (mkrec 0 0 0 0 0 0 0 0 0 0 0 []).

(* j is the latest record before i in i's channel, i is not a first fragment and starts exactly
   where j's buffer ends *)
Definition linked (spr : Z) (rs : list rec) (j i : Z) : Prop :=
  0 <= j < i /\ i < zlen rs /\
  r_ch (rec_at rs j) = r_ch (rec_at rs i) /\
  (forall k, j < k < i -> r_ch (rec_at rs k) <> r_ch (rec_at rs i)) /\
  r_reci (rec_at rs i) <> 0 /\
  r_time (rec_at rs i) = r_time (rec_at rs j) + spr * r_dt (rec_at rs j).

(* ---------- samples within the extension of a hit ---------- *)
(* position v of sample s of record j in the coordinates of record ri (None: not this record and
   not a linked neighbour; samples beyond the record's own length are not samples of it) *)
Definition keeps (rs : list rec) (spr : Z) (prev next : list Z) (le re : Z) (h : hit) (j s : Z) : Prop :=
  let ri := h_reci h in
  (j = ri /\ s < r_length (rec_at rs ri) /\ h_left h - le <= s < h_right h + re) \/
  (j = nthZ prev ri /\ j <> NO_RECORD_LINK /\ h_left h - le <= s - spr) \/
  (j = nthZ next ri /\ j <> NO_RECORD_LINK /\ s + spr < h_right h + re).

Definition keepsb (rs : list rec) (spr : Z) (prev next : list Z) (le re : Z) (h : hit) (j s : Z) : bool :=
  let ri := h_reci h in
  ((j =? ri) && (s <? r_length (rec_at rs ri)) && (h_left h - le <=? s) && (s <? h_right h + re)) ||
  ((j =? nthZ prev ri) && negb (j =? NO_RECORD_LINK) && (h_left h - le <=? s - spr)) ||
  ((j =? nthZ next ri) && negb (j =? NO_RECORD_LINK) && (s + spr <? h_right h + re)).

(* a hit that lies in a record of the array *)
Definition hit_ok (rs : list rec) (spr : Z) (h : hit) : Prop :=
  0 <= h_reci h < zlen rs /\ 0 <= h_left h <= h_right h /\ h_left h <= spr /\
  0 <= r_length (rec_at rs (h_reci h)).
