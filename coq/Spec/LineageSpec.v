(* C02 — the cache-free specification of plugin initialisation ("what a brand-new context
   computes"), by recursion on the depth of the plugin graph, and the equivalences modulo which
   instances are compared (dict insertion order, tuple versus list). *)
From SV Require Import Base.Prelude Model.Canon Model.Lineage Proof.CanonProof.

Fixpoint spec_deps (sp : Z -> res inst) (ds : list Z) : res (list inst) :=
  match ds with
  | [] => Ok []
  | d :: r => do i <- sp d; do rest <- spec_deps sp r; Ok (i :: rest)
  end.

Fixpoint spec_plugin (fuel : nat) (reg : registry) (conf : config) (dt : Z) : res inst :=
  match fuel with
  | O => Err E_FUEL
  | S f =>
      match lookup dt reg with
      | None => Err E_KEY
      | Some c =>
          do pconf <- plugin_config conf c;
          do deps <- spec_deps (spec_plugin f reg conf) (cdepends c);
          Ok (mkinst c pconf (build_lineage c pconf deps))
      end
  end.

Definition entry_value (e : lentry) : value :=
  VTuple [VStr (fst (fst e)); VStr (snd (fst e)); VDict (snd e)].
Definition norm_entry (e : lentry) : tv := norm (entry_value e).

Definition opt_equiv (o o' : opt) : Prop :=
  oname o = oname o' /\ otrack o = otrack o' /\ oparent o = oparent o' /\ norm (odefault o) = norm (odefault o').

(* same class as far as lineages and instances are concerned (class identity, compressor and
   input_timeout do not enter) *)
Definition cls_equiv (c c' : cls) : Prop :=
  cname c = cname c' /\ cversion c = cversion c' /\ cprovides c = cprovides c' /\ cdepends c = cdepends c' /\
  cchild c = cchild c' /\ cparents c = cparents c' /\ Forall2 opt_equiv (copts c) (copts c').

Definition conf_equiv : config -> config -> Prop := dequiv norm.
Definition lin_equiv : lineage -> lineage -> Prop := dequiv norm_entry.

Definition inst_equiv (i i' : inst) : Prop :=
  cls_equiv (icls i) (icls i') /\ conf_equiv (iconf i) (iconf i') /\ lin_equiv (ilin i) (ilin i').

Definition reg_equiv (r r' : registry) : Prop :=
  forall dt, match lookup dt r, lookup dt r' with
             | Some c, Some c' => cls_equiv c c'
             | None, None => True
             | _, _ => False
             end.

Definition res_rel {A} (R : A -> A -> Prop) (a b : res A) : Prop :=
  match a, b with
  | Ok x, Ok y => R x y
  | Err e, Err e' => e = e'
  | _, _ => False
  end.

(* a registry as Context.register leaves it: a class is registered for exactly its outputs *)
Definition reg_ok (r : registry) : Prop :=
  forall dt c, lookup dt r = Some c ->
    In dt (cprovides c) /\ forall p, In p (cprovides c) -> lookup p r = Some c.
