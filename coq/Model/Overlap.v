(* Model of strax/plugins/overlap_window_plugin.py (OverlapWindowPlugin.iter, do_compute,
   cache_beyond, _get_window_size) for a plugin with ONE dependency, on top of the part of
   strax/plugins/plugin.py it runs through (Plugin.iter for a single dependency, Plugin.do_compute,
   _fix_output / Plugin.chunk).  Executable definitions only.

   With one dependency Plugin.iter makes that dependency the pacemaker: every fetched chunk is
   concatenated to the (empty, zero-duration) remainder of the input buffer, split at its own end
   and handed to do_compute, i.e. one do_compute call per input chunk.

   Error codes (besides those of Model/Chunk.v). *)
From SV Require Export Model.Rows Model.SplitArray Model.Chunk Model.SourceConstants.

Definition E_EMPTY_BUFFER : Z := 40.  (* ValueError: Cannot work with empty input buffer *)
Definition E_OW_NEGWIN    : Z := 41.  (* ValueError: Window size elements must be non-negative *)
Definition E_OW_TRIALS    : Z := 42.  (* ValueError: Buffer start time inconsistency cannot be resolved *)
Definition E_OW_OUTSTART  : Z := 43.  (* ValueError: Output start time inconsistency has not been resolved? *)
Definition E_LEFTOVER     : Z := 44.  (* RuntimeError: terminated with leftover *)

(* one output data type of the plugin: user computation, data_type id, data_kind id *)
Record ow_out := mk_ow_out { oo_f : list row -> list row; oo_dt : Z; oo_kind : Z }.

Record ow_params := mk_ow_params {
  ow_wtuple : bool;          (* get_window_size returns a tuple (checked >= 0) rather than one int *)
  ow_wl : Z; ow_wr : Z;      (* window_size[0], window_size[1] *)
  ow_outs : list ow_out;     (* provides, in order *)
  ow_run : option Z;         (* self._run_id *)
  ow_tgt : Z;                (* chunk_target_size_mb *)
  ow_save_when : Z           (* max save_when over the outputs *)
}.

(* plugin state: cached_input (single data kind), cached_results (one per output; None / {} before
   the first computation), sent_until *)
Record ow_state := mk_ow_state {
  ow_cin : option chunk;
  ow_cres : option (list chunk);
  ow_sent : Z
}.
Definition ow_init : ow_state := mk_ow_state None None 0.

Fixpoint map_res {A B} (g : A -> res B) (l : list A) : res (list B) :=
  match l with
  | [] => Ok []
  | x :: r => do y <- g x; do ys <- map_res g r; Ok (y :: ys)
  end.

(* len(set(starts)) == 1 *)
Definition one_unique (l : list Z) : bool :=
  match l with [] => false | x :: r => forallb (fun y => y =? x) r end.

(* one pass of the inner loop of cache_beyond:
     cached[data] = chunk.split(t=prev_split, allow_early_split=True)[1]; prev_split = cached[data].start *)
Fixpoint cb_pass (io : list chunk) (p : Z) : res (list chunk * Z) :=
  match io with
  | [] => Ok ([], p)
  | c :: r =>
      do '(_, c2) <- chunk_split c p true;
      do '(cs, p') <- cb_pass r (cstart c2);
      Ok (c2 :: cs, p')
  end.

(* for try_counter in range(max_trials): ... else: raise *)
Fixpoint cb_loop (fuel : nat) (io : list chunk) (p : Z) : res (list chunk * Z) :=
  match fuel with
  | O => Err E_OW_TRIALS
  | S k =>
      do '(cs, p') <- cb_pass io p;
      if one_unique (map cstart cs) then Ok (cs, p') else cb_loop k io p'
  end.

Definition cache_beyond (io : list chunk) (p : Z) : res (list chunk * Z) :=
  cb_loop (Z.to_nat OVERLAP_MAX_TRIALS) io p.

(* _get_window_size *)
Definition get_window (P : ow_params) : res (Z * Z) :=
  if ow_wtuple P && ((ow_wl P <? 0) || (ow_wr P <? 0)) then Err E_OW_NEGWIN
  else Ok (ow_wl P, ow_wr P).

(* Plugin.do_compute + _fix_output + Plugin.chunk for one output: the result array is wrapped in a
   Chunk carrying start/end of the (concatenated) input *)
Definition base_compute (P : ow_params) (inp : chunk) : res (list chunk) :=
  map_res (fun o => mk_chunk (cstart inp) (cend inp) (oo_f o (crows inp)) (oo_dt o) (oo_kind o)
                      (ow_run P) (ow_tgt P)) (ow_outs P).

Definition multi_output (P : ow_params) : bool := (1 <? length (ow_outs P))%nat.

(* everything in OverlapWindowPlugin.do_compute after the cached input has been prepended *)
Definition ow_compute_core (P : ow_params) (inp : chunk) (sent : Z) : res (list chunk * ow_state) :=
  do '(wl, wr) <- get_window P;
  let invalid_beyond := cend inp - 2 * wr - 1 in
  do res0 <- base_compute P inp;
  (* throw away results we already sent out: strict split at sent_until *)
  do res1 <- map_res (fun r => do '(_, r2) <- chunk_split r sent false; Ok r2) res0;
  do '(outs, crs, sent') <-
    (if multi_output P then
       do '(_, prev_split) <- cache_beyond res1 invalid_beyond;
       do pairs <- map_res (fun r => chunk_split r prev_split true) res1;
       if negb (one_unique (map (fun pr => cstart (snd pr)) pairs)) then Err E_OW_OUTSTART
       else Ok (map fst pairs, map snd pairs, prev_split)
     else
       match res1 with
       | [r] => do '(out, cr) <- chunk_split r invalid_beyond true; Ok ([out], [cr], cstart cr)
       | _ => Err E_OW_OUTSTART   (* not reachable: exactly one output here *)
       end);
  let cache_inputs_beyond := sent' - 2 * wl - 1 in
  do '(cins, _) <- cache_beyond [inp] cache_inputs_beyond;
  Ok (outs, mk_ow_state (hd_error cins) (Some crs) sent').

(* OverlapWindowPlugin.do_compute *)
Definition ow_do_compute (P : ow_params) (st : ow_state) (c : chunk) : res (list chunk * ow_state) :=
  do inp <- (match ow_cin st with
             | None => Ok c
             | Some ci => concatenate [Some ci; Some c] false
             end);
  ow_compute_core P inp (ow_sent st).

(* Plugin.iter for one dependency, followed by OverlapWindowPlugin.iter's final
   `yield self.cached_results`.  `buf` is input_buffer[d] right after a successful _fetch_chunk.
   Items: Some outs = the chunk (single output) / dict of chunks (multi output) yielded;
   None = the Python value None (cached_results never assigned). *)
Fixpoint ow_rounds (P : ow_params) (st : ow_state) (buf : chunk) (rest : list chunk)
  : res (list (option (list chunk))) :=
  do '(inp, buf') <- chunk_split buf (cend buf) true;
  do '(out, st') <- ow_do_compute P st inp;
  match rest with
  | [] =>
      (* _fetch_chunk: StopIteration -> IterDone; leftover check; then the final flush *)
      if (ow_save_when P >? SAVEWHEN_EXPLICIT) && (0 <? length (crows buf'))%nat then Err E_LEFTOVER
      else Ok [Some out; ow_cres st']
  | c :: rest' =>
      do buf2 <- concatenate [Some buf'; Some c] false;
      do outs <- ow_rounds P st' buf2 rest';
      Ok (Some out :: outs)
  end.

Definition ow_iter (P : ow_params) (cs : list chunk) : res (list (option (list chunk))) :=
  match cs with
  | [] => Err E_EMPTY_BUFFER
  | c :: rest => ow_rounds P ow_init c rest
  end.

(* the rows delivered for output number k *)
Definition item_rows (k : nat) (it : option (list chunk)) : list row :=
  match it with
  | Some cs => match nth_error cs k with Some c => crows c | None => [] end
  | None => []
  end.
Definition delivered_rows (k : nat) (items : list (option (list chunk))) : list row :=
  flat_map (item_rows k) items.
