(* A decidable description of "the network ThreadedMailboxProcessor wires for an arbitrary plugin DAG with 1:1
   plugins": used by the statement C06_full_threaded_dag (Props/C06.v) and evaluated by the harness (extracted)
   on the network derived from every real processor it builds, diamonds included.  No proofs. *)
From SV Require Import Base.Prelude Model.Mailbox Model.MailboxFail Model.C06Run.
Local Open Scope nat_scope.

Definition slot_ok (st : nstate) (r : rstate) : bool :=
  (r_mb r <? length (mbs st)) && (r_sub r <? length (mb_subs (get_mb st (r_mb r)))).

(* a thread's wiring: a stage reads mailboxes with smaller indices than the one it writes (the plugin graph is
   acyclic, mailboxes numbered topologically), sources produce N chunks, readers read one valid slot *)
Definition thread_dag_ok (st : nstate) (N : nat) (t : thread) : bool :=
  match t_kind t with
  | KStage nsrc o =>
      (nsrc =? N) && (o <? length (mbs st)) && forallb (fun r => slot_ok st r && (r_mb r <? o)) (t_rd t)
  | KSaver _ | KDiscard | KMain _ => match t_rd t with [r] => slot_ok st r | _ => false end
  | KDivider outs =>
      match t_rd t with
      | [r] => slot_ok st r && negb (length outs =? 0)
               && forallb (fun p => (r_mb r <? fst p) && (fst p <? length (mbs st))) outs
      | _ => false
      end
  end.

Definition all_in_slots (st : nstate) : list (nat * nat) :=
  flat_map (fun t => map (fun r => (r_mb r, r_sub r)) (t_rd t)) (ths st).
Definition all_out_mbs (st : nstate) : list nat :=
  flat_map (fun t => match t_kind t with KStage _ o => [o] | KDivider outs => map fst outs | _ => [] end) (ths st).

Fixpoint nodup_nat (l : list nat) : bool :=
  match l with [] => true | x :: t => negb (existsb (Nat.eqb x) t) && nodup_nat t end.
Definition pair_eqb (a b : nat * nat) : bool := (fst a =? fst b) && (snd a =? snd b).
Fixpoint nodup_pair (l : list (nat * nat)) : bool :=
  match l with [] => true | x :: t => negb (existsb (pair_eqb x) t) && nodup_pair t end.

Definition dag_ok_b (nt : net) (st : nstate) (N main : nat) : bool :=
  let nmb := length (mbs st) in
  cover_b nt st main
  && n_f2 nt && n_f3 nt
  && forallb (thread_dag_ok st N) (ths st)
  && nodup_pair (all_in_slots st)                                    (* one reader per subscriber slot *)
  && nodup_nat (all_out_mbs st)                                      (* one sender per mailbox *)
  && forallb (fun j => existsb (Nat.eqb j) (all_out_mbs st)) (seq 0 nmb)
  && forallb (fun j => forallb (fun s => existsb (pair_eqb (j, s)) (all_in_slots st))
                               (seq 0 (length (mb_subs (get_mb st j))))) (seq 0 nmb)
  && forallb (fun m => (1 <=? mb_cap m) && (1 <=? length (mb_subs m))) (mbs st).

(* the injected failure sits in a thread that can fail (a plugin / loader thread or a saver) at a position it
   reaches: chunk 0..N-1 or "at the end" *)
Definition fault_ok_b (nt : net) (st : nstate) (N : nat) : bool :=
  match n_fault nt, n_cfault nt with
  | Some (ft, fp, _), None =>
      (fp <=? N) && match t_kind (get_th st ft) with KStage _ _ | KSaver _ => ft <? length (ths st) | _ => false end
  | _, _ => false
  end.
