(* Runner-side instance of the C03 model used by the extracted driver and the kernel cross-check.
   The abstract byte codec is instantiated by a tagged identity: a file holds the compressor id it
   was written with and the rows; decoding with another compressor, or a damaged file (None), is
   "undecodable".  File sizes are not predicted by the model (bsize = 0; the harness compares the
   real sizes with the bytes on disk). *)
From SV Require Import Model.SaverLoader.

Definition rblob : Type := option (Z * list row).
Definition rencode (k : Z) (rs : list row) : rblob := Some (k, rs).
Definition rdecode (k : Z) (b : rblob) : option (list row) :=
  match b with
  | Some (k', rs) => if k' =? k then Some rs else None
  | None => None
  end.
Definition rbsize (b : rblob) : Z := 0.

Record run_out := mk_run_out {
  ro_saver : saver rblob;
  ro_save : res unit;
  ro_load : res (list chunk)
}.

(* digest of a run used by the kernel cross-check of the extraction: (save code, load code,
   (start, end, n) of the loaded chunks, (chunk_i, n, file number or -1) of the stored entries) *)
Definition res_code {A} (r : res A) : Z := match r with Ok _ => 0 | Err e => e end.
Definition c03_digest (o : run_out) : Z * Z * list (Z * Z * Z) * list (Z * Z * Z) :=
  (res_code (ro_save o), res_code (ro_load o),
   match ro_load o with
   | Ok l => map (fun c => (cstart c, cend c, Z.of_nat (length (crows c)))) l
   | Err _ => []
   end,
   map (fun ci => (ci_i ci, ci_n ci, match ci_filename ci with Some f => f | None => -1 end))
       (md_chunks (sv_disk (ro_saver o)))).

(* mode 0: save_from; mode 1: forked children in the order `order` (indices into cs), then close *)
Definition c03_run (cfg : save_cfg) (md0 : metadata) (cs : list chunk) (order : list nat)
           (t : tamper rblob) (allow_incomplete : bool) (default_target : Z) : run_out :=
  let s0 := init_saver md0 in
  let '(s1, r) :=
    match order with
    | [] => save_from rblob rencode rbsize cfg s0 cs
    | _ =>
        let jobs := flat_map (fun k => match nth_error cs k with Some c => [(Z.of_nat k, c)] | None => [] end) order in
        match save_children rblob rencode rbsize cfg s0 jobs with
        | Err e => (s0, Err e)
        | Ok s => match close s false with Ok s' => (s', Ok tt) | Err e => (s, Err e) end
        end
    end in
  let s2 := apply_tamper t s1 in
  mk_run_out s2 r (load rblob rdecode s2 allow_incomplete default_target).
