(* Model of the waveform helpers of strax/processing/peak_splitting.py and peak_properties.py.
   Executable definitions only.  Waveform samples are integers (the correspondence restricts the
   generators to the exactly representable domain, DESIGN 3.4); every quotient is returned as an
   exact pair (numerator, denominator), never rounded. *)
From SV Require Export Base.Prelude.

Definition zget (a : list Z) (k : Z) : Z := nth (Z.to_nat k) a 0.
Definition zlen {A} (a : list A) : Z := Z.of_nat (length a).

(* ---------------------------------------------------------------------------------------- *)
(* symmetric_moving_average(a, wing_width)                                                   *)
(*   asum = a[:wing_width].sum(); count = min(wing_width, n)                                 *)
(*   for i in range(n): just_out = i - wing_width - 1; if just_out >= 0: count -= 1; ...     *)
(*                      just_in = i + wing_width;      if just_in < n:   count += 1; ...     *)
(*                      out[i] = asum / count                                                *)
(* `todo` is only the loop counter (one element per remaining iteration).                    *)
(* Python slices a[:w] with w > n yield the whole array: firstn does the same.  w < 0 is     *)
(* outside the model (Python would slice from the end).                                      *)
(* ---------------------------------------------------------------------------------------- *)
Fixpoint sma_loop {T} (a : list Z) (w n : Z) (todo : list T) (i asum count : Z) : list (Z * Z) :=
  match todo with
  | [] => []
  | _ :: rest =>
      let just_out := i - w - 1 in
      let count1 := if just_out >=? 0 then count - 1 else count in
      let asum1 := if just_out >=? 0 then asum - zget a just_out else asum in
      let just_in := i + w in
      let count2 := if just_in <? n then count1 + 1 else count1 in
      let asum2 := if just_in <? n then asum1 + zget a just_in else asum1 in
      (asum2, count2) :: sma_loop a w n rest (i + 1) asum2 count2
  end.

Definition sma (a : list Z) (w : Z) : list (Z * Z) :=
  if w =? 0 then map (fun x => (x, 1)) a
  else sma_loop a w (zlen a) a 0 (zsum (firstn (Z.to_nat w) a)) (Z.min w (zlen a)).
