(* Model of strax/processing/peak_building.py::find_peaks (the numba clustering loop).
   Executable definitions only.  Areas are integers: hit area (ADC x samples) times an integer
   gain, the exactly representable domain of the float32 accumulators (DESIGN 3.4). *)
From SV Require Export Base.Prelude Model.PeakHelpers.

Record hit := mkhit { ht : Z; hlen : Z; hdt : Z; hch : Z; harea : Z }.
Definition hend (h : hit) : Z := ht h + hdt h * hlen h.

Record fp_params := mkfp {
  fp_gap : Z; fp_lext : Z; fp_rext : Z; fp_min_area : Z; fp_min_ch : Z; fp_max_dur : Z }.

Record peak := mkpeak {
  pt : Z; plen : Z; pdt : Z; pnhits : Z; parea : Z; papc : list Z; pmaxgap : Z }.
Definition pend (p : peak) : Z := pt p + plen p * pdt p.

(* the peak candidate under construction: p[...] fields of buffer[offset] + peak_endtime +
   area_per_channel.  `None` = `in_peak == False` (every one of these is re-initialised by the
   next hit, so nothing of a rejected candidate survives). *)
Record fp_cur := mkcur {
  c_end : Z; c_t : Z; c_dt : Z; c_n : Z; c_area : Z; c_gap : Z; c_apc : list Z }.

(* area_per_channel[k] += a *)
Fixpoint zupd (l : list Z) (k : nat) (a : Z) : list Z :=
  match l, k with
  | [], _ => []
  | x :: r, O => (x + a) :: r
  | x :: r, S k' => x :: zupd r k' a
  end.
Definition count_nz (l : list Z) : Z := zlen (filter (fun x => negb (x =? 0)) l).

(* next_hit_is_far or peak_too_long, as computed in the loop body;
   e = peak_endtime (after this hit), pt0 = p["time"] *)
Definition fp_far (P : fp_params) (e : Z) (nh : hit) : bool := ht nh - e >=? fp_gap P.
Definition fp_toolong (P : fp_params) (pt0 : Z) (nh : hit) : bool :=
  ht nh - pt0 + hdt nh * hlen nh + fp_lext P + fp_rext P >? fp_max_dur P.
Definition fp_closes (P : fp_params) (e pt0 : Z) (nh : hit) : bool :=
  fp_far P e nh || fp_toolong P pt0 nh.

Definition contrib (gains : list Z) (h : hit) : Z := harea h * zget gains (hch h).

(* Err 1 = ValueError("Caught attempt to save nonpositive peak length?!") *)
Fixpoint fp_loop (P : fp_params) (gains : list Z) (nch : nat) (hs : list hit) (st : option fp_cur)
  : res (list peak) :=
  match hs with
  | [] => Ok []
  | h :: rest =>
      let t0 := ht h in
      let t1 := hend h in
      let c1 := match st with
                | Some c => mkcur (c_end c) (c_t c) (c_dt c) (c_n c) (c_area c)
                                  (Z.max (c_gap c) (t0 - c_end c)) (c_apc c)
                | None => mkcur t1 (t0 - fp_lext P) (hdt h) 0 0 0 (repeat 0 nch)
                end in
      let a := contrib gains h in
      let c2 := mkcur (Z.max (c_end c1) t1) (c_t c1) (c_dt c1) (c_n c1 + 1) (c_area c1 + a)
                      (c_gap c1) (zupd (c_apc c1) (Z.to_nat (hch h)) a) in
      let closes := match rest with
                    | [] => true
                    | nh :: _ => fp_closes P (c_end c2) (c_t c2) nh
                    end in
      if closes then
        if (c_area c2 <? fp_min_area P) || (count_nz (c_apc c2) <? fp_min_ch P)
        then fp_loop P gains nch rest None
        else
          (* p["length"] = (peak_endtime - p["time"] + right_extension) / dt  -> int32: truncation *)
          let len := Z.quot (c_end c2 - c_t c2 + fp_rext P) (hdt h) in
          if len <=? 0 then Err 1
          else do ps <- fp_loop P gains nch rest None;
               Ok (mkpeak (c_t c2) len (c_dt c2) (c_n c2) (c_area c2) (c_apc c2) (c_gap c2) :: ps)
      else fp_loop P gains nch rest (Some c2)
  end.

(* the assertions in front of the loop; Err 2 = AssertionError *)
Definition fp_asserts (P : fp_params) (gains : list Z) (hs : list hit) : bool :=
  match hs with
  | [] => true
  | h0 :: _ =>
      (hdt h0 >? 0) && (fp_min_ch P >=? 1) && (fp_gap P >? fp_lext P + fp_rext P)
      && (zmaxl (hch h0) (map hch hs) <? zlen gains)
      && (fp_lext P + fp_max_dur P + fp_rext P <? 429496729400)
  end.

Definition find_peaks (P : fp_params) (gains : list Z) (nch : nat) (hs : list hit) : res (list peak) :=
  match hs with
  | [] => Ok []
  | _ => if fp_asserts P gains hs then fp_loop P gains nch hs None else Err 2
  end.
