(* Runner-side view of the C09 model used by the extraction cross-check (vm_compute inside Coq). *)
From SV Require Import Model.Rows Model.Chunk Model.OverlapKernels Model.Overlap.

Definition c09_chunk_view (c : chunk) : Z * Z * list (Z * Z * Z * Z) :=
  (cstart c, cend c, map (fun r => (rt r, re r, rid r, rch r)) (crows c)).

Definition c09_view (r : res (list (option (list chunk))))
  : Z * list (list (Z * Z * list (Z * Z * Z * Z))) :=
  match r with
  | Err e => (e, [])
  | Ok items => (0, map (fun it => match it with None => [] | Some cs => map c09_chunk_view cs end) items)
  end.

Definition c09_iter (wtuple : bool) (wl wr : Z) (run : option Z) (tgt sw : Z)
           (outs : list (Z * Z * Z * Z * Z)) (cs : list chunk) :=
  c09_view (ow_iter
    (mk_ow_params wtuple wl wr
       (map (fun o => match o with (code, kl, kr, dt, kind) => mk_ow_out (kernel_of_code code kl kr) dt kind end) outs)
       run tgt sw) cs).
