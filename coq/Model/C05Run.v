(* Runner-side views of the C05 model: the abstract observation compared step by step with the
   controlled-scheduler run of the real strax.Mailbox (harness/props/c05.py).  No proofs. *)
From SV Require Import Base.Prelude Model.Mailbox.

(* thread status codes: 0 enabled (runnable), 1 blocked (waiting / not enabled), 2 finished, 3 died
   with an exception *)
Definition sender_code (st : state) : Z :=
  match s_pc st with
  | SDone => 2 | SDead => 3
  | _ => if sender_enabled st then 0 else 1
  end.
Definition reader_code (st : state) (r : reader) : Z :=
  match r_pc r with
  | RDone => 2 | RRaised => 3
  | _ => if reader_enabled st r then 0 else 1
  end.
Definition b2z (b : bool) : Z := if b then 1 else 0.

(* [sender; for each reader: code, length of log, log...; killer; one code per worker;
    len(_mailbox); closed; killed; force_killed] *)
Definition obs (st : state) : list Z :=
  [sender_code st]
  ++ flat_map (fun r => reader_code st r :: Z.of_nat (length (r_log r)) :: r_log r) (rds st)
  ++ [match k_pc st with Some _ => 0 | None => 2 end]
  ++ map (fun d : bool => if d then 2 else 0) (w_done st)
  ++ [Z.of_nat (length (box st)); b2z (closed st); b2z (killed st); b2z (fkilled st)].

(* observations after every step; stops at the first scheduled thread that is not enabled *)
Definition run_obs (cfg : config) (st : state) (sched : list tid) : list (list Z) :=
  map obs (trace cfg st sched).

(* finer view used only to explain a disagreement: numbers in the box, have_read+1, waiting_for *)
Definition detail (st : state) : list Z :=
  Z.of_nat (n_sent st) :: map (fun p => Z.of_nat (fst p)) (box st)
  ++ [-1] ++ map (fun r => Z.of_nat (r_nread r)) (rds st)
  ++ [-1] ++ map (fun r => match r_waiting r with Some x => Z.of_nat x | None => -1 end) (rds st).
Definition run_detail (cfg : config) (st : state) (sched : list tid) : list (list Z) :=
  map detail (trace cfg st sched).

(* ---------- divide_outputs (Model/MailboxDivider.v) ---------- *)
From SV Require Import Model.MailboxDivider.

(* [divider status; per mailbox: (per subscriber: status, length of log, log...), len(_mailbox), closed] *)
Definition dobs (ds : dstate) : list Z :=
  (match d_pc ds with DDone => 2 | _ => if div_enabled ds then 0 else 1 end)
  :: flat_map (fun c =>
       flat_map (fun r => reader_code c r :: Z.of_nat (length (r_log r)) :: r_log r) (rds c)
       ++ [Z.of_nat (length (box c)); b2z (closed c)]) (d_mbs ds).

Definition drun_obs (dc : dconfig) (ds : dstate) (sched : list dtid) : list (list Z) :=
  map dobs (dtrace dc ds sched).
