(* Model of superrun processing (property C14): definition of a superrun, its data key, the superrun
   branch of Context.get_components.check_cache (chained sub-run loaders), Plugin.iter / do_compute /
   superrun_transformation for a chain of single-dependency plugins, the saver's Rechunker in
   superrun mode, stored chunk metadata and the loader restoring `subruns`, get_iter's final
   continuity_check.  Executable definitions only. *)
From SV Require Export Model.Annot Model.Rechunker.

Definition E_EMPTY_INPUT   : Z := 60.  (* ValueError: Cannot work with empty input buffer *)
Definition E_NOT_UNIQUE    : Z := 61.  (* ValueError: inputs' superruns or subrunses are different *)
Definition E_WEIRD         : Z := 62.  (* ValueError: Weird! ... chunks have from different run_id *)
Definition E_INCONSISTENT  : Z := 63.  (* ValueError: inconsistent time ranges of inputs *)
Definition E_LOAD_NO_SUBRUNS : Z := 64. (* ValueError: Superrun ... has no subruns information *)
Definition E_NO_CHUNKS     : Z := 65.  (* DataCorrupted: No data returned / ValueError: it has no chunks *)
Definition E_LEFTOVER      : Z := 66.  (* RuntimeError: Plugin terminated with leftover *)

(* ---------------------------------------------------------------------------------------------
   generic stable insertion sort by an integer key (python sorted / numpy mergesort argsort)
   --------------------------------------------------------------------------------------------- *)
Section SortBy.
  Context {A : Type} (key : A -> Z).
  Fixpoint ins_by (x : A) (l : list A) : list A :=
    match l with
    | [] => [x]
    | y :: r => if key x <? key y then x :: l else y :: ins_by x r
    end.
  Definition sort_by (l : list A) : list A := fold_left (fun acc x => ins_by x acc) l [].
End SortBy.

(* ---------------------------------------------------------------------------------------------
   run_selection.define_run for a list of run ids, and what a DataDirectory hands back
   --------------------------------------------------------------------------------------------- *)

(* {run_id: "all" for run_id in data}: duplicates collapse onto the first occurrence *)
Fixpoint dedup (l : list Z) : list Z :=
  match l with
  | [] => []
  | x :: r => x :: filter (fun y => negb (y =? x)) (dedup r)
  end.

(* sort_index = stable_argsort(starts); data = {keys[i]: data[keys[i]] for i in sort_index} *)
Definition define_run_order (start_of : Z -> Z) (data : list Z) : list Z := sort_by start_of (dedup data).

(* storage/files.py write_run_metadata: json.dumps(metadata, sort_keys=True): the sub_run_spec that is
   read back is ordered by run-id *string*.  The harness numbers the run-id strings in string order,
   so this is the order of the integer ids. *)
Definition json_sort_keys (l : list Z) : list Z := sort_by (fun x => x) l.

(* what run_metadata(superrun)["sub_run_spec"] iterates over *)
Definition sub_run_spec (start_of : Z -> Z) (data : list Z) : list Z :=
  json_sort_keys (define_run_order start_of data).

(* context.py Context._sub_run_spec_by_start (since /repo 317aec4): check_cache re-orders the spec it read
   by the run starts (python's sorted is stable) before it makes and chains the sub-runs *)
Definition chained_spec (start_of : Z -> Z) (data : list Z) : list Z :=
  sort_by start_of (sub_run_spec start_of data).

(* ---------------------------------------------------------------------------------------------
   DataKey._run_id: run_id + "_" + deterministic_hash((subruns, combining)).  hashablize sorts the
   items of a dict, so the canonical serialisation is the sorted list of run ids (every value is
   "all": time-range specs are out of scope) and the flag.  The hash enters as a Section variable.
   --------------------------------------------------------------------------------------------- *)
Definition canon_spec (spec : list Z) (combining : bool) : list Z * bool := (sort_by (fun x => x) spec, combining).

Section Key.
  Variable hash : list Z * bool -> Z.
  Definition key_suffix (spec : list Z) (combining : bool) : Z := hash (canon_spec spec combining).
  (* (run id, suffix, data type, lineage hash) *)
  Definition data_key (run : Z) (spec : list Z) (combining : bool) (dt lineage : Z) : Z * Z * Z * Z :=
    (run, key_suffix spec combining, dt, lineage).
End Key.

Definition key_eqb (a b : Z * Z * Z * Z) : bool :=
  let '(a1, a2, a3, a4) := a in let '(b1, b2, b3, b4) := b in
  (a1 =? b1) && (a2 =? b2) && (a3 =? b3) && (a4 =? b4).

(* a storage directory: association list, newest first *)
Definition store (V : Type) := list ((Z * Z * Z * Z) * V).
Fixpoint find_key {V} (k : Z * Z * Z * Z) (st : store V) : option V :=
  match st with
  | [] => None
  | (k', v) :: r => if key_eqb k k' then Some v else find_key k r
  end.

(* ---------------------------------------------------------------------------------------------
   stored chunk metadata and the loader
   --------------------------------------------------------------------------------------------- *)
Record stored := mkstored { st_base : chunk; st_sub : option annot }.

(* Saver.save: chunk_info = dict(start, end, run_id, subruns=chunk.subruns, n, ...) *)
Definition save_chunk (c : achunk) : stored := mkstored (abase c) (asub c).

Definition key_z (s : span) : Z := match srun s with None => 0 | Some r => r end.

(* StorageBackend._read_and_format_chunk; the metadata json is written with sort_keys=True *)
Definition load_chunk (s : stored) : res achunk :=
  let b := st_base s in
  let is_sr := match crun b with Some r => r <? 0 | None => false end in
  match st_sub s with
  | None =>
      if is_sr then Err E_LOAD_NO_SUBRUNS
      else mk_achunk (cstart b) (cend b) (crows b) (cdtype b) (ckind b) (crun b) (ctarget b) None None
  | Some l =>
      mk_achunk (cstart b) (cend b) (crows b) (cdtype b) (ckind b) (crun b) (ctarget b)
        (Some (sort_by key_z l)) None
  end.

Fixpoint mapM {A B} (f : A -> res B) (l : list A) : res (list B) :=
  match l with
  | [] => Ok []
  | x :: r => do y <- f x; do ys <- mapM f r; Ok (y :: ys)
  end.

(* concat_loader of check_cache: the sub-run loaders chained in the order of sub_run_spec *)
Definition chained_loader (subruns : list (list stored)) : res (list achunk) :=
  mapM load_chunk (concat subruns).

(* ---------------------------------------------------------------------------------------------
   Plugin.do_compute / superrun_transformation
   --------------------------------------------------------------------------------------------- *)
Record level := mklevel { l_dtype : Z; l_kind : Z; l_rechunk : bool; l_target : Z }.

(* python dict equality: same keys with equal values, whatever the order *)
Definition annot_sub (a b : annot) : bool := forallb (fun x => existsb (span_eqb x) b) a.
Definition annot_dict_eqb (a b : annot) : bool := Nat.eqb (length a) (length b) && annot_sub a b && annot_sub b a.
Definition oannot_dict_eqb (a b : option annot) : bool :=
  match a, b with
  | None, None => true
  | Some x, Some y => annot_dict_eqb x y
  | _, _ => false
  end.

(* Plugin._check_subruns_uniqueness over a non-empty list of inputs *)
Definition check_uniqueness {A} (eqb : A -> A -> bool) (x0 : A) (rest : list A) : res A :=
  if forallb (fun y => eqb y x0) rest then Ok x0 else Err E_NOT_UNIQUE.

Definition set_annots (c : achunk) (sub : option annot) (sup : annot) : achunk := mkachunk (abase c) sub sup.

(* Plugin.superrun_transformation; prun = the plugin's _run_id (negative = superrun) *)
Definition superrun_transformation (prun : Z) (result : achunk) (superrun : annot) (subruns : option annot)
  : res achunk :=
  if (prun <? 0) && negb (existsb (fun s => opt_eqb (srun s) (Some prun)) superrun) then
    do sub <- set_subruns false (Some superrun);
    Ok (set_annots result sub (asuper result))
  else if (1 <? length superrun)%nat then Err E_WEIRD
  else
    do sub <- set_subruns false subruns;
    do sup <- set_superrun (crun (abase result)) (cstart (abase result)) (cend (abase result)) (Some superrun);
    Ok (set_annots result sub sup).

(* Plugin.do_compute for a plugin that always saves (time ranges of the inputs must agree) whose
   compute returns the rows of its first input *)
Definition do_compute (prun : Z) (lv : level) (inp0 : achunk) (others : list achunk) : res achunk :=
  let s := cstart (abase inp0) in
  let e := cend (abase inp0) in
  if negb (forallb (fun c => (cstart (abase c) =? s) && (cend (abase c) =? e)) others) then Err E_INCONSISTENT
  else
    do superrun <- check_uniqueness annot_dict_eqb (asuper inp0) (map asuper others);
    do subruns <- check_uniqueness oannot_dict_eqb (asub inp0) (map asub others);
    do result <- mk_achunk s e (crows (abase inp0)) (l_dtype lv) (l_kind lv) (Some prun) (l_target lv) None None;
    superrun_transformation prun result superrun subruns.

(* Plugin.iter for one dependency: the dependency is the pacemaker; every fetched chunk is
   concatenated onto the (empty) rest of the buffer, split at its own end, computed. *)
Fixpoint iter_loop (allow : bool) (prun : Z) (lv : level) (buffer : achunk) (inputs : list achunk)
  : res (list achunk) :=
  do '(inp, rest) <- asplit buffer (cend (abase buffer)) true;
  do out <- do_compute prun lv inp [];
  match inputs with
  | [] =>
      (* IterDone: "Plugin terminated with leftover" when the input buffer still holds rows *)
      match crows (abase rest) with [] => Ok [out] | _ => Err E_LEFTOVER end
  | c :: more =>
      do buffer' <- aconcatenate [Some rest; Some c] allow;
      do outs <- iter_loop allow prun lv buffer' more;
      Ok (out :: outs)
  end.

Definition plugin_iter (allow : bool) (prun : Z) (lv : level) (inputs : list achunk) : res (list achunk) :=
  match inputs with
  | [] => Err E_EMPTY_INPUT
  | c :: more => iter_loop allow prun lv c more
  end.

(* ---------------------------------------------------------------------------------------------
   Rechunker with is_superrun (concatenate(..., allow_superrun=self.is_superrun)) and the saver
   --------------------------------------------------------------------------------------------- *)
Fixpoint asplit_off (c : achunk) (idxs : list nat) : res (list achunk * achunk) :=
  match idxs with
  | [] => Ok ([], c)
  | i :: rest =>
      match nth_error (crows (abase c)) i with
      | None => Err E_INDEX
      | Some r =>
          do '(c1, c2) <- asplit c (rt r - split_offset) false;
          do '(out, c') <- asplit_off c2 rest;
          Ok (c1 :: out, c')
      end
  end.

Definition areceive (is_sr : bool) (cache : option achunk) (c : achunk) : res (list achunk * option achunk) :=
  do c1 <- match cache with None => Ok c | Some c0 => aconcatenate [Some c0; Some c] is_sr end;
  do splits <- get_splits (crows (abase c1)) (ctarget (abase c1)) DEFAULT_CHUNK_SPLIT_NS;
  do '(out, c') <- asplit_off c1 (nat_diffs splits);
  Ok (out, Some c').

Fixpoint arechunk_from (is_sr : bool) (cache : option achunk) (cs : list achunk) : res (list achunk) :=
  match cs with
  | [] => Ok (match cache with None => [] | Some c => [c] end)
  | c :: rest =>
      do '(out, cache') <- areceive is_sr cache c;
      do more <- arechunk_from is_sr cache' rest;
      Ok (out ++ more)
  end.

(* SaverSpy / Saver.save_from: Rechunker(rechunk, run_id) then one chunk_info per chunk *)
Definition save_stream (rechunk : bool) (run : Z) (cs : list achunk) : res (list stored) :=
  do cs' <- (if rechunk then arechunk_from (run <? 0) None cs else Ok cs);
  Ok (map save_chunk cs').

(* ---------------------------------------------------------------------------------------------
   the whole path of get_iter(superrun, target)
   --------------------------------------------------------------------------------------------- *)

(* the superrun-capable levels bottom-up; every level is saved when write_superruns is on *)
Fixpoint run_levels (prun : Z) (write : bool) (levels : list level) (stream : list achunk)
  : res (list achunk * list (list stored)) :=
  match levels with
  | [] => Ok (stream, [])
  | lv :: more =>
      do s' <- plugin_iter true prun lv stream;
      do saved <- (if write then save_stream (l_rechunk lv) prun s' else Ok []);
      do '(out, savs) <- run_levels prun write more s';
      Ok (out, saved :: savs)
  end.

Definition checked (cs : list achunk) : res (list achunk) :=
  match cs with
  | [] => Err E_NO_CHUNKS
  | _ => match acontinuity_check cs with Some (_, e) => Err e | None => Ok cs end
  end.

(* computed on the fly: subruns = the stored chunks of the level below the first superrun-capable
   level, one list per sub-run, in sub_run_spec order *)
Definition superrun_get (prun : Z) (write : bool) (levels : list level) (subruns : list (list stored))
  : res (list achunk * list (list stored)) :=
  do s0 <- chained_loader subruns;
  do '(out, savs) <- run_levels prun write levels s0;
  do out' <- checked out;
  Ok (out', savs).

(* re-read from a stored superrun *)
Definition superrun_reload (saved : list stored) : res (list achunk) :=
  do cs <- mapM load_chunk saved; checked cs.

(* get_iter(superrun, target, combining=True): the sub-runs' target chunks chained, nothing computed *)
Definition combining_get (subruns : list (list stored)) : res (list achunk) :=
  do cs <- chained_loader subruns; checked cs.

Definition rows_of_stream (cs : list achunk) : list row := flat_map (fun c => crows (abase c)) cs.

(* ---------------------------------------------------------------------------------------------
   the sub-runs themselves: self.make(list(sub_run_spec), target_i, save=(target_i,)) processes each
   sub-run as an ordinary run through the levels below the first superrun-capable one and stores
   the result with that level's saver
   --------------------------------------------------------------------------------------------- *)
Fixpoint run_plain (run : Z) (levels : list level) (stream : list achunk) : res (list achunk) :=
  match levels with
  | [] => Ok stream
  | lv :: more => do s' <- plugin_iter false run lv stream; run_plain run more s'
  end.

(* from the stored chunks `from` of some level up through `levels`, saved by the last level's saver;
   no level = the data is loaded as it is *)
Definition subrun_make (run : Z) (levels : list level) (from : list stored) : res (list stored) :=
  match levels with
  | [] => Ok from
  | _ =>
      do s0 <- mapM load_chunk from;
      do s <- run_plain run levels s0;
      save_stream (l_rechunk (last levels (mklevel 0 0 false 0))) run s
  end.

(* get_iter(superrun, target) from the generated source chunks of every sub-run *)
Definition superrun_full (prun : Z) (write : bool) (low levels : list level) (srcs : list (Z * list stored))
  : res (list achunk * list (list stored)) :=
  do subs <- mapM (fun rs => subrun_make (fst rs) low (snd rs)) srcs;
  superrun_get prun write levels subs.

(* get_iter(superrun, target, combining=True) afterwards: the target of every sub-run is made from its
   stored level below `levels` *)
Definition combining_full (low levels : list level) (srcs : list (Z * list stored)) : res (list achunk) :=
  do subs <- mapM (fun rs => do st <- subrun_make (fst rs) low (snd rs); subrun_make (fst rs) levels st) srcs;
  combining_get subs.

(* ---------------------------------------------------------------------------------------------
   histories of one superrun name on one storage directory: (re)definitions and gets.  The data key of
   the superrun is the canonical serialisation of the CURRENT definition (the hash is injective on these,
   C14_redefinition_changes_key); get_array / make with write_superruns on stores under it unless it is
   stored already.
   --------------------------------------------------------------------------------------------- *)
Fixpoint list_eqb (a b : list Z) : bool :=
  match a, b with
  | [], [] => true
  | x :: a', y :: b' => (x =? y) && list_eqb a' b'
  | _, _ => false
  end.

Inductive hop := HDefine (data : list Z) | HGet (write : bool).
Record hstate := mkh { h_spec : list Z; h_made : list (list Z) }.

Definition h_key (s : hstate) : list Z := fst (canon_spec (h_spec s) false).
Definition h_is_stored (s : hstate) : bool := existsb (list_eqb (h_key s)) (h_made s).
Definition h_step (s : hstate) (op : hop) : hstate :=
  match op with
  | HDefine d => mkh (dedup d) (h_made s)
  | HGet w => if w && negb (h_is_stored s) then mkh (h_spec s) (h_key s :: h_made s) else s
  end.

(* is_stored after every step *)
Fixpoint h_trace (s : hstate) (ops : list hop) : list bool :=
  match ops with
  | [] => []
  | op :: more => let s' := h_step s op in h_is_stored s' :: h_trace s' more
  end.
