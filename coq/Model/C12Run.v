(* Runner-side views of the C12 model used by the extraction cross-check (Eval vm_compute in coqc). *)
From SV Require Import Model.PluginKinds Model.C12Harness.

Definition c12_ctor_code (declared dt : adt) (s e : Z) (rows : list row) : Z :=
  match mk_xchunk declared dt s e rows 1 1 (Some 0) 1 with Ok _ => 0 | Err x => x end.

Definition kind_of_Z (k : Z) : pkind :=
  if k =? 0 then KSource else if k =? 1 then KOrdinary else if k =? 2 then KMulti
  else if k =? 3 then KDown else if k =? 4 then KLoop else if k =? 5 then KCut else KOverlap.

(* (result code, visible src, visible tt, visible uu) *)
Definition c12_cell (kind vk dv which ov : Z) (pos n r : nat) (rechunk ga : bool) : Z * bool * bool * bool :=
  let c := mkcell (kind_of_Z kind) vk dv which ov pos n r rechunk ga in
  (cell_result_code c, cell_visible c L_SRC, cell_visible c L_T, cell_visible c L_U).
