(* Model of strax/processing/peak_building.py::find_peak_groups (the wrapper that clusters peaks
   with find_peaks through fake hits) and strax/processing/peak_merging.py::_add_lone_hits.
   Executable definitions only.  Areas are integers (lone-hit area x integer gain). *)
From SV Require Export Model.Peaks.
Open Scope Z_scope.

(* find_peak_groups(peaks, gap_threshold, left_extension, right_extension, max_duration);
   pk = (time, endtime) of the peaks.  fake_hits: dt = 1, area = 1, channel 0, length = endtime -
   time; adc_to_pe = ones(1), min_area = 0, min_channels = 1.
   Err 2 = AssertionError ("Attempt to create invalid hit", or the asserts of find_peaks);
   Err 1 = the ValueError of find_peaks. *)
Definition fake_hit (te : Z * Z) : hit := mkhit (fst te) (snd te - fst te) 1 0 1.
Definition group_params (gap lext rext maxdur : Z) : fp_params := mkfp gap lext rext 0 1 maxdur.

Definition find_peak_groups (gap lext rext maxdur : Z) (pk : list (Z * Z)) : res (list (Z * Z)) :=
  let fake := map fake_hit pk in
  if forallb (fun h => hlen h >? 0) fake then
    do ps <- find_peaks (group_params gap lext rext maxdur) [1] 1 fake;
    Ok (map (fun p => (pt p, pend p)) ps)
  else Err 2.

(* _add_lone_hits(peaks, lone_hits, to_pe): fc = _fully_contained_in(lone_hits, peaks) is an input
   (modelled for C17: Model/Intervals.v); data_top / data_start are not modelled.
   Err 1 = ValueError("Hit outside of full containment!").  An index equal to len(data) passes the
   test `index > len(p["data"])` and writes beyond the buffer in the real code; here it changes
   nothing (it cannot occur for a contained hit). *)
Record lhit := mklh { lh_t : Z; lh_ch : Z; lh_area : Z }.
Record lpeak := mklp {
  lp_t : Z; lp_len : Z; lp_dt : Z; lp_area : Z; lp_apc : list Z; lp_data : list Z }.
Definition lp0 : lpeak := mklp 0 0 1 0 [] [].

Fixpoint lset {X} (l : list X) (i : nat) (x : X) : list X :=
  match l, i with
  | [], _ => []
  | _ :: r, O => x :: r
  | y :: r, S i' => y :: lset r i' x
  end.

Definition lh_amount (gains : list Z) (h : lhit) : Z := lh_area h * zget gains (lh_ch h).

Definition add_one (gains : list Z) (p : lpeak) (h : lhit) : res lpeak :=
  let a := lh_amount gains h in
  let index := (lh_t h - lp_t p) / lp_dt p in
  if (index <? 0) || (index >? zlen (lp_data p)) then Err 1
  else Ok (mklp (lp_t p) (lp_len p) (lp_dt p) (lp_area p + a)
                (zupd (lp_apc p) (Z.to_nat (lh_ch h)) a) (zupd (lp_data p) (Z.to_nat index) a)).

Fixpoint add_lone_hits (gains : list Z) (peaks : list lpeak) (fc : list Z) (lhs : list lhit)
  : res (list lpeak) :=
  match fc, lhs with
  | i :: fc', h :: lhs' =>
      if i =? -1 then add_lone_hits gains peaks fc' lhs'
      else
        do p' <- add_one gains (nth (Z.to_nat i) peaks lp0) h;
        add_lone_hits gains (lset peaks (Z.to_nat i) p') fc' lhs'
  | _, _ => Ok peaks
  end.
