(* Model of Chunk.merge (chunk.py) with strax.merge_arrs / merged_dtype (utils.py):
   same-kind chunks are merged column-wise.  Arrays are lists of named columns. *)
From SV Require Export Base.Prelude.

Definition E_MERGE_EMPTY : Z := 40.  (* ValueError: need at least one chunk to merge *)
Definition E_MERGE_KIND  : Z := 41.  (* ValueError: different data kinds *)
Definition E_MERGE_RUN   : Z := 42.  (* ValueError: different run_ids *)
Definition E_MERGE_LEN   : Z := 43.  (* ValueError: different number of items *)
Definition E_MERGE_RANGE : Z := 44.  (* ValueError: different time ranges *)

Definition arr := list (Z * list Z).          (* field name id |-> column *)
Definition fields (a : arr) : list Z := map fst a.

Record kchunk := mkk {
  kstart : Z; kend : Z; klen : Z; kkind : Z; krun : Z;
  kdtype : Z;                (* data_type name id: merge sorts the dtypes by it *)
  kdata : arr }.

Fixpoint memz (x : Z) (l : list Z) : bool :=
  match l with [] => false | y :: r => (x =? y) || memz x r end.

(* merged_dtype: first occurrence order over the given list of dtypes *)
Fixpoint add_new (seen : list Z) (fs : list Z) : list Z :=
  match fs with
  | [] => seen
  | f :: r => if memz f seen then add_new seen r else add_new (seen ++ [f]) r
  end.
Definition merged_fields (dts : list (list Z)) : list Z := fold_left add_new dts [].

Fixpoint lookup (f : Z) (a : arr) : option (list Z) :=
  match a with [] => None | (g, col) :: r => if f =? g then Some col else lookup f r end.

(* merge_arrs: result[fn] = arr[fn] for every arr in order: the LAST array having the field wins *)
Fixpoint lookup_last (f : Z) (arrs : list arr) (acc : option (list Z)) : option (list Z) :=
  match arrs with
  | [] => acc
  | a :: r => lookup_last f r (match lookup f a with Some c => Some c | None => acc end)
  end.

Definition merge_arrs (arrs : list arr) (field_order : list Z) (n : Z) : arr :=
  map (fun f => (f, match lookup_last f arrs None with Some c => c | None => [] end)) field_order.

(* insertion sort of the chunks by data_type id (Python sorted is stable) *)
Fixpoint ins_by_dtype (c : kchunk) (l : list kchunk) : list kchunk :=
  match l with
  | [] => [c]
  | d :: r => if kdtype c <? kdtype d then c :: d :: r else d :: ins_by_dtype c r
  end.
Definition sort_by_dtype (l : list kchunk) : list kchunk := fold_right ins_by_dtype [] l.

Definition all_eqb (l : list Z) : bool :=
  match l with [] => true | x :: r => forallb (fun y => y =? x) r end.

Definition merge (cs : list kchunk) (new_dtype : Z) : res kchunk :=
  match cs with
  | [] => Err E_MERGE_EMPTY
  | [c] => Ok c
  | c0 :: _ =>
      if negb (all_eqb (map kkind cs)) then Err E_MERGE_KIND
      else if negb (all_eqb (map krun cs)) then Err E_MERGE_RUN
      else if negb (all_eqb (map klen cs)) then Err E_MERGE_LEN
      else if negb (all_eqb (map kstart cs) && all_eqb (map kend cs)) then Err E_MERGE_RANGE
      else Ok (mkk (kstart c0) (kend c0) (klen c0) (kkind c0) (krun c0) new_dtype
                   (merge_arrs (map kdata cs)
                      (merged_fields (map (fun c => fields (kdata c)) (sort_by_dtype cs))) (klen c0)))
  end.
