(* C01 on top of C08: the alignment of a two-dependency node IS Plugin.iter (Model/PluginIter.v, property C08).
   Executable definitions only.

   The two dependencies are handed to plugin_iter as two data kinds (1, 2): for a loop plugin they are two kinds;
   for a same-kind merge the only difference is that the equal-length / equal-range checks of Chunk.merge are
   then made by Network.run_pair (flag same_kind) instead of PluginIter.merge_check -- the calls are the same.
   save_when = ALWAYS: the strict variant of do_compute's checks and of the leftover check. *)
From SV Require Import Model.PluginIter Model.Overlap.
From SV Require Export Model.Network.

Definition pair_of_call (c : call) : chunk * chunk :=
  (nth 0 (call_inputs c) dummy_chunk, nth 1 (call_inputs c) dummy_chunk).

Definition align_iter (bs : list Z) (s1 s2 : stream) : res calls2 :=
  match plugin_iter SAVEWHEN_ALWAYS [(1, s1); (2, s2)] with
  | (calls, None) => Ok (map pair_of_call calls)
  | (_, Some e) => Err e
  end.

(* the stream of an overlap-window node IS OverlapWindowPlugin.iter (Model/Overlap.v, property C09) for a plugin
   with one output: the chunks it yields, in order, including the final flush of cached_results *)
Definition first_chunk (it : option (list chunk)) : list chunk :=
  match it with Some (c :: _) => [c] | _ => [] end.

Definition ovl_c09 : ovl_t := fun m f wt wl wr sw cs =>
  match ow_iter (mk_ow_params wt wl wr [mk_ow_out f (o_dtype m) (o_kind m)] (o_run m) (o_target m) sw) cs with
  | Ok items => Ok (flat_map first_chunk items)
  | Err e => Err e
  end.
