(* C04 -- file system, file operations, visibility/loading and the saver's *protocol automaton*.

   One data key is modelled (keys are independent: every path a saver touches lies in `<key>` or
   `<key>_temp`; the harness projects the recorded operations per key).

   Mirrors:
     strax/storage/files.py   FileSaver.__init__ / _flush_metadata / _save_chunk / _save_chunk_metadata / _close,
                              FileSytemBackend._get_metadata, DataDirectory._find
     strax/storage/common.py  StorageFrontend.find (check_broken), StorageBackend.loader / _read_and_format_chunk
     strax/io.py              save_file (write `<fn>_temp`, then os.rename to `<fn>`)
   Executable definitions only; proofs are in Proof/FsProtocolProof.v. *)
From SV Require Export Base.Prelude.

(* ------------------------------------------------------------------------------------------ *)
(* Files inside one data directory                                                            *)
(* ------------------------------------------------------------------------------------------ *)

Inductive fname :=
| FMeta                (* <prefix>-metadata.json *)
| FChunk (i : Z)       (* <prefix>-00000i        *)
| FTmp (i : Z).        (* <prefix>-00000i_temp   (save_file's temporary name) *)

Definition fname_eqb (a b : fname) : bool :=
  match a, b with
  | FMeta, FMeta => true
  | FChunk i, FChunk j => i =? j
  | FTmp i, FTmp j => i =? j
  | _, _ => false
  end.

(* What the json metadata says, as far as this property is concerned:
   the chunk list as (chunk_i, n), `writing_ended` present, `exception` present. *)
Record meta := mkMeta { m_chunks : list (Z * Z); m_ended : bool; m_exc : bool }.

(* File contents are abstract: a chunk file holds payload `v` (an identifier of the saved rows) and is
   either complete or a truncated prefix; a metadata file is readable (Some m) or broken json (None). *)
Inductive content :=
| CChunk (v : Z) (complete : bool)
| CMeta (m : option meta).

Definition dir := list (fname * content).

Fixpoint dlookup (d : dir) (f : fname) : option content :=
  match d with
  | [] => None
  | (g, c) :: r => if fname_eqb g f then Some c else dlookup r f
  end.

Fixpoint ddelete (d : dir) (f : fname) : dir :=
  match d with
  | [] => []
  | (g, c) :: r => if fname_eqb g f then ddelete r f else (g, c) :: ddelete r f
  end.

Definition dinsert (d : dir) (f : fname) (c : content) : dir := (f, c) :: ddelete d f.

(* The two directories of the key: `<key>_temp` and `<key>`. *)
Record fs := mkFs { f_temp : option dir; f_final : option dir }.

Definition fs_empty : fs := mkFs None None.

(* ------------------------------------------------------------------------------------------ *)
(* Operations                                                                                 *)
(* ------------------------------------------------------------------------------------------ *)

Inductive op :=
| OMkTemp                  (* os.makedirs(<key>_temp)                                   *)
| ORmTemp                  (* shutil.rmtree(<key>_temp)                                 *)
| ORmFinal                 (* shutil.rmtree(<key>)                                      *)
| OWriteTmp (i v : Z)      (* open/write/close of <key>_temp/<chunk i>_temp, payload v  *)
| ORenameChunk (i : Z)     (* os.rename(<chunk i>_temp, <chunk i>) inside <key>_temp    *)
| OWriteMeta (m : meta)    (* open("w")/write/close of <key>_temp/<metadata>            *)
| ORenameDir               (* os.rename(<key>_temp, <key>)                              *)
| OUpExc                   (* not a file operation: the saver is told that processing failed
                              (exception thrown into save_from / kill_spies)             *)
| OOther.                  (* any other file operation below the two directories         *)

(* What an operation that raised -- or at which the process died -- left behind. *)
Inductive eff :=
| ENone      (* nothing happened                                                       *)
| ETrunc     (* writes only: the file exists but holds a prefix / broken json          *)
| EFull.     (* the operation was carried out completely (error / death right after)   *)

Inductive outcome := Done | Failed (e : eff).
Definition event := (op * outcome)%type.

Definition on_temp (f : fs) (g : dir -> option dir) : option fs :=
  match f_temp f with
  | None => None
  | Some d => match g d with None => None | Some d' => Some (mkFs (Some d') (f_final f)) end
  end.

(* The operation succeeds; None = the OS refuses (FileExistsError, FileNotFoundError, ...). *)
Definition apply_done (f : fs) (o : op) : option fs :=
  match o with
  | OMkTemp => match f_temp f with None => Some (mkFs (Some []) (f_final f)) | Some _ => None end
  | ORmTemp => match f_temp f with Some _ => Some (mkFs None (f_final f)) | None => None end
  | ORmFinal => match f_final f with Some _ => Some (mkFs (f_temp f) None) | None => None end
  | OWriteTmp i v => on_temp f (fun d => Some (dinsert d (FTmp i) (CChunk v true)))
  | ORenameChunk i =>
      on_temp f (fun d => match dlookup d (FTmp i) with
                          | None => None
                          | Some c => Some (dinsert (ddelete d (FTmp i)) (FChunk i) c)
                          end)
  | OWriteMeta m => on_temp f (fun d => Some (dinsert d FMeta (CMeta (Some m))))
  | ORenameDir =>
      match f_temp f, f_final f with
      | Some d, None => Some (mkFs None (Some d))
      | _, _ => None
      end
  | OUpExc => Some f
  | OOther => Some f
  end.

(* The operation raised / the process died at it, leaving effect e.
   ETrunc exists for the two non-atomic writes only. *)
Definition apply_failed (f : fs) (o : op) (e : eff) : option fs :=
  match e with
  | ENone => Some f
  | EFull => apply_done f o
  | ETrunc =>
      match o with
      | OWriteTmp i v => on_temp f (fun d => Some (dinsert d (FTmp i) (CChunk v false)))
      | OWriteMeta m => on_temp f (fun d => Some (dinsert d FMeta (CMeta None)))
      | _ => None
      end
  end.

Definition apply_ev (f : fs) (ev : event) : option fs :=
  match ev with
  | (o, Done) => apply_done f o
  | (o, Failed e) => apply_failed f o e
  end.

Fixpoint run_evs (f : fs) (tr : list event) : option fs :=
  match tr with
  | [] => Some f
  | ev :: r => match apply_ev f ev with None => None | Some f' => run_evs f' r end
  end.

(* ------------------------------------------------------------------------------------------ *)
(* Visibility and loading                                                                     *)
(* ------------------------------------------------------------------------------------------ *)

(* error codes *)
Definition E_NOTAVAIL : Z := 1.   (* strax.DataNotAvailable *)
Definition E_CORRUPT : Z := 2.    (* strax.DataCorrupted     *)
Definition E_NOFILE : Z := 3.     (* FileNotFoundError while reading a chunk *)
Definition E_NOCHUNKS : Z := 4.   (* ValueError: "it has no chunks!" *)
Definition E_EXISTS : Z := 5.     (* strax.DataExistsError *)
Definition E_SAVE : Z := 6.       (* the exception that interrupted processing / saving *)

(* DataDirectory._find (exact match, allow_incomplete=False) + FileSytemBackend._get_metadata:
   the directory `<key>` must exist; its metadata file is read -- and if `<key>` has none, the one of
   `<key>_temp` is tried ("so fast that there exists a temp folder") before giving up. *)
Definition meta_of (f : fs) : res meta :=
  match f_final f with
  | None => Err E_NOTAVAIL
  | Some d =>
      let c := match dlookup d FMeta with
               | Some c => Some c
               | None => match f_temp f with Some t => dlookup t FMeta | None => None end
               end in
      match c with
      | Some (CMeta (Some m)) => Ok m
      | _ => Err E_CORRUPT
      end
  end.

(* StorageFrontend.find with check_broken=True *)
Definition find (f : fs) : res meta :=
  match meta_of f with
  | Err e => Err e
  | Ok m => if m_exc m then Err E_NOTAVAIL
            else if negb (m_ended m) then Err E_NOTAVAIL
            else Ok m
  end.

(* Context.is_stored: DataNotAvailable -> False; DataCorrupted propagates to the caller *)
Definition is_stored (f : fs) : res bool :=
  match find f with
  | Ok _ => Ok true
  | Err e => if e =? E_NOTAVAIL then Ok false else Err e
  end.

Definition visible (f : fs) : bool :=
  match find f with Ok _ => true | Err _ => false end.

(* StorageBackend.loader: every listed chunk with n > 0 is read from `<key>/<chunk i>`; an empty chunk
   has no file.  The result is the list of payloads (None for an empty chunk). *)
Fixpoint load_chunks (d : dir) (cs : list (Z * Z)) : res (list (option Z)) :=
  match cs with
  | [] => Ok []
  | (i, n) :: r =>
      do x <- (if n =? 0 then Ok None
               else match dlookup d (FChunk i) with
                    | None => Err E_NOFILE
                    | Some (CChunk v true) => Ok (Some v)
                    | Some _ => Err E_CORRUPT
                    end);
      do xs <- load_chunks d r;
      Ok (x :: xs)
  end.

Definition load (f : fs) : res (list (option Z)) :=
  match find f with
  | Err e => Err e
  | Ok m =>
      match f_final f with
      | None => Err E_NOTAVAIL
      | Some d => match m_chunks m with
                  | [] => Err E_NOCHUNKS
                  | cs => load_chunks d cs
                  end
      end
  end.

(* The chunks a complete, successful save stores: (chunk_i, n, payload). *)
Definition chunkspec := (Z * Z * Z)%type.
Definition infos (ex : list chunkspec) : list (Z * Z) := map (fun c => (fst (fst c), snd (fst c))) ex.
Definition payloads (ex : list chunkspec) : list (option Z) :=
  map (fun c => if snd (fst c) =? 0 then None else Some (snd c)) ex.

(* ------------------------------------------------------------------------------------------ *)
(* The protocol automaton                                                                     *)
(* ------------------------------------------------------------------------------------------ *)

(* PhClosing / PhDone: after a closing flush without `exception` (the directory is about to become / has become
   valid data).  PhClosingX / PhDoneX: after a closing flush that recorded `exception` (the directory is marked
   broken for good). *)
Inductive phase := PhInit | PhOpen | PhClosing | PhDone | PhClosingX | PhDoneX.

Definition phase_eqb (a b : phase) : bool :=
  match a, b with
  | PhInit, PhInit | PhOpen, PhOpen | PhClosing, PhClosing | PhDone, PhDone
  | PhClosingX, PhClosingX | PhDoneX, PhDoneX => true
  | _, _ => false
  end.

(* A chunk write that was still in flight when the saver closed with `exception` recorded may finish (or fail)
   afterwards -- the real save_from loses the future of the chunk whose metadata flush raised, so close() does not
   wait for it.  That is harmless: the directory can no longer become valid.  After a closing flush *without*
   `exception` nothing but the directory rename is accepted. *)
Definition late_ok (ph : phase) : bool :=
  match ph with PhClosingX | PhDoneX => true | _ => false end.

Record pcfg := mkPcfg {
  p_expected : list chunkspec;   (* what a complete save of this key stores *)
  p_allow_rm : bool              (* the existing `<key>` may be removed (StorageFrontend._can_overwrite) *)
}.

(* p_tmp / p_fin: which temp-named / final-named chunk files inside `<key>_temp` are known to be complete,
   with their payload. *)
Record pst := mkPst {
  p_ph : phase;
  p_failed : bool;               (* some operation failed, or the saver was told processing failed *)
  p_tmp : list (Z * Z);
  p_fin : list (Z * Z)
}.

Definition pst_init : pst := mkPst PhInit false [] [].

Definition rm_i (i : Z) (l : list (Z * Z)) : list (Z * Z) := filter (fun p => negb (fst p =? i)) l.
Fixpoint lookup_i (i : Z) (l : list (Z * Z)) : option Z :=
  match l with
  | [] => None
  | (j, v) :: r => if j =? i then Some v else lookup_i i r
  end.
Definition mem_iv (i v : Z) (l : list (Z * Z)) : bool :=
  match lookup_i i l with Some w => w =? v | None => false end.

Definition pair_eqb (a b : Z * Z) : bool := (fst a =? fst b) && (snd a =? snd b).
Fixpoint list_eqb {A} (eqb : A -> A -> bool) (a b : list A) : bool :=
  match a, b with
  | [], [] => true
  | x :: a', y :: b' => eqb x y && list_eqb eqb a' b'
  | _, _ => false
  end.
Definition mem_pair (p : Z * Z) (l : list (Z * Z)) : bool := existsb (pair_eqb p) l.

(* every chunk of the complete save that has rows is a complete final-named file with the right payload *)
Definition all_final (ex : list chunkspec) (fin : list (Z * Z)) : bool :=
  forallb (fun c => (snd (fst c) =? 0) || mem_iv (fst (fst c)) (snd c) fin) ex.

Definition did (oc : outcome) : bool :=   (* was the effect of the operation carried out? *)
  match oc with Done => true | Failed EFull => true | Failed _ => false end.
Definition is_fail (oc : outcome) : bool := match oc with Done => false | Failed _ => true end.

(* The guard of the closing flush: (iv) `writing_ended` together with `exception` when a failure was
   observed; without `exception` the listing is the complete one and every file is in place (v). *)
Definition closing_ok (c : pcfg) (s : pst) (m : meta) : bool :=
  (negb (p_failed s) || m_exc m) &&
  (m_exc m || (list_eqb pair_eqb (m_chunks m) (infos (p_expected c)) && all_final (p_expected c) (p_fin s))).

(* (iii) a running flush lists only recorded chunk infos (after a failure anything may be listed:
   the directory can no longer become valid) *)
Definition running_ok (c : pcfg) (s : pst) (m : meta) : bool :=
  p_failed s || forallb (fun p => mem_pair p (infos (p_expected c))) (m_chunks m).

Definition pstep (c : pcfg) (s : pst) (ev : event) : option pst :=
  let '(o, oc) := ev in
  let fl := p_failed s || is_fail oc in
  match o with
  | ORmFinal =>
      if phase_eqb (p_ph s) PhInit && p_allow_rm c then Some (mkPst PhInit fl (p_tmp s) (p_fin s)) else None
  | ORmTemp =>
      if phase_eqb (p_ph s) PhInit then Some (mkPst PhInit fl (p_tmp s) (p_fin s)) else None
  | OMkTemp =>
      if phase_eqb (p_ph s) PhInit
      then Some (mkPst (if did oc then PhOpen else PhInit) fl [] [])
      else None
  | OWriteTmp i v =>
      if phase_eqb (p_ph s) PhOpen
      then Some (mkPst PhOpen fl
                   (match oc with
                    | Done | Failed EFull => (i, v) :: rm_i i (p_tmp s)
                    | Failed ETrunc => rm_i i (p_tmp s)
                    | Failed ENone => p_tmp s
                    end)
                   (p_fin s))
      else if late_ok (p_ph s) then Some (mkPst (p_ph s) fl (p_tmp s) (p_fin s))
      else None
  | ORenameChunk i =>
      if phase_eqb (p_ph s) PhOpen
      then Some (if did oc
                 then mkPst PhOpen fl (rm_i i (p_tmp s))
                        (match lookup_i i (p_tmp s) with
                         | Some v => (i, v) :: rm_i i (p_fin s)
                         | None => rm_i i (p_fin s)
                         end)
                 else mkPst PhOpen fl (p_tmp s) (p_fin s))
      else if late_ok (p_ph s) then Some (mkPst (p_ph s) fl (p_tmp s) (p_fin s))
      else None
  | OWriteMeta m =>
      if phase_eqb (p_ph s) PhOpen
      then if m_ended m
           then if closing_ok c s m
                then Some (mkPst (match oc with
                                  | Done => if m_exc m then PhClosingX else PhClosing
                                  | Failed _ => PhOpen
                                  end) fl (p_tmp s) (p_fin s))
                else None
           else if running_ok c s m then Some (mkPst PhOpen fl (p_tmp s) (p_fin s)) else None
      else None
  | ORenameDir =>
      if phase_eqb (p_ph s) PhClosing
      then Some (mkPst (if did oc then PhDone else PhClosing) fl (p_tmp s) (p_fin s))
      else if phase_eqb (p_ph s) PhClosingX
      then Some (mkPst (if did oc then PhDoneX else PhClosingX) fl (p_tmp s) (p_fin s))
      else None
  | OUpExc => Some (mkPst (p_ph s) true (p_tmp s) (p_fin s))
  | OOther => None
  end.

Fixpoint prun (c : pcfg) (s : pst) (tr : list event) : option pst :=
  match tr with
  | [] => Some s
  | ev :: r => match pstep c s ev with None => None | Some s' => prun c s' r end
  end.

Definition accepts (c : pcfg) (tr : list event) : bool :=
  match prun c pst_init tr with Some _ => true | None => false end.

(* index of the first event the automaton rejects (for diagnostics in the harness) *)
Fixpoint first_reject (c : pcfg) (s : pst) (tr : list event) (k : nat) : option nat :=
  match tr with
  | [] => None
  | ev :: r => match pstep c s ev with None => Some k | Some s' => first_reject c s' r (S k) end
  end.

(* A crash cut of a trace: the first k events, optionally followed by the (k+1)-th operation left with
   effect e (process death at that operation, mid-write included). *)
Definition crash_cut (tr : list event) (k : nat) (e : option eff) : list event :=
  match e with
  | None => firstn k tr
  | Some e => match nth_error tr k with
              | Some (o, _) => firstn k tr ++ [(o, Failed e)]
              | None => firstn k tr
              end
  end.
