(* Runner-side views of the C07 model used by the extraction cross-check. *)
From SV Require Import Model.Rows Model.SplitArray.
Definition c07_split_array_str (rs : list row) (t : Z) (early : bool) : option (nat * nat * Z) :=
  match split_array rs t early with
  | None => None
  | Some (l, r, t') => Some (length l, length r, t')
  end.
