(* C02 — canonical serialisation used for every strax hash.
   Mirrors strax/utils.py: hashablize + deterministic_hash (json.dumps of the hashablized tree,
   then SHA-1/base32 — the latter is NOT modelled, see Model/Lineage.v Section variables).

   Names (option names, data types, class names, version strings, string values) are integer
   ids; the harness owns the id <-> string table and guarantees id order = Python str order for
   the strings that are used as dict keys.

   Executable definitions only. *)
From SV Require Import Base.Prelude.

(* JSON-like option values.  VTuple and VList are different Python objects ((1,2) != [1,2]) that
   serialise identically; VDict is an insertion-ordered dict with str keys. *)
Inductive value : Type :=
| VInt (z : Z)
| VStr (s : Z)
| VList (l : list value)
| VTuple (l : list value)
| VDict (d : list (Z * value)).

(* what json.dumps sees after hashablize: dicts became sorted tuples of (key, value) pairs, every
   tuple/list is a JSON array *)
Inductive tv : Type :=
| TInt (z : Z)
| TStr (s : Z)
| TArr (l : list tv).

(* ---------- insertion-ordered association lists (Python dict) ---------- *)
Fixpoint lookup {A} (k : Z) (l : list (Z * A)) : option A :=
  match l with
  | [] => None
  | (k', v) :: r => if k =? k' then Some v else lookup k r
  end.

Definition has_key {A} (k : Z) (l : list (Z * A)) : bool :=
  match lookup k l with Some _ => true | None => false end.

(* d[k] = v : an existing key keeps its position *)
Fixpoint dset {A} (k : Z) (v : A) (l : list (Z * A)) : list (Z * A) :=
  match l with
  | [] => [(k, v)]
  | (k', v') :: r => if k =? k' then (k, v) :: r else (k', v') :: dset k v r
  end.

(* d.update(new) *)
Definition dupdate {A} (l new : list (Z * A)) : list (Z * A) :=
  fold_left (fun acc kv => dset (fst kv) (snd kv) acc) new l.

(* del d[k] *)
Definition ddel {A} (k : Z) (l : list (Z * A)) : list (Z * A) :=
  filter (fun kv => negb (fst kv =? k)) l.

Definition keys {A} (l : list (Z * A)) : list Z := map fst l.

Definition memZ (k : Z) (l : list Z) : bool := existsb (Z.eqb k) l.

(* sorted(d.items()): keys are unique, so only keys are ever compared *)
Fixpoint insert_item {A} (kv : Z * A) (l : list (Z * A)) : list (Z * A) :=
  match l with
  | [] => [kv]
  | kv' :: r => if fst kv <? fst kv' then kv :: kv' :: r
                else if fst kv' <? fst kv then kv' :: insert_item kv r
                else kv :: r    (* duplicate key (cannot happen for a dict): like [lookup], the leftmost wins *)
  end.

Definition sort_items {A} (l : list (Z * A)) : list (Z * A) :=
  fold_right insert_item [] l.

(* ---------- hashablize ---------- *)
Definition pair_arr (kv : Z * tv) : tv := TArr [TStr (fst kv); snd kv].

Fixpoint norm (v : value) : tv :=
  match v with
  | VInt z => TInt z
  | VStr s => TStr s
  | VList l => TArr (map norm l)
  | VTuple l => TArr (map norm l)
  | VDict d =>
      let fix go (d : list (Z * value)) : list (Z * tv) :=
        match d with
        | [] => []
        | (k, x) :: r => (k, norm x) :: go r
        end in
      TArr (map pair_arr (sort_items (go d)))
  end.

Definition norm_items (d : list (Z * value)) : list (Z * tv) :=
  map (fun kv => (fst kv, norm (snd kv))) d.

(* ---------- json.dumps as a token list ----------
   0 z   integer z
   1 s   string with id s
   2 ... 3   array *)
Fixpoint ser (t : tv) : list Z :=
  match t with
  | TInt z => [0; z]
  | TStr s => [1; s]
  | TArr l =>
      let fix go (l : list tv) : list Z :=
        match l with
        | [] => []
        | x :: r => ser x ++ go r
        end in
      2 :: go l ++ [3]
  end.

Definition canon (v : value) : list Z := ser (norm v).

(* ---------- Python == on values (dict comparison ignores insertion order) ---------- *)
Fixpoint list_eqb {A} (eqb : A -> A -> bool) (l1 l2 : list A) : bool :=
  match l1, l2 with
  | [], [] => true
  | x :: r1, y :: r2 => eqb x y && list_eqb eqb r1 r2
  | _, _ => false
  end.

Fixpoint py_eqb (v1 v2 : value) : bool :=
  match v1, v2 with
  | VInt a, VInt b => a =? b
  | VStr a, VStr b => a =? b
  | VList l1, VList l2 =>
      (fix go (l1 l2 : list value) : bool :=
         match l1, l2 with
         | [], [] => true
         | x :: r1, y :: r2 => py_eqb x y && go r1 r2
         | _, _ => false
         end) l1 l2
  | VTuple l1, VTuple l2 =>
      (fix go (l1 l2 : list value) : bool :=
         match l1, l2 with
         | [], [] => true
         | x :: r1, y :: r2 => py_eqb x y && go r1 r2
         | _, _ => false
         end) l1 l2
  | VDict d1, VDict d2 =>
      (Nat.eqb (length d1) (length d2)) &&
      (fix go (d : list (Z * value)) : bool :=
         match d with
         | [] => true
         | (k, x) :: r =>
             match lookup k d2 with
             | Some y => py_eqb x y && go r
             | None => false
             end
         end) d1
  | _, _ => false
  end.

(* what json.loads(json.dumps(v)) returns: tuples come back as lists *)
Fixpoint json_rt (v : value) : value :=
  match v with
  | VInt z => VInt z
  | VStr s => VStr s
  | VList l => VList (map json_rt l)
  | VTuple l => VList (map json_rt l)
  | VDict d =>
      VDict ((fix go (d : list (Z * value)) : list (Z * value) :=
                match d with
                | [] => []
                | (k, x) :: r => (k, json_rt x) :: go r
                end) d)
  end.
