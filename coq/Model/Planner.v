(* C11 — executable model of the strax planner.

   Mirrors (strax/context.py)   Context.get_components with its inner check_cache,
                                Context._target_should_be_saved, Context._add_saver,
                                Context._get_partial_loader_for (the "is it loadable" test),
                                the multi-target rewriting at the top of Context.get_iter,
           (strax/storage/common.py) StorageFrontend._we_take / find(write=False) / find(write=True)
                                as far as DataDirectory frontends decide *whether* they provide or accept,
           (strax/processors/threaded_mailbox.py, single_thread.py + post_office.py)
                                which producer is attached to which topic (mailbox / post-office topic).

   Data types are natural numbers (the harness keeps the id <-> name table), save policies are the
   integer values of strax.SaveWhen taken from Model/SourceConstants.v (regenerated from /repo).
   Superruns, chunk_number and combining are outside this model (C14).  No proofs in this file. *)
From SV Require Export Base.Prelude.
From SV Require Export Model.SourceConstants.

Definition dt := nat.

Definition mem (d : dt) (l : list dt) : bool := existsb (Nat.eqb d) l.

(* error codes carried by [Err] *)
Definition E_DNA : Z := 1.          (* strax.DataNotAvailable *)
Definition E_VALUE : Z := 2.        (* ValueError("Plugin forbids saving of ...") *)
Definition E_FUEL : Z := 3.         (* model artefact: recursion fuel exhausted (excluded by theorem) *)
Definition E_KEY : Z := 4.          (* KeyError: no plugin class registered that provides ... *)
Definition E_RUNTIME : Z := 5.      (* RuntimeError: both computed and loaded / topic already has a producer /
                                       cannot automerge different data kinds *)
Definition E_UNSUPPORTED : Z := 6.  (* outside the modelled domain: fuzzy matching together with allow_incomplete *)

(* ---------------------------------------------------------------------------------------------- *)
(* Plugins and graphs                                                                             *)
(* ---------------------------------------------------------------------------------------------- *)

(* p_out: the outputs (`provides`) with the per-output save policy (`save_when[d]`);
   p_temp: the data type name starts with TEMP_DATA_TYPE_PREFIX (the merge plugin get_iter registers). *)
Record plugin := mkplugin { p_out : list (dt * Z); p_deps : list dt; p_temp : bool }.

Definition p_prov (p : plugin) : list dt := map fst (p_out p).
Definition multi_output (p : plugin) : bool := (1 <? length (p_out p))%nat.

Definition graph := list plugin.

Fixpoint find_plugin (g : graph) (i : nat) (d : dt) : option (nat * plugin) :=
  match g with
  | [] => None
  | p :: r => if mem d (p_prov p) then Some (i, p) else find_plugin r (S i) d
  end.
Definition plugin_of (g : graph) (d : dt) : option (nat * plugin) := find_plugin g 0%nat d.

Fixpoint sw_lookup (o : list (dt * Z)) (d : dt) : Z :=
  match o with
  | [] => SAVEWHEN_ALWAYS
  | (x, s) :: r => if Nat.eqb x d then s else sw_lookup r d
  end.
Definition sw_of (p : plugin) (d : dt) : Z := sw_lookup (p_out p) d.

(* ---------------------------------------------------------------------------------------------- *)
(* Storage frontends (storage/common.py)                                                          *)
(* ---------------------------------------------------------------------------------------------- *)

Record frontend := mkfe { fe_readonly : bool; fe_take_only : list dt; fe_exclude : list dt; fe_stored : list dt }.

(* StorageFrontend._we_take *)
Definition we_take (fe : frontend) (d : dt) : bool :=
  negb (mem d (fe_exclude fe)
        || (negb (match fe_take_only fe with [] => true | _ => false end) && negb (mem d (fe_take_only fe)))).

(* StorageFrontend.find(key, write=False) succeeds *)
Definition fe_finds (fe : frontend) (d : dt) : bool := we_take fe d && mem d (fe_stored fe).

(* Context._get_partial_loader_for(key) is truthy: some frontend (in _sorted_storage order) finds it *)
Definition loadable (fes : list frontend) (d : dt) : bool := existsb (fun fe => fe_finds fe d) fes.

(* StorageFrontend.saver -> find(key, write=True) does not raise DataNotAvailable *)
Definition fe_accepts (fe : frontend) (d : dt) : bool := we_take fe d && negb (fe_readonly fe).

(* Context._add_saver: indices (in _sorted_storage order) of the frontends that get a saver *)
Fixpoint saver_frontends_from (fes : list frontend) (i : nat) (d : dt) : list nat :=
  match fes with
  | [] => []
  | fe :: r => if fe_accepts fe d then i :: saver_frontends_from r (S i) d else saver_frontends_from r (S i) d
  end.
Definition saver_frontends (fes : list frontend) (d : dt) : list nat := saver_frontends_from fes 0%nat d.

(* ---------------------------------------------------------------------------------------------- *)
(* Context configuration and request                                                              *)
(* ---------------------------------------------------------------------------------------------- *)

Record context := mkctx {
  c_fes : list frontend;
  c_forbid : list dt;            (* context_config["forbid_creation_of"] *)
  c_forbid_all : bool;           (* "*" in forbid_creation_of *)
  c_fuzzy : bool;                (* fuzzy_for / fuzzy_for_options non-empty *)
  c_incomplete : bool            (* allow_incomplete *)
}.

Record request := mkreq {
  r_targets : list dt;
  r_save : list dt;
  r_time_range : bool;           (* time_range is not None *)
  r_selection : bool;            (* selection is not None *)
  r_columns : bool               (* keep_columns or drop_columns given *)
}.

(* "the request is partial, fuzzy or tolerant of incomplete data" — the five early returns before saving *)
Definition partial_request (cx : context) (rq : request) : bool :=
  r_time_range rq || r_selection rq || r_columns rq || c_fuzzy cx || c_incomplete cx.

(* ---------------------------------------------------------------------------------------------- *)
(* Context._target_should_be_saved                                                                *)
(* ---------------------------------------------------------------------------------------------- *)

Definition target_should_be_saved (sw : Z) (in_targets in_save : bool) : res bool :=
  if sw =? SAVEWHEN_NEVER then (if in_save then Err E_VALUE else Ok false)
  else if sw =? SAVEWHEN_TARGET then (if negb in_targets then Ok false else Ok true)
  else if sw =? SAVEWHEN_EXPLICIT then (if negb in_save then Ok false else Ok true)
  else Ok true.

Definition should_save (p : plugin) (d : dt) (rq : request) : res bool :=
  target_should_be_saved (sw_of p d) (mem d (r_targets rq)) (mem d (r_save rq)).

(* ---------------------------------------------------------------------------------------------- *)
(* check_cache                                                                                    *)
(* ---------------------------------------------------------------------------------------------- *)

(* lists are kept newest-first; get_components reverses them (dict insertion order) *)
Record pstate := mkst {
  s_seen : list dt;
  s_loaders : list dt;
  s_compute : list dt;                 (* keys of to_compute *)
  s_savers : list (dt * list nat)      (* data type -> frontends (indices) holding a saver; only non-empty lists *)
}.
Definition st0 : pstate := mkst [] [] [] [].

Definition has_saver (sv : list (dt * list nat)) (d : dt) : bool := existsb (fun x => Nat.eqb (fst x) d) sv.

(* the loop `for d_to_save in data_type_to_save` (all outputs of the plugin) *)
Fixpoint add_savers (cx : context) (rq : request) (p : plugin) (outs : list dt) (sv : list (dt * list nat))
  : res (list (dt * list nat)) :=
  match outs with
  | [] => Ok sv
  | d2 :: rest =>
      if loadable (c_fes cx) d2 then add_savers cx rq p rest sv
      else
        do s2 <- should_save p d2 rq;
        if negb s2 || has_saver sv d2 then add_savers cx rq p rest sv
        else
          match saver_frontends (c_fes cx) d2 with
          | [] => add_savers cx rq p rest sv                      (* no frontend can save: no entry is made *)
          | fl => add_savers cx rq p rest ((d2, fl) :: sv)
          end
  end.

(* the part of check_cache after the recursion into the dependencies *)
Definition saver_part (cx : context) (rq : request) (p : plugin) (d : dt) (st : pstate) : res pstate :=
  if p_temp p then Ok st
  else
    do s <- should_save p d rq;
    if negb s && negb (multi_output p) then Ok st
    else if partial_request cx rq then Ok st
    else
      do sv <- add_savers cx rq p (p_prov p) (s_savers st);
      Ok (mkst (s_seen st) (s_loaders st) (s_compute st) sv).

(* `for x in xs: f(x)` over a state with early exit on an exception *)
Fixpoint fold_res {A S : Type} (f : A -> S -> res S) (l : list A) (s : S) : res S :=
  match l with
  | [] => Ok s
  | x :: r => do s' <- f x s; fold_res f r s'
  end.

Definition blocked (cx : context) (rq : request) (p : plugin) (d : dt) : bool :=
  (r_time_range rq && (sw_of p d >? SAVEWHEN_EXPLICIT)) || c_forbid_all cx || mem d (c_forbid cx).

Fixpoint check_cache (fuel : nat) (g : graph) (cx : context) (rq : request) (d : dt) (st : pstate) : res pstate :=
  match fuel with
  | O => Err E_FUEL
  | S f =>
      if mem d (s_seen st) then Ok st
      else
        match plugin_of g d with
        | None => Err E_KEY
        | Some (_, p) =>
            if loadable (c_fes cx) d then
              Ok (mkst (d :: s_seen st) (d :: s_loaders st) (s_compute st) (s_savers st))
            else if blocked cx rq p d then Err E_DNA
            else
              do st3 <- fold_res (check_cache f g cx rq) (p_deps p)
                                 (mkst (d :: s_seen st) (s_loaders st) (d :: s_compute st) (s_savers st));
              saver_part cx rq p d st3
        end
  end.

Definition check_all (fuel : nat) (g : graph) (cx : context) (rq : request) (ds : list dt) (st : pstate) : res pstate :=
  fold_res (check_cache fuel g cx rq) ds st.

(* ---------------------------------------------------------------------------------------------- *)
(* get_components                                                                                 *)
(* ---------------------------------------------------------------------------------------------- *)

Record components := mkcomp {
  k_plugins : list dt;                 (* keys of components.plugins, in insertion order *)
  k_loaders : list dt;                 (* keys of components.loaders, in insertion order *)
  k_savers : list (dt * list nat);     (* components.savers: data type -> frontend indices *)
  k_final : list dt                    (* candidates for components.targets[0] *)
}.

Definition all_provs (g : graph) : list dt := flat_map p_prov g.
(* enough fuel for any well-numbered graph: one more than the largest data-type id *)
Definition gfuel (g : graph) (ds : list dt) : nat := S (S (list_max (all_provs g ++ ds))).

Definition intersects (a b : list dt) : bool := existsb (fun x => mem x b) a.

(* the plugins that will run: indices of the distinct plugin instances in components.plugins, first key *)
Fixpoint plugins_once (g : graph) (keys : list dt) (seen_idx : list nat) : list (dt * nat * plugin) :=
  match keys with
  | [] => []
  | d :: r =>
      match plugin_of g d with
      | None => plugins_once g r seen_idx
      | Some (j, p) => if mem j seen_idx then plugins_once g r seen_idx
                       else (d, j, p) :: plugins_once g r (j :: seen_idx)
      end
  end.
Definition running (g : graph) (c : components) : list (dt * nat * plugin) := plugins_once g (k_plugins c) [].
Definition running_idx (g : graph) (c : components) : list nat := map (fun x => snd (fst x)) (running g c).

(* Context._get_end_targets(plugins) & targets, minus loaders *)
Definition final_candidates (g : graph) (targets plugins loaders : list dt) : list dt :=
  match targets with
  | [_] => targets
  | _ =>
      let run := plugins_once g plugins [] in
      let provides := flat_map (fun x => p_prov (snd x)) run in
      let depends := flat_map (fun x => p_deps (snd x)) run in
      filter (fun t => mem t provides && negb (mem t depends) && negb (mem t loaders)) (nodup Nat.eq_dec targets)
  end.

Definition get_components (g : graph) (cx : context) (rq : request) : res components :=
  if c_fuzzy cx && c_incomplete cx then Err E_UNSUPPORTED
  else
    do st <- check_all (gfuel g (r_targets rq)) g cx rq (r_targets rq) st0;
    if intersects (s_compute st) (s_loaders st) then Err E_RUNTIME
    else
      let pl := rev (s_compute st) in
      let ld := rev (s_loaders st) in
      Ok (mkcomp pl ld (rev (s_savers st)) (final_candidates g (r_targets rq) pl ld)).

(* ---------------------------------------------------------------------------------------------- *)
(* get_iter: several targets of one data kind are merged by a temporary plugin                    *)
(* ---------------------------------------------------------------------------------------------- *)

Definition kind_of (kinds : list nat) (d : dt) : nat := nth d kinds 0%nat.

Fixpoint dedup_keep_order (l : list dt) (acc : list dt) : list dt :=
  match l with
  | [] => rev acc
  | x :: r => if mem x acc then dedup_keep_order r acc else dedup_keep_order r (x :: acc)
  end.

Definition fresh_dt (g : graph) (ds : list dt) : dt := S (list_max (all_provs g ++ ds)).

(* returns the graph (with the merge plugin registered if needed) and the targets handed to get_components;
   single-thread processor / allow_multiple=False: different kinds are an error *)
Definition get_iter_rewrite (g : graph) (kinds : list nat) (targets : list dt) : res (graph * list dt) :=
  match targets with
  | [] => Ok (g, [])
  | [t] => Ok (g, [t])
  | _ =>
      (* `len(targets) > 1` is tested BEFORE duplicates are removed, so ("a", "a") is merged too *)
      match dedup_keep_order targets [] with
      | [] => Ok (g, [])
      | t :: rest =>
          if forallb (fun x => Nat.eqb (kind_of kinds x) (kind_of kinds t)) rest then
            let tmp := fresh_dt g targets in
            Ok (g ++ [mkplugin [(tmp, SAVEWHEN_EXPLICIT)] (t :: rest) true], [tmp])
          else Err E_RUNTIME
      end
  end.

Definition get_iter_plan (g : graph) (kinds : list nat) (cx : context) (rq : request) : res components :=
  do gt <- get_iter_rewrite g kinds (r_targets rq);
  get_components (fst gt) cx (mkreq (snd gt) (r_save rq) (r_time_range rq) (r_selection rq) (r_columns rq)).

(* ---------------------------------------------------------------------------------------------- *)
(* Processor wiring: which producer is attached to which topic                                    *)
(* ---------------------------------------------------------------------------------------------- *)

Inductive origin := OLoader (d : dt) | OPlugin (j : nat).
Definition wiring := list (dt * origin).     (* one entry per (topic, sender) *)

Definition loader_wires (c : components) : wiring := map (fun d => (d, OLoader d)) (k_loaders c).

(* ThreadedMailboxProcessor.__init__ BEFORE /repo commit e1cd0b8 (defect D5; kept as documentation and as the
   alternative the harness tests the code against): the divider of a multi-output plugin gets the
   mailboxes of ALL its outputs ( mailboxes={k: self.mailboxes[k] for k in p.provides} ) and forwards every
   entry of the result dict *)
Definition wiring_pinned (g : graph) (c : components) : wiring :=
  loader_wires c ++
  flat_map (fun x => match x with
                     | (d, j, p) => if multi_output p then map (fun k => (k, OPlugin j)) (p_prov p)
                                    else [(d, OPlugin j)]
                     end) (running g c).

(* ThreadedMailboxProcessor.__init__ since e1cd0b8 (the expected wiring):
   divided = tuple(k for k in p.provides if k not in components.loaders); the divider only feeds those,
   and divide_outputs sends exactly `outputs` *)
Definition wiring_fixed (g : graph) (c : components) : wiring :=
  loader_wires c ++
  flat_map (fun x => match x with
                     | (d, j, p) => if multi_output p
                                    then map (fun k => (k, OPlugin j))
                                             (filter (fun k => negb (mem k (k_loaders c))) (p_prov p))
                                    else [(d, OPlugin j)]
                     end) (running g c).

(* SingleThreadProcessor.__init__ + PostOffice.register_producer: a second producer for a topic is a
   RuntimeError; sub-topics of a multi-output producer that are `registered` (loader-fed) are skipped *)
Fixpoint register_all (j : nat) (topics : list dt) (w : wiring) : res wiring :=
  match topics with
  | [] => Ok w
  | t :: r => if mem t (map fst w) then Err E_RUNTIME else register_all j r (w ++ [(t, OPlugin j)])
  end.

Fixpoint register_plugins (c : components) (run : list (dt * nat * plugin)) (w : wiring) : res wiring :=
  match run with
  | [] => Ok w
  | (d, j, p) :: r =>
      let topics := match p_prov p with
                    | [t] => [t]
                    | ts => filter (fun k => negb (mem k (k_loaders c))) ts
                    end in
      do w' <- register_all j topics w;
      register_plugins c r w'
  end.

Fixpoint register_loaders (ls : list dt) (w : wiring) : res wiring :=
  match ls with
  | [] => Ok w
  | d :: r => if mem d (map fst w) then Err E_RUNTIME else register_loaders r (w ++ [(d, OLoader d)])
  end.

Definition wiring_single (g : graph) (c : components) : res wiring :=
  do w <- register_loaders (k_loaders c) [];
  register_plugins c (running g c) w.

(* topics somebody reads: the final target, the dependencies of every running plugin, every saved type *)
Definition consumed (g : graph) (c : components) : list dt :=
  k_final c ++ flat_map (fun x => p_deps (snd x)) (running g c) ++ map fst (k_savers c).

Definition senders (w : wiring) (t : dt) : list origin :=
  map snd (filter (fun x => Nat.eqb (fst x) t) w).

(* the topics with more than one sender *)
Definition multi_sender_topics (w : wiring) : list dt :=
  nodup Nat.eq_dec (filter (fun t => (1 <? length (senders w t))%nat) (map fst w)).

(* ---------------------------------------------------------------------------------------------- *)
(* Well-formed graphs (boolean; used by the harness, Examples and theorem hypotheses)             *)
(* ---------------------------------------------------------------------------------------------- *)

Fixpoint nodupb (l : list dt) : bool :=
  match l with [] => true | x :: r => negb (mem x r) && nodupb r end.

Definition plugin_ordered (p : plugin) : bool :=
  forallb (fun o => forallb (fun d => (d <? o)%nat) (p_deps p)) (p_prov p).

Definition wf_graphb (g : graph) : bool :=
  forallb plugin_ordered g                                         (* dependencies numbered below outputs *)
  && forallb (fun p => forallb (fun d => mem d (all_provs g)) (p_deps p)) g   (* every dependency is provided *)
  && nodupb (all_provs g)                                          (* one provider per data type *)
  && forallb (fun p => match p_out p with [] => false | _ => true end) g.     (* provides is non-empty *)
