(* C18 model, part 1: records, hits, the hit finder and record linking.
   Mirrors strax/processing/pulse_processing.py: find_hits, _find_hits, record_links.

   Numbers.  Samples, times, lengths, indices are integers (Z).  The float-valued quantities are
   kept as exact dyadic rationals, i.e. integers in fixed units (DESIGN 3.4):
     unit 1/FR   (FR = 16) : baseline, baseline_rms, min_amplitude, min_height_over_noise,
                             hit area, hit height
     unit 1/FR2  (FR2 = 256): the hit threshold  max(min_amplitude, baseline_rms * factor)
   The correspondence harness only generates inputs that are multiples of 1/16, small enough that
   float32/float64 arithmetic on them is exact.

   Error codes of [res]:
     1  ValueError "Too few channel thresholds specified"
     2  ValueError "Caught attempt to save zero-length hit!"
     3  AssertionError (record length larger than the data buffer)
     4  ValueError "Negative channel number?!"            (record_links)
     9  outside the modelled domain (negative channel index into the threshold arrays, a channel
        beyond min_height_over_noise: numba wraps / reads out of bounds there) *)
From SV Require Export Base.Prelude.

Definition FR : Z := 16.
Definition FR2 : Z := 256.

Record rec := mkrec {
  r_time : Z; r_length : Z; r_dt : Z; r_ch : Z; r_plen : Z; r_reci : Z;
  r_area : Z; r_level : Z;
  r_bl : Z;      (* baseline, unit 1/16 *)
  r_rms : Z;     (* baseline_rms, unit 1/16 *)
  r_shift : Z;   (* amplitude_bit_shift *)
  r_data : list Z }.

Record hit := mkhit {
  h_time : Z; h_length : Z; h_dt : Z; h_ch : Z;
  h_area : Z;    (* unit 1/16 *)
  h_left : Z; h_right : Z; h_reci : Z;
  h_thr : Z;     (* unit 1/256 *)
  h_height : Z;  (* unit 1/16 *)
  h_maxtime : Z }.

Definition zlen {A} (l : list A) : Z := Z.of_nat (length l).
Definition nthZ (l : list Z) (j : Z) : Z := if j <? 0 then 0 else nth (Z.to_nat j) l 0.
Definition firstnZ {A} (n : Z) (l : list A) : list A := firstn (Z.to_nat n) l.

(* ---------------------------------------------------------------------------------------- *)
(* _find_hits: the per-sample automaton                                                       *)
(* ---------------------------------------------------------------------------------------- *)

(* local variables of the sample loop that survive an iteration *)
Record fstate := mkfs { f_in : bool; f_start : Z; f_area : Z; f_height : Z; f_mt : Z }.

Definition mk_hit (r : rec) (k thr s e area height mt : Z) : hit :=
  let fp := r_bl r mod FR in                     (* baseline_fpart = r["baseline"] % 1 *)
  {| h_time := r_time r + s * r_dt r; h_length := e - s; h_dt := r_dt r; h_ch := r_ch r;
     h_area := FR * area + (e - s) * fp; h_left := s; h_right := e; h_reci := k; h_thr := thr;
     h_height := FR * height + fp; h_maxtime := mt |}.

(* `for i in range(n_samples)`; xs = the samples not yet visited, i = index of the head.
   Returns the final local state and the hits of this record in the order they are saved. *)
Fixpoint fh_loop (r : rec) (k thr n : Z) (xs : list Z) (i : Z) (st : fstate)
  : res (fstate * list hit) :=
  match xs with
  | [] => Ok (st, [])
  | x :: rest =>
      let sat := thr <=? FR2 * x in                       (* satisfy_threshold = x >= threshold *)
      let tnow := r_time r + i * r_dt r in
      (* if not in_interval and satisfy_threshold: *)
      let st1 :=
        if negb (f_in st) && sat
        then mkfs true i (f_area st) (Z.max x (f_height st))
                  (if x >? f_height st then tnow else f_mt st)
        else st in
      if f_in st1 then
        (* (in_interval', hit_end, area', height', max_time') *)
        let '(inn, hend, a2, h2, m2) :=
          if negb sat then (false, i, f_area st1, f_height st1, f_mt st1)
          else
            let a := f_area st1 + x in
            let m := if x >? f_height st1 then tnow else f_mt st1 in
            let h := Z.max x (f_height st1) in
            if i =? n - 1 then (false, i + 1, a, h, m) else (true, 0, a, h, m) in
        if inn then fh_loop r k thr n rest (i + 1) (mkfs true (f_start st1) a2 h2 m2)
        else if hend =? f_start st1 then Err 2
        else
          match fh_loop r k thr n rest (i + 1) (mkfs false (f_start st1) 0 0 m2) with
          | Ok (st', hs) => Ok (st', mk_hit r k thr (f_start st1) hend a2 h2 m2 :: hs)
          | Err e => Err e
          end
      else fh_loop r k thr n rest (i + 1) st1
  end.

Definition threshold (amp hon : list Z) (r : rec) : Z :=
  let c := Z.to_nat (r_ch r) in
  Z.max (FR * nth c amp 0) (r_rms r * nth c hon 0).

(* `for record_i, r in enumerate(records)`; mt = max_time, the only local that is not
   re-initialised per record *)
Fixpoint fh_records (amp hon : list Z) (rs : list rec) (k : Z) (mt : Z) : res (list hit) :=
  match rs with
  | [] => Ok []
  | r :: rest =>
      if r_ch r <? 0 then Err 9
      else if r_ch r >=? zlen amp then Err 1
      else if r_ch r >=? zlen hon then Err 9
      else
        let thr := threshold amp hon r in
        let n := r_length r in
        if n >? zlen (r_data r) then Err 3
        else
          match fh_loop r k thr n (firstnZ n (r_data r)) 0 (mkfs false (-1) 0 0 mt) with
          | Err e => Err e
          | Ok (st, hs) =>
              match fh_records amp hon rest (k + 1) (f_mt st) with
              | Ok hs' => Ok (hs ++ hs')
              | Err e => Err e
              end
          end
  end.

Definition find_hits_core (amp hon : list Z) (rs : list rec) : res (list hit) :=
  fh_records amp hon rs 0 0.

(* find_hits: scalar thresholds are broadcast to per-channel arrays *)
Inductive targ := Scalar (v : Z) | PerCh (vs : list Z).

Definition max_channel (rs : list rec) : Z :=
  match rs with [] => 0 | r :: rest => zmaxl (r_ch r) (map r_ch rest) end.

Definition bcast (v : Z) (n : Z) : list Z := repeat v (Z.to_nat n).

Definition find_hits (rs : list rec) (amp hon : targ) : res (list hit) :=
  match rs with
  | [] => Ok []
  | _ =>
      let n_channels :=
        match amp, hon with
        | PerCh a, _ => zlen a
        | _, PerCh h => zlen h
        | _, _ => max_channel rs + 1
        end in
      let a := match amp with PerCh a => a | Scalar v => bcast v n_channels end in
      let h := match hon with PerCh h => h | Scalar v => bcast v n_channels end in
      find_hits_core a h rs
  end.

(* ---------------------------------------------------------------------------------------- *)
(* record_links                                                                               *)
(* ---------------------------------------------------------------------------------------- *)

Definition NO_RECORD_LINK : Z := -1.

(* per-channel arrays as association lists channel -> value (absent = initial value) *)
Fixpoint alookup (d : Z) (k : Z) (m : list (Z * Z)) : Z :=
  match m with [] => d | (k', v) :: rest => if k' =? k then v else alookup d k rest end.

(* array assignment a[j] = v with Python/numba wraparound for a negative index *)
Fixpoint set_nth (j : nat) (v : Z) (l : list Z) : list Z :=
  match l, j with
  | [], _ => []
  | _ :: t, O => v :: t
  | x :: t, S j' => x :: set_nth j' v t
  end.
Definition set_idx (j : Z) (v : Z) (l : list Z) : list Z :=
  let j' := if j <? 0 then j + zlen l else j in
  if j' <? 0 then l else set_nth (Z.to_nat j') v l.

(* loop state: previous_record, next_record, last_record_seen, expected_next_start *)
Fixpoint rl_loop (spr : Z) (rs : list rec) (i : Z) (prev next : list Z) (last exp : list (Z * Z))
  : res (list Z * list Z) :=
  match rs with
  | [] => Ok (prev, next)
  | r :: rest =>
      let ch := r_ch r in
      if ch <? 0 then Err 4
      else
        let last_i := alookup NO_RECORD_LINK ch last in
        let '(prev', next') :=
          if r_reci r =? 0 then (set_idx i NO_RECORD_LINK prev, next)
          (* elif last_i != NO_RECORD_LINK and r["time"] == expected_next_start[ch]:   (fix d422fcc) *)
          else if negb (last_i =? NO_RECORD_LINK) && (r_time r =? alookup 0 ch exp)
               then (set_idx i last_i prev, set_idx last_i i next)
          else (prev, next) in
        rl_loop spr rest (i + 1) prev' next' ((ch, i) :: last) ((ch, r_time r + spr * r_dt r) :: exp)
  end.

Definition spr_of (rs : list rec) : Z :=
  match rs with [] => 0 | r :: _ => zlen (r_data r) end.

Definition record_links (rs : list rec) : res (list Z * list Z) :=
  let n := length rs in
  rl_loop (spr_of rs) rs 0 (repeat NO_RECORD_LINK n) (repeat NO_RECORD_LINK n) [] [].

(* The loop as it was at the pinned snapshot (before fix d422fcc): `elif r["time"] ==
   expected_next_start[ch]:` without the last_i guard.  Kept only to document the refuted
   statement C18_record_links_time0_refuted_pinned; nothing else uses it. *)
Fixpoint rl_loop_pinned (spr : Z) (rs : list rec) (i : Z) (prev next : list Z) (last exp : list (Z * Z))
  : res (list Z * list Z) :=
  match rs with
  | [] => Ok (prev, next)
  | r :: rest =>
      let ch := r_ch r in
      if ch <? 0 then Err 4
      else
        let last_i := alookup NO_RECORD_LINK ch last in
        let '(prev', next') :=
          if r_reci r =? 0 then (set_idx i NO_RECORD_LINK prev, next)
          else if r_time r =? alookup 0 ch exp then (set_idx i last_i prev, set_idx last_i i next)
          else (prev, next) in
        rl_loop_pinned spr rest (i + 1) prev' next' ((ch, i) :: last) ((ch, r_time r + spr * r_dt r) :: exp)
  end.

Definition record_links_pinned (rs : list rec) : res (list Z * list Z) :=
  let n := length rs in
  rl_loop_pinned (spr_of rs) rs 0 (repeat NO_RECORD_LINK n) (repeat NO_RECORD_LINK n) [] [].
