(* Runner-side instantiation of the C16 model for extraction: a concrete tagging codec (the file content
   is the pair (compressor id, rows); decoding with another compressor fails), a fixed little file system
   (source directory = path 1, destination = path 2, its temp directory = path 3) and a concrete
   chunk-local plugin computation (row-wise filter + map). *)
From SV Require Import Model.CopyRechunk.

Definition tbytes : Type := (Z * list row)%type.
Definition tenc (k : Z) (rs : list row) : tbytes := (k, rs).
Definition tdec (k : Z) (b : tbytes) : option (list row) := if k =? fst b then Some (snd b) else None.

Definition tstored := stored tbytes.

Definition c16_template (dt kind comp tgt : Z) : tstored := @mkstored tbytes dt kind comp tgt [] 0 0 false false.

(* the directory a saver without rechunking leaves for the stream cs *)
Definition c16_store_of (dt kind comp tgt : Z) (cs : list chunk) : tstored :=
  @close_md tbytes (c16_template dt kind comp tgt) (map (@info_of tbytes tenc comp) cs) false.

Definition c16_load (s : tstored) : res (list chunk) := @load tbytes tdec s None None None.

Definition P_SRC : Z := 1.
Definition P_DST : Z := 2.
Definition P_TMP : Z := 3.

(* dst_state: 0 nothing there, 1 complete data already there, 2 broken remains there *)
Definition c16_fs0 (s : tstored) (dst_state : Z) : fsys tbytes :=
  if dst_state =? 1 then [(P_SRC, s); (P_DST, s)]
  else if dst_state =? 2 then [(P_SRC, s); (P_DST, @failed_md tbytes s)]
  else [(P_SRC, s)].

Definition c16_rechunker (s : tstored) (dst_state : Z) (replace : bool) (comp tgt : option Z) (rechunk : bool)
  : list (fsys tbytes) * res unit :=
  @rechunker_run tbytes tenc tdec (c16_fs0 s dst_state) P_SRC P_DST P_TMP replace comp tgt rechunk.

(* dest_directory resolving to the source directory itself *)
Definition c16_rechunker_same (s : tstored) (comp tgt : option Z) (rechunk : bool)
  : list (fsys tbytes) * res unit :=
  @rechunker_run tbytes tenc tdec [(P_SRC, s)] P_SRC P_SRC P_TMP false comp tgt rechunk.

Definition c16_copy (s : tstored) (dst_state : Z) (comp : option Z) (rechunk : bool) (rechunk_to : Z)
  : list (fsys tbytes) * res unit :=
  @copy_run tbytes tenc tdec (c16_fs0 s dst_state) P_SRC P_DST P_TMP comp rechunk rechunk_to.

Definition c16_onload (s : tstored) (sel : option (list nat)) (tgt : Z) : res (list chunk) :=
  @load tbytes tdec s sel None (Some tgt).

(* the plugin: drop rows whose id is r modulo m (m <= 0: keep all), bump the channel of the others *)
Definition c16_f (m r : Z) (rows : list row) : list row :=
  map (fun q => mkrow (rt q) (re q) (rid q) (rch q + 1))
      (filter (fun q => (m <=? 0) || negb (rid q mod m =? r)) rows).

Definition c16_job (m r : Z) (dep : tstored) (sel : option (list nat)) (md_t : tstored) (rechunk_save : bool)
  : res tstored :=
  @make_from tbytes tenc tdec (c16_f m r) dep sel md_t rechunk_save.

Definition opt_of_res {A} (r : res A) : option A := match r with Ok a => Some a | Err _ => None end.

(* views used by the kernel cross-check of the extraction (vm_compute inside Coq vs. the OCaml driver) *)
Definition c16_shapes (r : res (list chunk)) : option (list (Z * Z * list Z)) :=
  match r with
  | Ok cs => Some (map (fun c => (cstart c, cend c, map rid (crows c))) cs)
  | Err _ => None
  end.
Definition c16_copy_shapes (s : tstored) (dst_state : Z) (comp : option Z) (rechunk : bool) (rechunk_to : Z) :=
  let '(tr, _) := c16_copy s dst_state comp rechunk rechunk_to in
  match lookup P_DST (last tr (c16_fs0 s dst_state)) with
  | Some s' => c16_shapes (c16_load s')
  | None => None
  end.
Definition c16_onload_shapes (s : tstored) (sel : option (list nat)) (tgt : Z) := c16_shapes (c16_onload s sel tgt).

(* all per-chunk jobs, the merge of their results, and the directly made data *)
Definition c16_perchunk (m r : Z) (dep : tstored) (groups : list (list nat)) (md_t : tstored)
           (rechunk_save merge_rechunk : bool) (rechunk_to : Z)
  : list (res tstored) * res (option (list nat)) * res tstored * res tstored :=
  let jobs := map (fun g => c16_job m r dep (Some g) md_t rechunk_save) groups in
  (jobs,
   merge_tag (length (@md_chunks tbytes dep)) groups,
   @merge_run tbytes tenc tdec (map opt_of_res jobs) md_t merge_rechunk rechunk_to,
   c16_job m r dep None md_t rechunk_save).
