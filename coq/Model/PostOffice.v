(* Message-level model of strax.processors.post_office.PostOffice as used by SingleThreadProcessor
   (property C06, single-thread part; also the channel semantics of C01 for this processor).
   Topics are indices into the node list; producers are sources (finite message lists) or 1:1 stages
   that pull one message from each dependency (as reader named after their own topic) and emit
   comb(topic, inputs).  A fault makes one producer raise when it is about to emit a given message. *)
From SV Require Export Base.Prelude.

Inductive node := Src (msgs : list Z) | Stage (deps : list nat).

Record tstate := mkts {
  saved : list (Z * Z);          (* _saved_mail[topic]: (msg_number, msg) *)
  last_prod : Z;                 (* _last_msg_produced[topic], -1 initially *)
  readers : list (nat * Z);      (* _last_msg_read[topic]: reader |-> last number read *)
  done_readers : list nat;       (* _readers_done[topic] *)
  exhausted : bool;              (* topic in _exhausted_topics *)
  has_spy : bool; spy_log : list Z; spy_closed : nat;   (* one saver spy: received msgs, number of close() calls *)
  ppos : nat;                    (* messages the producer has emitted *)
  pdead : bool                   (* the producer generator has finished (returned or raised) *)
}.

Definition state := list tstate.
Inductive outcome := Got (m : Z) | Stop | Raise | OutOfFuel.

(* the final reader of the target topic is named after the target itself (no stage reads its own topic) *)

Definition get (st : state) (t : nat) : tstate :=
  nth t st (mkts [] (-1) [] [] false false [] 0 0 false).
Fixpoint set_nth {A} (l : list A) (i : nat) (x : A) : list A :=
  match l, i with
  | [], _ => []
  | _ :: r, O => x :: r
  | y :: r, S j => y :: set_nth r j x
  end.
Definition upd (st : state) (t : nat) (f : tstate -> tstate) : state := set_nth st t (f (get st t)).

Fixpoint lookup_reader (rs : list (nat * Z)) (r : nat) : Z :=
  match rs with [] => -1 | (r', n) :: rest => if Nat.eqb r r' then n else lookup_reader rest r end.
Fixpoint set_reader (rs : list (nat * Z)) (r : nat) (n : Z) : list (nat * Z) :=
  match rs with
  | [] => [(r, n)]
  | (r', n') :: rest => if Nat.eqb r r' then (r, n) :: rest else (r', n') :: set_reader rest r n
  end.
Fixpoint min_read (rs : list (nat * Z)) (d : Z) : Z :=
  match rs with [] => d | (_, n) :: rest => min_read rest (Z.min d n) end.
Fixpoint find_saved (sv : list (Z * Z)) (n : Z) : option Z :=
  match sv with [] => None | (k, m) :: rest => if k =? n then Some m else find_saved rest n end.

(* _ack_msg_produced *)
Definition ack_produced (ts : tstate) (m : Z) : tstate :=
  let lp := last_prod ts + 1 in
  mkts (match readers ts with [] => saved ts | _ => saved ts ++ [(lp, m)] end) lp (readers ts) (done_readers ts)
       (exhausted ts) (has_spy ts) (if has_spy ts then spy_log ts ++ [m] else spy_log ts) (spy_closed ts)
       (ppos ts) (pdead ts).

(* _ack_reader_recieved *)
Definition ack_reader (ts : tstate) (r : nat) (n : Z) : tstate :=
  let rs := set_reader (readers ts) r n in
  let everyone := match rs with [] => n | (_, n0) :: rest => min_read rest n0 end in
  mkts (filter (fun km => fst km >? everyone) (saved ts)) (last_prod ts) rs (done_readers ts)
       (exhausted ts) (has_spy ts) (spy_log ts) (spy_closed ts) (ppos ts) (pdead ts).

(* _ack_topic_exhausted *)
Definition ack_exhausted (ts : tstate) : tstate :=
  mkts (saved ts) (last_prod ts) (readers ts) (done_readers ts) true (has_spy ts) (spy_log ts)
       (if has_spy ts then S (spy_closed ts) else spy_closed ts) (ppos ts) (pdead ts).

Definition mark_done (ts : tstate) (r : nat) : tstate :=
  mkts (saved ts) (last_prod ts) (readers ts) (done_readers ts ++ [r]) (exhausted ts) (has_spy ts)
       (spy_log ts) (spy_closed ts) (ppos ts) (pdead ts).
Definition set_prod (ts : tstate) (p : nat) (dead : bool) : tstate :=
  mkts (saved ts) (last_prod ts) (readers ts) (done_readers ts) (exhausted ts) (has_spy ts)
       (spy_log ts) (spy_closed ts) p dead.

Section Run.
  Variable g : list node.
  Variable comb : nat -> list Z -> Z.          (* what a stage computes from one message per dependency *)
  Variable fault : option (nat * nat).          (* (topic, position): that producer raises there *)

  Definition faulty (t pos : nat) : bool :=
    match fault with Some (ft, fp) => Nat.eqb ft t && Nat.eqb fp pos | None => false end.

  (* PostOffice._read: one next() of the reader generator of `reader` on `topic`;
     producer_next is next(self._producers[topic]) *)
  Fixpoint pull (fuel : nat) (st : state) (topic reader : nat) {struct fuel} : state * outcome :=
    match fuel with
    | O => (st, OutOfFuel)
    | S f =>
        let ts := get st topic in
        let n := lookup_reader (readers ts) reader + 1 in
        if exhausted ts && (n >? last_prod ts) then (upd st topic (fun ts => mark_done ts reader), Stop)
        else
          match find_saved (saved ts) n with
          | Some m => (upd st topic (fun ts => ack_reader ts reader n), Got m)
          | None =>
              (* _fetch_new *)
              let '(st1, r) :=
                if pdead ts then (st, Stop)
                else
                  match nth_error g topic with
                  | None => (st, Raise)                   (* no producer registered: RuntimeError *)
                  | Some (Src msgs) =>
                      if faulty topic (ppos ts) then (upd st topic (fun ts => set_prod ts (ppos ts) true), Raise)
                      else match nth_error msgs (ppos ts) with
                           | Some m => (upd st topic (fun ts => set_prod ts (S (ppos ts)) false), Got m)
                           | None => (upd st topic (fun ts => set_prod ts (ppos ts) true), Stop)
                           end
                  | Some (Stage deps) =>
                      let fix gather (ds : list nat) (st : state) (acc : list Z) : state * outcome * list Z :=
                        match ds with
                        | [] => (st, Got 0, acc)
                        | d :: rest =>
                            match pull f st d topic with
                            | (st', Got m) => gather rest st' (acc ++ [m])
                            | (st', o) => (st', o, acc)
                            end
                        end in
                      match gather deps st [] with
                      | (st', Got _, inputs) =>
                          let ts' := get st' topic in
                          if faulty topic (ppos ts') then (upd st' topic (fun ts => set_prod ts (ppos ts) true), Raise)
                          else (upd st' topic (fun ts => set_prod ts (S (ppos ts)) false), Got (comb topic inputs))
                      | (st', Stop, _) => (upd st' topic (fun ts => set_prod ts (ppos ts) true), Stop)
                      | (st', o, _) => (upd st' topic (fun ts => set_prod ts (ppos ts) true), o)
                      end
                  end in
              match r with
              | Got m =>
                  let st2 := upd st1 topic (fun ts => ack_produced ts m) in
                  (upd st2 topic (fun ts => ack_reader ts reader n), Got m)
              | Stop =>
                  let st2 := upd st1 topic ack_exhausted in
                  (upd st2 topic (fun ts => mark_done ts reader), Stop)
              | o => (st1, o)
              end
          end
    end.

  (* SingleThreadProcessor.iter: drain the final reader; on an exception kill_spies and re-raise *)
  Fixpoint drain (steps fuel : nat) (st : state) (target : nat) (acc : list Z) : state * res (list Z) :=
    match steps with
    | O => (st, Err 99)
    | S k =>
        match pull fuel st target target with
        | (st', Got m) => drain k fuel st' target (acc ++ [m])
        | (st', Stop) => (st', Ok acc)
        | (st', Raise) =>
            (map (fun ts => if has_spy ts then mkts (saved ts) (last_prod ts) (readers ts) (done_readers ts)
                                   (exhausted ts) true (spy_log ts) (S (spy_closed ts)) (ppos ts) (pdead ts) else ts) st',
             Err 1)
        | (st', OutOfFuel) => (st', Err 99)
        end
    end.

  (* initial state: readers registered for every (dependency, stage) edge and FINAL on the target *)
  Definition init_topic (t : nat) (target : nat) (spy : bool) : tstate :=
    let consumers := flat_map (fun '(i, nd) => match nd with
                                                | Stage deps => if existsb (Nat.eqb t) deps then [(i, -1)] else []
                                                | Src _ => [] end)
                              (combine (seq 0 (length g)) g) in
    mkts [] (-1) (consumers ++ (if Nat.eqb t target then [(t, -1)] else [])) [] false spy [] 0 0 false.
  Definition init (target : nat) (spies : list bool) : state :=
    map (fun '(t, spy) => init_topic t target spy) (combine (seq 0 (length g)) spies).

  (* what the whole run computes: every stage zips its dependencies *)
  Fixpoint zipn (cols : list (list Z)) (fuel : nat) : list (list Z) :=
    match fuel with
    | O => []
    | S f => if existsb (fun c => match c with [] => true | _ => false end) cols then []
             else map (hd 0) cols :: zipn (map (@tl Z) cols) f
    end.
  Fixpoint whole (fuel : nat) (t : nat) : list Z :=
    match fuel with
    | O => []
    | S f => match nth_error g t with
             | None => []
             | Some (Src msgs) => msgs
             | Some (Stage deps) =>
                 match deps with
                 | [] => []     (* a stage without dependencies is not a valid plugin; excluded by wf_graph *)
                 | _ => let cols := map (whole f) deps in
                        map (comb t) (zipn cols (fold_right Nat.max 0%nat (map (@length Z) cols)))
                 end
             end
    end.
End Run.

Definition wf_graph (g : list node) : Prop :=
  forall t deps, nth_error g t = Some (Stage deps) -> deps <> [] /\ Forall (fun d => (d < t)%nat) deps.

(* the stage computation used by the correspondence harness *)
Definition comb_std (t : nat) (inputs : list Z) : Z :=
  fold_left (fun acc x => (acc * 31 + x) mod 1000003) inputs (Z.of_nat t + 7).

Definition run_po (g : list node) (fault : option (nat * nat)) (target : nat) (spies : list bool)
           (steps fuel : nat) : state * res (list Z) :=
  drain g comb_std fault steps fuel (init g target spies) target [].
