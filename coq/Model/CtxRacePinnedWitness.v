(* FROZEN: generated from traced sequential runs of the strax code BEFORE /repo commit d202a14 (call skeletons
   of Context.get_array on the pinned tree, harness of that time).  Concrete refutations of race freedom of
   the pinned transition system (finding D7a / D7b); the interleavings are replayed on the current code by
   harness/props/c15_ctx.py: PINNED_WITNESSES (they must not fail any more). *)
From SV Require Import Base.Prelude Model.CtxRacePinned.

(* wa1: graph [('src', ()), ('aa', ('src',))], targets ('src', 'aa'), cold cache, 2 worker threads x 1 run *)
Definition wa1_cfg : cfgm := (mkcfgm [(1, []); (2, [1]); (1000, [1; 2])] [([1; 2], [1; 2]); ([2], [2]); ([1], [1]); ([1000], [1000])] 400%nat).
Definition wa1_sh : shared := (mkshared (mkdict [(1, 101); (2, 102)] 0%nat) None []).
Definition wa1_progs : list (list task) :=
  [[MGetPlugins [1; 2]; HRegGet 1000 5000; HRead 25 1000; HRead 26 1000; HRead 25 1; HRead 26 1; MGetPlugins [1000]; MKeyFor 1000; MKeyFor 1; MKeyFor 1; MKeyFor 2; MKeyFor 2; HSnap; MEstimate [1000] 0%nat];
   [MGetPlugins [1; 2]; HRegGet 1000 5010; HRead 25 1000; HRead 26 1000; HRead 25 1; HRead 26 1; MGetPlugins [1000]; MKeyFor 1000; MKeyFor 1; MKeyFor 1; MKeyFor 2; MKeyFor 2; HSnap; MEstimate [1000] 0%nat]].
Definition wa1_sched : list nat := rle [(1%nat, 45%nat)].

(* wa2: graph [('src', ()), ('aa', ('src',))], targets ('src', 'aa'), cold cache, 2 worker threads x 1 run *)
Definition wa2_cfg : cfgm := (mkcfgm [(1, []); (2, [1]); (1000, [1; 2])] [([1; 2], [1; 2]); ([2], [2]); ([1], [1]); ([1000], [1000])] 400%nat).
Definition wa2_sh : shared := (mkshared (mkdict [(1, 101); (2, 102)] 0%nat) None []).
Definition wa2_progs : list (list task) :=
  [[MGetPlugins [1; 2]; HRegGet 1000 5000; HRead 25 1000; HRead 26 1000; HRead 25 1; HRead 26 1; MGetPlugins [1000]; MKeyFor 1000; MKeyFor 1; MKeyFor 1; MKeyFor 2; MKeyFor 2; HSnap; MEstimate [1000] 0%nat];
   [MGetPlugins [1; 2]; HRegGet 1000 5010; HRead 25 1000; HRead 26 1000; HRead 25 1; HRead 26 1; MGetPlugins [1000]; MKeyFor 1000; MKeyFor 1; MKeyFor 1; MKeyFor 2; MKeyFor 2; HSnap; MEstimate [1000] 0%nat]].
Definition wa2_sched : list nat := rle [(1%nat, 44%nat)].

(* wb1: graph [('src', ()), ('aa', ('src',))], targets ('aa',), cold cache, 2 worker threads x 1 run *)
Definition wb1_cfg : cfgm := (mkcfgm [(1, []); (2, [1])] [([2], [2]); ([1], [1])] 400%nat).
Definition wb1_sh : shared := (mkshared (mkdict [(1, 101); (2, 102)] 0%nat) None []).
Definition wb1_progs : list (list task) :=
  [[HRead 25 2; HRead 26 2; HRead 25 1; HRead 26 1; MGetPlugins [2]; MKeyFor 2; MKeyFor 1; MKeyFor 1; MKeyFor 2; HSnap; MEstimate [2] 0%nat];
   [HRead 25 2; HRead 26 2; HRead 25 1; HRead 26 1; MGetPlugins [2]; MKeyFor 2; MKeyFor 1; MKeyFor 1; MKeyFor 2; HSnap; MEstimate [2] 0%nat]].
Definition wb1_sched : list nat := rle [(0%nat, 19%nat); (1%nat, 30%nat)].

(* wb2: graph [('src', ()), ('aa', ('src',))], targets ('aa',), cold cache, 2 worker threads x 1 run *)
Definition wb2_cfg : cfgm := (mkcfgm [(1, []); (2, [1])] [([2], [2]); ([1], [1])] 400%nat).
Definition wb2_sh : shared := (mkshared (mkdict [(1, 101); (2, 102)] 0%nat) None []).
Definition wb2_progs : list (list task) :=
  [[HRead 25 2; HRead 26 2; HRead 25 1; HRead 26 1; MGetPlugins [2]; MKeyFor 2; MKeyFor 1; MKeyFor 1; MKeyFor 2; HSnap; MEstimate [2] 0%nat];
   [HRead 25 2; HRead 26 2; HRead 25 1; HRead 26 1; MGetPlugins [2]; MKeyFor 2; MKeyFor 1; MKeyFor 1; MKeyFor 2; HSnap; MEstimate [2] 0%nat]].
Definition wb2_sched : list nat := rle [(0%nat, 17%nat); (1%nat, 31%nat); (0%nat, 1%nat); (1%nat, 10%nat)].

