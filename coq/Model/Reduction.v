(* C18 model, part 2: data reduction and the baseline / integration helpers.
   Mirrors strax/processing/data_reduction.py (cut_outside_hits, _cut_outside_hits, cut_baseline),
   strax/processing/general.py (overlap_indices) and strax/processing/pulse_processing.py
   (zero_out_of_bounds, integrate, baseline).

   Error codes of [res] (in addition to those of Model/Hits.v):
     5  ValueError "Negative interval length passed to overlap test"
     6  RuntimeError "Cannot baseline, missing 0th fragment!"
     9  outside the modelled domain (hit.record_i not an index of the record array; mean of an
        empty baseline window) *)
From SV Require Export Model.Hits.

Definition HITS_ONLY : Z := 2.       (* ReductionLevel.HITS_ONLY *)
Definition BASELINE_CUT : Z := 1.    (* ReductionLevel.BASELINE_CUT *)

Definition set_data (r : rec) (d : list Z) : rec :=
  mkrec (r_time r) (r_length r) (r_dt r) (r_ch r) (r_plen r) (r_reci r) (r_area r) (r_level r)
        (r_bl r) (r_rms r) (r_shift r) d.
Definition set_level (r : rec) (l : Z) : rec :=
  mkrec (r_time r) (r_length r) (r_dt r) (r_ch r) (r_plen r) (r_reci r) (r_area r) l
        (r_bl r) (r_rms r) (r_shift r) (r_data r).
Definition set_area (r : rec) (a : Z) : rec :=
  mkrec (r_time r) (r_length r) (r_dt r) (r_ch r) (r_plen r) (r_reci r) a (r_level r)
        (r_bl r) (r_rms r) (r_shift r) (r_data r).
Definition set_bl (r : rec) (b : Z) (d : list Z) : rec :=
  mkrec (r_time r) (r_length r) (r_dt r) (r_ch r) (r_plen r) (r_reci r) (r_area r) (r_level r)
        b (r_rms r) (r_shift r) d.

(* overlap_indices(a1, n_a, b1, n_b): only the a-range is used by _cut_outside_hits *)
Definition overlap_indices (a1 n_a b1 n_b : Z) : res ((Z * Z) * (Z * Z)) :=
  if (n_a <? 0) || (n_b <? 0) then Err 5
  else if (n_a =? 0) || (n_b =? 0) then Ok ((0, 0), (0, 0))
  else
    let s := a1 - b1 in
    if s <=? - n_a then Ok ((0, 0), (0, 0))
    else
      let b_start := Z.max 0 s in
      let b_end := Z.min n_b (s + n_a) in
      if b_start >=? b_end then Ok ((0, 0), (0, 0))
      else Ok ((Z.max 0 (- s), Z.min n_a (- s + n_b)), (b_start, b_end)).

(* Python slice bounds on a buffer of n elements *)
Definition norm_idx (j n : Z) : Z := if j <? 0 then Z.max 0 (j + n) else Z.min j n.

(* dst[lo:hi] = src[lo:hi] for already normalised bounds; i = index of the heads *)
Fixpoint copy_range (i lo hi : Z) (src dst : list Z) : list Z :=
  match src, dst with
  | s :: ss, d :: ds => (if (lo <=? i) && (i <? hi) then s else d) :: copy_range (i + 1) lo hi ss ds
  | _, _ => dst
  end.
(* dst[lo:hi] = 0 *)
Fixpoint zero_range (i lo hi : Z) (dst : list Z) : list Z :=
  match dst with
  | d :: ds => (if (lo <=? i) && (i <? hi) then 0 else d) :: zero_range (i + 1) lo hi ds
  | [] => []
  end.

Fixpoint upd_nth {A} (j : nat) (f : A -> A) (l : list A) : list A :=
  match l, j with
  | [], _ => []
  | x :: t, O => f x :: t
  | x :: t, S j' => x :: upd_nth j' f t
  end.

Definition data_at (rs : list rec) (j : Z) : list Z :=
  match nth_error rs (Z.to_nat j) with Some r => r_data r | None => [] end.

(* new_recs[j]["data"][lo:hi] = records[j]["data"][lo:hi]  (lo, hi raw Python slice bounds) *)
Definition keep_slice (rs : list rec) (j lo hi : Z) (new : list (list Z)) : list (list Z) :=
  let src := data_at rs j in
  let n := zlen src in
  if j <? 0 then new else
  upd_nth (Z.to_nat j) (copy_range 0 (norm_idx lo n) (norm_idx hi n) src) new.

Definition coh_step (rs : list rec) (spr : Z) (prev next : list Z) (le re : Z) (h : hit)
           (new : list (list Z)) : res (list (list Z)) :=
  let rec_i := h_reci h in
  if (rec_i <? 0) || (rec_i >=? zlen rs) then Err 9
  else
    match nth_error rs (Z.to_nat rec_i) with
    | None => Err 9
    | Some r =>
        let start_keep := h_left h - le in
        let end_keep := h_right h + re in
        match overlap_indices 0 (r_length r) start_keep (end_keep - start_keep) with
        | Err e => Err e
        | Ok ((a, b), _) =>
            let new1 := keep_slice rs rec_i a b new in
            let new2 :=
              if start_keep <? 0 then
                let prev_ri := nthZ prev rec_i in
                if prev_ri =? NO_RECORD_LINK then new1
                else keep_slice rs prev_ri start_keep (zlen (data_at rs prev_ri)) new1  (* data[a_prev:] *)
              else new1 in
            let new3 :=
              if end_keep >? spr then
                let next_ri := nthZ next rec_i in
                if next_ri =? NO_RECORD_LINK then new2
                else keep_slice rs next_ri 0 (end_keep - spr) new2    (* data[:b_next] *)
              else new2 in
            Ok new3
        end
    end.

Fixpoint coh_loop (rs : list rec) (spr : Z) (prev next : list Z) (le re : Z) (hs : list hit)
         (new : list (list Z)) : res (list (list Z)) :=
  match hs with
  | [] => Ok new
  | h :: rest =>
      match coh_step rs spr prev next le re h new with
      | Err e => Err e
      | Ok new' => coh_loop rs spr prev next le re rest new'
      end
  end.

Definition zeros_like (l : list Z) : list Z := map (fun _ => 0) l.

(* cut_outside_hits: metadata copied, reduction level set, data blanked then refilled *)
Definition cut_outside_hits (rs : list rec) (hs : list hit) (le re : Z) : res (list rec) :=
  match rs with
  | [] => Ok []
  | _ =>
      match record_links rs with
      | Err e => Err e
      | Ok (prev, next) =>
          match coh_loop rs (spr_of rs) prev next le re hs (map (fun r => zeros_like (r_data r)) rs) with
          | Err e => Err e
          | Ok new => Ok (map (fun '(r, d) => set_level (set_data r d) HITS_ONLY) (combine rs new))
          end
      end
  end.

(* cut_baseline *)
Definition cut_baseline_rec (spr n_before n_after : Z) (d : rec) : rec :=
  let n := zlen (r_data d) in
  let data1 := if r_reci d =? 0 then zero_range 0 (norm_idx 0 n) (norm_idx n_before n) (r_data d)
               else r_data d in
  let clear_from := Z.max 0 (r_plen d - n_after - r_reci d * spr) in
  let data2 := if clear_from <? spr then zero_range 0 (norm_idx clear_from n) n data1 else data1 in
  set_level (set_data d data2) BASELINE_CUT.

Definition cut_baseline (rs : list rec) (n_before n_after : Z) : list rec :=
  map (cut_baseline_rec (spr_of rs) n_before n_after) rs.

(* zero_out_of_bounds *)
Definition zero_oob_rec (spr : Z) (r : rec) : rec :=
  if r_length r <? spr
  then let n := zlen (r_data r) in set_data r (zero_range 0 (norm_idx (r_length r) n) n (r_data r))
  else r.
Definition zero_out_of_bounds (rs : list rec) : list rec := map (zero_oob_rec (spr_of rs)) rs.

(* integrate.  Python's round() on the exact value num/FR: round half to even *)
Definition round_half_even_div (num den : Z) : Z :=
  let q := num / den in
  let r2 := 2 * (num mod den) in
  if r2 <? den then q else if r2 >? den then q + 1 else if Z.even q then q else q + 1.

Definition integrate_rec (r : rec) : rec :=
  set_area r (zsum (r_data r) * 2 ^ r_shift r + round_half_even_div ((r_bl r mod FR) * r_length r) FR).
Definition integrate (rs : list rec) : list rec := map integrate_rec rs.

(* baseline.  state: last baseline seen per channel (unit 1/16), channels with a 0th fragment seen.
   baseline_rms (a float square root) is not modelled: the field is left untouched. *)
Definition bl_apply (flip : bool) (bl : Z) (r : rec) : rec :=
  let n := zlen (r_data r) in
  let hi := norm_idx (r_length r) n in
  let ib := Z.quot bl FR in                          (* int(bl): truncation toward zero *)
  let newd := map (fun x => if flip then - (x - ib) else x - ib) (r_data r) in
  set_bl r bl (copy_range 0 0 hi newd (r_data r)).

Fixpoint bl_loop (bs : Z) (flip sloppy : bool) (fallback : Z) (rs : list rec)
         (last : list (Z * Z)) (seen : list (Z * Z)) : res (list rec) :=
  match rs with
  | [] => Ok []
  | d :: rest =>
      let ch := r_ch d in
      if ch <? 0 then Err 9
      else
        let step (bl : Z) (last' seen' : list (Z * Z)) :=
          match bl_loop bs flip sloppy fallback rest last' seen' with
          | Ok out => Ok (bl_apply flip bl d :: out)
          | Err e => Err e
          end in
        if r_reci d =? 0 then
          let w := firstnZ (norm_idx bs (zlen (r_data d))) (r_data d) in
          if zlen w =? 0 then Err 9
          else
            let bl := (FR * zsum w) / zlen w in
            step bl ((ch, bl) :: last) ((ch, 1) :: seen)
        else if alookup 0 ch seen =? 0 then
          if sloppy then step (FR * fallback) ((ch, FR * fallback) :: last) seen
          else Err 6
        else step (alookup 0 ch last) last seen
  end.

Definition baseline (rs : list rec) (bs : Z) (flip sloppy : bool) (fallback : Z) : res (list rec) :=
  bl_loop bs flip sloppy fallback rs [] [].
