(* Executable user computations (the `compute` of harness OverlapWindowPlugin subclasses) used by
   the C09 correspondence and as instances of Spec/WindowLocal.v.
   Output rows reuse the row record: rt/re = time/endtime, rid = identity, rch = payload. *)
From SV Require Export Model.Rows.

(* q touches the window (kl, kr) around r, strax.touching_windows convention (strict) *)
Definition nearb (kl kr : Z) (r q : row) : bool :=
  (rt r - kl <? re q) && (rt q <? re r + kr).

(* one output per input row: same extent and id, payload = h r (rows of the input near r) *)
Definition f_row (h : row -> list row -> Z) (I : list row) : list row :=
  map (fun r => mkrow (rt r) (re r) (rid r) (h r I)) I.

Definition h_count (kl kr : Z) (r : row) (I : list row) : Z :=
  Z.of_nat (length (filter (nearb kl kr r) I)).

Definition f_count (kl kr : Z) : list row -> list row := f_row (h_count kl kr).

(* payload that ignores the neighbours: a plain copy (second output of the dual-output plugin) *)
Definition f_copy : list row -> list row := f_row (fun r _ => re r - rt r).

(* one output per gap-separated group: rows whose gap to the previous row is <= G are merged;
   output = (start of first, end of last, id of first, number of rows) *)
Fixpoint group_from (G : Z) (cur : row) (rs : list row) : list row :=
  match rs with
  | [] => [cur]
  | r :: rest =>
      if rt r - re cur <=? G
      then group_from G (mkrow (rt cur) (re r) (rid cur) (rch cur + 1)) rest
      else cur :: group_from G (mkrow (rt r) (re r) (rid r) 1) rest
  end.

Definition f_group (G : Z) (I : list row) : list row :=
  match I with
  | [] => []
  | r :: rest => group_from G (mkrow (rt r) (re r) (rid r) 1) rest
  end.

(* several short output rows per input row: "bricks" of length 2 laid from rt r + off - 2 in steps of 2,
   clipped to the row.  Two such outputs with off = 0 and off = 1 have staggered cut points; they are
   NOT nested, and make cache_beyond walk down one brick per split (used to exercise its trial limit) *)
Definition brick (off : Z) (r : row) (k : nat) : row :=
  let s := rt r + off + 2 * Z.of_nat k - 2 in
  mkrow (Z.max (rt r) s) (Z.min (re r) (s + 2)) (rid r) (Z.of_nat k).
Definition bricks_of (off : Z) (r : row) : list row :=
  filter (fun o => rt o <? re o) (map (brick off r) (seq 0 (Z.to_nat (re r - rt r) + 2))).
Definition f_bricks (off : Z) (I : list row) : list row := flat_map (bricks_of off) I.

(* selection by integer code for the extracted driver: 0 count, 1 copy, 2 group (gap = kl), 3 bricks (off = kl) *)
Definition kernel_of_code (code kl kr : Z) : list row -> list row :=
  if code =? 0 then f_count kl kr
  else if code =? 1 then f_copy
  else if code =? 2 then f_group kl
  else f_bricks kl.
