(* Runner-side view of the C08 model used by the extraction cross-check: calls as
   (start, end, row ids per dependency) and the outcome. *)
From SV Require Import Model.PluginIter.

Definition c08_view (r : list call * option Z) : list (Z * Z * list (list Z)) * option Z :=
  (map (fun c => (call_start c, call_end c, map (fun i => map rid (crows i)) (call_inputs c))) (fst r), snd r).
