(* Model of the sub-run / super-run annotation layer of strax.chunk.Chunk (property C14).

   A python dict  {run_id: {"start": s, "end": e}}  is an insertion-ordered association list of
   spans with pairwise different keys.  Keys are `option Z` because the code itself tests for the key
   None; run ids are integers (the harness keeps the id <-> string table), names starting with "_"
   (superruns) are the negative numbers.

   Mirrors, statement by statement: the `subruns` / `superrun` property setters, _sorted_subruns_check,
   is_superrun, first_subrun / last_subrun, promised_continuity, _split_runs_in_chunk,
   _pop_out_empty_run_id, _merge_runs_in_chunk, _mergable_check, _merge_subruns_in_chunk,
   _merge_superrun_in_chunk, Chunk.__init__ (order of the checks), Chunk.split (with the run-id
   recovery), Chunk.concatenate (with the try/except fall-back to merge mode), Chunk.merge and
   continuity_check with its superrun cases. *)
From SV Require Export Model.Chunk.

(* error codes of this layer (Chunk.v uses 1..23) *)
Definition E_SUB_NONE_KEY_INIT : Z := 40. (* AttributeError: the ValueError message formats {self} before self.data exists *)
Definition E_SUB_NONE_KEY  : Z := 41.  (* ValueError: None as run_id in subrun (setter on a finished chunk) *)
Definition E_OVERLAP       : Z := 42.  (* ValueError: Subruns are overlapping *)
Definition E_SUPER_EMPTY   : Z := 43.  (* ValueError: empty superrun *)
Definition E_SUPER_NONE_KEY: Z := 44.  (* ValueError: None as run_id in superrun *)
Definition E_SUPER_ONE     : Z := 45.  (* ValueError: superrun has only one run_id, run_id should be provided *)
Definition E_NOT_CONT      : Z := 46.  (* ValueError: Chunks are not continuous (run was split into chunks ...) *)
Definition E_MERGE_SPANS   : Z := 47.  (* ValueError: If merging, all chunks should have the same start/end time *)
Definition E_ATTR_RUN_NONE : Z := 48.  (* AttributeError: 'NoneType' object has no attribute 'startswith' *)
Definition E_TYPE_LAST_SUB : Z := 49.  (* TypeError: 'NoneType' object is not subscriptable (continuity_check) *)
Definition E_MERGE_EMPTY   : Z := 50.  (* ValueError: Need at least one chunk to merge *)
Definition E_MERGE_KIND    : Z := 51.  (* ValueError: different data kinds *)
Definition E_MERGE_RUN     : Z := 52.  (* ValueError: different run_ids *)
Definition E_MERGE_LEN     : Z := 53.  (* ValueError: different number of items *)
Definition E_MERGE_RANGE   : Z := 54.  (* ValueError: different time ranges *)
Definition E_NOT_CONTINUOUS_DATA : Z := 55. (* ValueError: Data is not continuous (continuity_check) *)

Record span := mkspan { srun : option Z; sstart : Z; send : Z }.
Definition annot := list span.

Definition span_eqb (a b : span) : bool :=
  opt_eqb (srun a) (srun b) && (sstart a =? sstart b) && (send a =? send b).
Fixpoint annot_eqb (a b : annot) : bool :=
  match a, b with
  | [], [] => true
  | x :: a', y :: b' => span_eqb x y && annot_eqb a' b'
  | _, _ => false
  end.

(* sorted(d.items(), key=start): python's sort is stable = insertion after the last element whose
   key is <= the new one *)
Fixpoint ins_span (x : span) (l : annot) : annot :=
  match l with
  | [] => [x]
  | y :: r => if sstart x <? sstart y then x :: l else y :: ins_span x r
  end.
Definition sort_spans (l : annot) : annot := fold_left (fun acc x => ins_span x acc) l [].

(* _sorted_subruns_check: some span ends after the next one starts *)
Fixpoint overlapb (l : annot) : bool :=
  match l with
  | a :: ((b :: _) as r) => (send a >? sstart b) || overlapb r
  | _ => false
  end.

Definition has_none_key (l : annot) : bool :=
  existsb (fun s => match srun s with None => true | Some _ => false end) l.

(* subruns.setter; in_init = called from __init__ (self.data not yet assigned) *)
Definition set_subruns (in_init : bool) (s : option annot) : res (option annot) :=
  match s with
  | None => Ok None
  | Some l =>
      if has_none_key l then Err (if in_init then E_SUB_NONE_KEY_INIT else E_SUB_NONE_KEY)
      else
        let l' := sort_spans l in
        if overlapb l' then Err E_OVERLAP else Ok (Some l')
  end.

(* superrun.setter of a chunk with the given run id and (integer) range *)
Definition set_superrun (run : option Z) (s e : Z) (sup : option annot) : res annot :=
  let l := match sup with None => [mkspan run s e] | Some l => l end in
  match l with
  | [] => Err E_SUPER_EMPTY
  | _ =>
      if has_none_key l then Err E_SUPER_NONE_KEY
      else if (Nat.eqb (length l) 1) && (match run with None => true | Some _ => false end) then Err E_SUPER_ONE
      else
        let l' := sort_spans l in
        if overlapb l' then Err E_OVERLAP else Ok l'
  end.

Record achunk := mkachunk { abase : chunk; asub : option annot; asuper : annot }.

(* Chunk.__init__: subruns setter first, then the range checks, the superrun setter last *)
Definition mk_achunk (s e : Z) (rows : list row) (dt kind : Z) (run : option Z) (tgt : Z)
           (sub sup : option annot) : res achunk :=
  do sub' <- set_subruns true sub;
  do c <- mk_chunk s e rows dt kind run tgt;
  do sup' <- set_superrun run s e sup;
  Ok (mkachunk c sub' sup').

(* bool(self.subruns) and self.run_id.startswith("_") *)
Definition is_superrun (c : achunk) : res bool :=
  match asub c with
  | None | Some [] => Ok false
  | Some _ => match crun (abase c) with None => Err E_ATTR_RUN_NONE | Some r => Ok (r <? 0) end
  end.

Definition span0 : span := mkspan None 0 0.
Definition subs_of (c : achunk) : annot := match asub c with None => [] | Some l => l end.

Definition first_subrun (c : achunk) : res (option span) :=
  do b <- is_superrun c; Ok (if b then Some (hd span0 (subs_of c)) else None).
Definition last_subrun (c : achunk) : res (option span) :=
  do b <- is_superrun c; Ok (if b then Some (last (subs_of c) span0) else None).

Definition promised_continuity (c : achunk) : res bool :=
  do b <- is_superrun c;
  if negb b then Ok true
  else Ok ((sstart (hd span0 (subs_of c)) =? cstart (abase c)) &&
           (send (last (subs_of c) span0) =? cend (abase c))).

(* _pop_out_empty_run_id *)
Definition pop_empty (l : annot) : annot := filter (fun s => negb (sstart s =? send s)) l.

Definition none_if_empty (l : annot) : option annot := match l with [] => None | _ => Some l end.

(* the if / elif / elif chain of _split_runs_in_chunk, one span at a time *)
Definition split_span_first (t : Z) (s : span) : annot :=
  if t <=? sstart s then []
  else if (sstart s <? t) && (t <? send s) then [mkspan (srun s) (sstart s) t]
  else if send s <=? t then [s]
  else [].
Definition split_span_second (t : Z) (s : span) : annot :=
  if t <=? sstart s then [s]
  else if (sstart s <? t) && (t <? send s) then [mkspan (srun s) t (send s)]
  else [].

Definition split_runs (a : option annot) (t : Z) : option annot * option annot :=
  match a with
  | None => (None, None)
  | Some l =>
      (none_if_empty (pop_empty (flat_map (split_span_first t) l)),
       none_if_empty (pop_empty (flat_map (split_span_second t) l)))
  end.

Definition one_or_none (a : option annot) : bool :=
  match a with None => true | Some l => Nat.eqb (length l) 1 end.

(* Chunk.split *)
Definition asplit (c : achunk) (t0 : Z) (early : bool) : res (achunk * achunk) :=
  let b := abase c in
  let t := Z.max (Z.min t0 (cend b)) (cstart b) in
  let r :=
    if t =? cend b then Some (crows b, [], t)
    else if t =? cstart b then Some ([], crows b, t)
    else split_array (crows b) t early in
  match r with
  | None => Err E_CANNOT_SPLIT
  | Some (d1, d2, t') =>
      (* since /repo bea6d1c the subruns are always split, also when promised_continuity is False *)
      let subs := split_runs (asub c) t' in
      let sups := split_runs (Some (asuper c)) t' in
      let run1 := if one_or_none (fst sups) then srun (hd span0 (asuper c)) else crun b in
      let run2 := if one_or_none (snd sups) then srun (last (asuper c) span0) else crun b in
      do c1 <- mk_achunk (cstart b) (Z.max (cstart b) t') d1 (cdtype b) (ckind b) run1 (ctarget b)
                 (fst subs) (fst sups);
      do c2 <- mk_achunk (Z.max (cstart b) t') (Z.max t' (cend b)) d2 (cdtype b) (ckind b) run2 (ctarget b)
                 (snd subs) (snd sups);
      Ok (c1, c2)
  end.

(* _merge_runs_in_chunk: merged_runs.setdefault(run_id, []).append([start, end]) *)
Definition runmap := list (option Z * list (Z * Z)).
Fixpoint add_run (k : option Z) (se : Z * Z) (m : runmap) : runmap :=
  match m with
  | [] => [(k, [se])]
  | (k', l) :: r => if opt_eqb k k' then (k', l ++ [se]) :: r else (k', l) :: add_run k se r
  end.
Definition merge_runs (a : option annot) (m : runmap) : runmap :=
  match a with
  | None => m
  | Some l => fold_left (fun m s => add_run (srun s) (sstart s, send s) m) l m
  end.

(* list.sort(key=lambda x: x[0]) *)
Fixpoint ins_pair (x : Z * Z) (l : list (Z * Z)) : list (Z * Z) :=
  match l with
  | [] => [x]
  | y :: r => if fst x <? fst y then x :: l else y :: ins_pair x r
  end.
Definition sort_pairs (l : list (Z * Z)) : list (Z * Z) := fold_left (fun acc x => ins_pair x acc) l [].

Fixpoint contiguous_pairs (l : list (Z * Z)) : bool :=
  match l with
  | a :: ((b :: _) as r) => (fst b =? snd a) && contiguous_pairs r
  | _ => true
  end.
Definition same_pairs (l : list (Z * Z)) : bool :=
  match l with
  | [] => true
  | a :: r => forallb (fun b => (fst b =? fst a) && (snd b =? snd a)) r
  end.

(* _mergable_check, both modes *)
Fixpoint mergable_check (m : runmap) (merge : bool) : res annot :=
  match m with
  | [] => Ok []
  | (k, l) :: r =>
      let l' := sort_pairs l in
      if (if merge then same_pairs l' else contiguous_pairs l') then
        do rest <- mergable_check r merge;
        Ok (mkspan k (fst (hd (0, 0) l')) (snd (last l' (0, 0))) :: rest)
      else Err (if merge then E_MERGE_SPANS else E_NOT_CONT)
  end.

Definition merge_subruns (cs : list achunk) (merge : bool) : res (option annot) :=
  do a <- mergable_check (fold_left (fun m c => merge_runs (asub c) m) cs []) merge;
  Ok (none_if_empty a).
Definition merge_superrun (cs : list achunk) (merge : bool) : res annot :=
  mergable_check (fold_left (fun m c => merge_runs (Some (asuper c)) m) cs []) merge.

Definition all_same_run (c0 : achunk) (cs : list achunk) : bool :=
  forallb (fun c => opt_eqb (crun (abase c)) (crun (abase c0))) cs.

(* Chunk.concatenate *)
Definition aconcatenate (ocs : list (option achunk)) (allow_superrun : bool) : res achunk :=
  match somes ocs with
  | [] => Err E_CONCAT_EMPTY
  | [c] => Ok c
  | c0 :: rest =>
      let cs := c0 :: rest in
      if negb (forallb (fun c => cdtype (abase c) =? cdtype (abase c0)) cs) then Err E_CONCAT_DTYPE
      else
        let same_run := all_same_run c0 cs in
        if negb same_run && negb allow_superrun then Err E_CONCAT_RUN
        else
          do sup <- (if same_run then Ok None else do s <- merge_superrun cs false; Ok (Some s));
          do sub <- match merge_subruns cs false with
                    | Ok s => Ok s
                    | Err _ => merge_subruns cs true
                    end;
          if negb (order_ok 0 (map abase cs)) then Err E_CONCAT_ORDER
          else mk_achunk (cstart (abase c0)) (last_end (cend (abase c0)) (map abase rest))
                 (flat_map (fun c => crows (abase c)) cs)
                 (cdtype (abase c0)) (ckind (abase c0))
                 (if same_run then crun (abase c0) else None)
                 (fold_left Z.max (map (fun c => ctarget (abase c)) cs) (ctarget (abase c0)))
                 sub sup
  end.

(* Chunk.merge.  Column merging is not modelled: in the row model every column is shared, and
   strax.merge_arrs takes shared columns from the LAST chunk. dt = the data_type argument. *)
Definition amerge (ocs : list (option achunk)) (dt : Z) : res achunk :=
  match somes ocs with
  | [] => Err E_MERGE_EMPTY
  | [c] => Ok c
  | c0 :: rest =>
      let cs := c0 :: rest in
      if negb (forallb (fun c => ckind (abase c) =? ckind (abase c0)) cs) then Err E_MERGE_KIND
      else if negb (all_same_run c0 cs) then Err E_MERGE_RUN
      else if negb (forallb (fun c => Nat.eqb (length (crows (abase c))) (length (crows (abase c0)))) cs)
      then Err E_MERGE_LEN
      else if negb (forallb (fun c => (cstart (abase c) =? cstart (abase c0)) && (cend (abase c) =? cend (abase c0))) cs)
      then Err E_MERGE_RANGE
      else
        do sub <- merge_subruns cs true;
        do sup <- merge_superrun cs true;
        mk_achunk (cstart (abase c0)) (cend (abase c0)) (crows (abase (last rest c0)))
          dt (ckind (abase c0)) (crun (abase c0))
          (fold_left Z.max (map (fun c => ctarget (abase c)) cs) (ctarget (abase c0)))
          sub (Some sup)
  end.

(* strax.continuity_check.  last_subrun is {"run_id": None} initially (LInit), afterwards whatever
   chunk.last_subrun returned: python None for a chunk that is not a superrun chunk (LNone). *)
Inductive lastsub := LInit | LNone | LSome (s : span).

(* returns None if the whole stream passes, else (index of the offending chunk, error code) *)
Fixpoint acontinuity_from (last_end : option Z) (last_run : option Z) (ls : lastsub) (i : nat)
         (cs : list achunk) : option (nat * Z) :=
  match cs with
  | [] => None
  | c :: rest =>
      let reset := negb (opt_eqb (crun (abase c)) last_run) in
      let le := if reset then None else last_end in
      let ls := if reset then LInit else ls in
      match is_superrun c with
      | Err e => Some (i, e)
      | Ok sr =>
          let le' : res (option Z) :=
            if sr then
              match ls with
              | LNone => Err E_TYPE_LAST_SUB
              | LInit => Ok None      (* a dict key is never None: the run ids differ *)
              | LSome s => if opt_eqb (srun (hd span0 (subs_of c))) (srun s) then Ok (Some (send s)) else Ok None
              end
            else Ok le in
          match le' with
          | Err e => Some (i, e)
          | Ok le' =>
              let bad :=
                match le' with
                | None => false
                | Some e =>
                    match promised_continuity c with
                    | Ok true => negb (cstart (abase c) =? e)
                    | _ => false
                    end
                end in
              if bad then Some (i, E_NOT_CONTINUOUS_DATA)
              else
                acontinuity_from (Some (cend (abase c))) (crun (abase c))
                  (if sr then LSome (last (subs_of c) span0) else LNone) (S i) rest
          end
      end
  end.
Definition acontinuity_check (cs : list achunk) : option (nat * Z) := acontinuity_from None None LInit 0 cs.
