(* Model of time-range / row / column selection on stored data (property C10).

   Mirrors, statement by statement:
     strax/context.py   Context.to_absolute_time_range   -> to_absolute
                        Context.get_iter                 -> get_array1 / get_array2
                                                           (per-chunk apply_selection, "returned no chunks")
                        Context.get_components (saver guard of check_cache) -> creates_saver
                        Context._target_should_be_saved  -> target_should_be_saved
     strax/storage/common.py  StorageBackend.loader (time constraint)  -> pruned / load_chunks
                              StorageBackend.apply_time_range          -> apply_time_range
     strax/utils.py     apply_selection, apply_keep_columns            -> apply_selection
     strax/plugins/plugin.py  Plugin.iter / _fetch_chunk for a MergeOnlyPlugin over two same-kind
                              loader-fed inputs                         -> iter_merge
     strax/chunk.py     Chunk.merge (length / range checks)             -> merge2

   Executable definitions only (no proofs). *)
From SV Require Export Model.Rows Model.SplitArray Model.Chunk Model.SourceConstants.

(* error codes (the harness maps exception class + message to them) *)
Definition E_NO_CHUNK     : Z := 40.  (* ValueError: Invalid time range ..., returned no chunks! *)
Definition E_NO_DATA      : Z := 41.  (* DataCorrupted: No data returned! *)
Definition E_KEEP_DROP    : Z := 42.  (* ValueError: cannot specify both keep_columns and drop_columns *)
Definition E_BAD_MODE     : Z := 43.  (* ValueError: Unknown time_selection *)
Definition E_NO_FIELD     : Z := 44.  (* ValueError: no field of name *)
Definition E_MANY_RANGES  : Z := 45.  (* RuntimeError: Pass no more than one of time_range, ... *)
Definition E_CONTINUITY   : Z := 46.  (* ValueError from continuity_check *)
Definition E_EMPTY_INPUT  : Z := 50.  (* ValueError: Cannot work with empty input buffer *)
Definition E_PREMATURE    : Z := 51.  (* RuntimeError: Tried to get data until .., but .. ended prematurely *)
Definition E_TEN_PASSES   : Z := 52.  (* RuntimeError: unable to get time-consistent inputs *)
Definition E_NOT_EXHAUSTED: Z := 53.  (* RuntimeError: terminated without fetching last *)
Definition E_MERGE_LEN    : Z := 54.  (* ValueError: Cannot merge chunks with different number of items *)
Definition E_MERGE_RANGE  : Z := 55.  (* ValueError: Cannot merge chunks with different time ranges *)
Definition E_FUEL         : Z := 59.  (* model artefact: fuel exhausted (proved unreachable) *)
Definition E_FORBID_SAVE  : Z := 60.  (* ValueError: Plugin forbids saving of .. *)
Definition E_NOT_AVAILABLE: Z := 61.  (* DataNotAvailable: Time range selection assumes data is already available *)

Inductive tmode := FC | Touching | Skip | BadMode.

Definition is_nonempty {A} (o : option (list A)) : bool :=
  match o with Some (_ :: _) => true | _ => false end.

Definition memZ (x : Z) (l : list Z) : bool := existsb (Z.eqb x) l.

(* ------------------------------------------------------------------------------------------ *)
(* strax.apply_selection on a list of records of an arbitrary record type                      *)
(* ------------------------------------------------------------------------------------------ *)
Section ApplySelection.
  Variable T : Type.
  Variable ftime fend : T -> Z.       (* x['time'], strax.endtime(x) *)
  Variable fields : list Z.           (* field ids of the dtype, in dtype order *)
  Variable fval : T -> Z -> Z.        (* value of a field *)

  Definition time_keep (m : tmode) (t0 t1 : Z) (x : T) : bool :=
    match m with
    | FC => (t0 <=? ftime x) && (fend x <=? t1)
    | Touching => (fend x >? t0) && (ftime x <? t1)
    | _ => true
    end.

  (* the column list after keep/drop, None = no projection, Err = missing field *)
  Definition out_fields (keep drop : option (list Z)) : res (list Z) :=
    let keep1 :=
      match drop with
      | Some (d0 :: dr) => Some (filter (fun f => negb (memZ f (d0 :: dr))) fields)
      | _ => keep
      end in
    match keep1 with
    | Some (k0 :: kr) =>
        (* apply_keep_columns: new dtype = fields that are in keep (dtype order);
           then x2[f] = x[f] for f in keep: a name that is no field raises *)
        if forallb (fun f => memZ f fields) (k0 :: kr)
        then Ok (filter (fun f => memZ f (k0 :: kr)) fields)
        else Err E_NO_FIELD
    | _ => Ok fields
    end.

  Definition apply_selection (tr : option (Z * Z)) (m : tmode) (p : T -> bool)
             (keep drop : option (list Z)) (xs : list T) : res (list Z * list (list Z)) :=
    if is_nonempty drop && is_nonempty keep then Err E_KEEP_DROP
    else
      do xs1 <- match tr, m with
                | None, _ => Ok xs
                | Some _, Skip => Ok xs
                | Some _, BadMode => Err E_BAD_MODE
                | Some (t0, t1), _ => Ok (filter (time_keep m t0 t1) xs)
                end;
      let xs2 := filter p xs1 in
      do fs <- out_fields keep drop;
      Ok (fs, map (fun x => map (fval x) fs) xs2).
End ApplySelection.

(* the single-target instance: records are rows (time, endtime, id, channel) *)
Definition row_fields : list Z := [0; 1; 2; 3].
Definition row_fval (r : row) (f : Z) : Z :=
  if f =? 0 then rt r else if f =? 1 then re r else if f =? 2 then rid r else rch r.
Definition apply_selection_rows := apply_selection row rt re row_fields row_fval.

(* ------------------------------------------------------------------------------------------ *)
(* Context.to_absolute_time_range for integer inputs (full_range is never passed by get_iter)  *)
(* ------------------------------------------------------------------------------------------ *)
Definition NS : Z := 1000000000.

(* estimate_run_start_and_end()[0]: run metadata 'start' (already floored to seconds by the code:
   int(timestamp) * 1e9) if available, else the first stored chunk's start floored to seconds;
   0 if neither is available *)
Definition run_start (md_start_s : option Z) (cs : list chunk) : Z :=
  match md_start_s with
  | Some s => s * NS
  | None => match cs with c :: _ => (cstart c / NS) * NS | [] => 0 end
  end.

Definition count_some {A} (o : option A) : Z := match o with Some _ => 1 | None => 0 end.

Definition to_absolute (md_start_s : option Z) (cs : list chunk)
           (time_range seconds_range : option (Z * Z)) (time_within : option row) : res (option (Z * Z)) :=
  (* number of None among (time_range, seconds_range, time_within, full_range=None) must be >= 2 *)
  if 4 - (count_some time_range + count_some seconds_range + count_some time_within) <? 2
  then Err E_MANY_RANGES
  else
    let tr1 := match seconds_range with
               | Some (a, b) => let t0 := run_start md_start_s cs in Some (t0 + NS * a, t0 + NS * b)
               | None => time_range end in
    let tr2 := match time_within with Some r => Some (rt r, re r) | None => tr1 end in
    Ok tr2.

(* ------------------------------------------------------------------------------------------ *)
(* StorageBackend.loader with a time range                                                     *)
(* ------------------------------------------------------------------------------------------ *)
(* "Chunk does not cover any part of range" *)
Definition pruned (t0 t1 : Z) (c : chunk) : bool := (cend c <=? t0) || (t1 <=? cstart c).

Definition apply_time_range (c : chunk) (t0 t1 : Z) : res chunk :=
  do c1 <- (if cstart c <? t0
            then do '(_, r) <- chunk_split c t0 true; Ok r
            else Ok c);
  if cend c1 >? t1 then
    match chunk_split c1 t1 false with
    | Ok (l, _) => Ok l
    | Err e => if e =? E_CANNOT_SPLIT then Ok c1 else Err e
    end
  else Ok c1.

Fixpoint load_chunks (t0 t1 : Z) (cs : list chunk) : res (list chunk) :=
  match cs with
  | [] => Ok []
  | c :: rest =>
      if pruned t0 t1 c then load_chunks t0 t1 rest
      else do c' <- apply_time_range c t0 t1;
           do r' <- load_chunks t0 t1 rest;
           Ok (c' :: r')
  end.

Definition load (tr : option (Z * Z)) (cs : list chunk) : res (list chunk) :=
  match tr with
  | None => Ok cs
  | Some (t0, t1) => load_chunks t0 t1 cs
  end.

(* ------------------------------------------------------------------------------------------ *)
(* get_iter / get_array for one stored target                                                  *)
(* ------------------------------------------------------------------------------------------ *)
Fixpoint mapM {A B} (f : A -> res B) (l : list A) : res (list B) :=
  match l with
  | [] => Ok []
  | x :: r => do y <- f x; do ys <- mapM f r; Ok (y :: ys)
  end.

Record request := mkreq {
  rq_time_range : option (Z * Z);
  rq_seconds_range : option (Z * Z);
  rq_time_within : option row;
  rq_mode : tmode;
  rq_keep : option (list Z);
  rq_drop : option (list Z)
}.

(* the chunk loop of get_iter + np.concatenate of get_array, given the absolute range;
   xss are the record lists of the chunks that reach get_iter *)
Section Collect.
  Variable T : Type.
  Variable sel : list T -> res (list Z * list (list Z)).
  Definition collect (no_chunk_err : Z) (xss : list (list T)) : res (list Z * list (list Z)) :=
    do outs <- mapM sel xss;
    match outs with
    | [] => Err no_chunk_err
    | o0 :: _ => Ok (fst o0, concat (map snd outs))
    end.
End Collect.

Definition no_chunk_code (tr : option (Z * Z)) : Z :=
  match tr with None => E_NO_DATA | Some _ => E_NO_CHUNK end.

Definition get_array_abs (cs : list chunk) (tr : option (Z * Z)) (m : tmode) (p : row -> bool)
           (keep drop : option (list Z)) : res (list Z * list (list Z)) :=
  do loaded <- load tr cs;
  do out <- collect row (apply_selection_rows tr m p keep drop) (no_chunk_code tr) (map crows loaded);
  match continuity_check loaded with
  | Some _ => Err E_CONTINUITY
  | None => Ok out
  end.

Definition get_array1 (md_start_s : option Z) (cs : list chunk) (rq : request) (p : row -> bool)
  : res (list Z * list (list Z)) :=
  do tr <- to_absolute md_start_s cs (rq_time_range rq) (rq_seconds_range rq) (rq_time_within rq);
  get_array_abs cs tr (rq_mode rq) p (rq_keep rq) (rq_drop rq).

(* the oracle of the property: the same selection applied to the full result *)
Definition all_rows (cs : list chunk) : list row := flat_map crows cs.

Definition select_full (cs : list chunk) (tr : option (Z * Z)) (m : tmode) (p : row -> bool)
           (keep drop : option (list Z)) : res (list Z * list (list Z)) :=
  apply_selection_rows tr m p keep drop (all_rows cs).

(* ------------------------------------------------------------------------------------------ *)
(* A small predicate language for the selection strings / callables used by the harness        *)
(* ------------------------------------------------------------------------------------------ *)
Inductive cmp := CEq | CNe | CLt | CLe | CGt | CGe.
Inductive pred :=
| PTrue
| PCmp (f : Z) (c : cmp) (k : Z)     (* field f <cmp> constant k *)
| PAnd (a b : pred) | POr (a b : pred) | PNot (a : pred).

Definition cmp_eval (c : cmp) (a b : Z) : bool :=
  match c with
  | CEq => a =? b | CNe => negb (a =? b) | CLt => a <? b | CLe => a <=? b | CGt => a >? b | CGe => a >=? b
  end.

Section Pred.
  Variable T : Type.
  Variable fval : T -> Z -> Z.
  Fixpoint peval (q : pred) (x : T) : bool :=
    match q with
    | PTrue => true
    | PCmp f c k => cmp_eval c (fval x f) k
    | PAnd a b => peval a x && peval b x
    | POr a b => peval a x || peval b x
    | PNot a => negb (peval a x)
    end.
  (* selection = sequence of strings -> " & ".join *)
  Definition peval_all (qs : list pred) (x : T) : bool := forallb (fun q => peval q x) qs.
End Pred.

(* ------------------------------------------------------------------------------------------ *)
(* The failing class: the records a time-range load loses (see Proof/SelectionProof.v)         *)
(* ------------------------------------------------------------------------------------------ *)
(* A zero-length record exactly on an edge of a fully_contained range is returned or not
   depending on the stored chunk it sits in:
     - at t0: lost iff it is the tail of the chunk that ends at t0 (that chunk is pruned);
     - at t1: lost iff its chunk is pruned (it starts at t1, or t0 = t1 and it ends there) or
              ends after t1 without a row straddling t1 (Chunk.split puts it to the right). *)
Definition lost (t0 t1 : Z) (c : chunk) (r : row) : bool :=
  (rt r =? re r) && (t0 <=? t1) &&
  (((rt r =? t0) && (cend c <=? t0))
   || ((rt r =? t1) &&
       (pruned t0 t1 c || ((t1 <? cend c) && negb (existsb (fun q => straddlesb q t1) (crows c)))))).

(* ------------------------------------------------------------------------------------------ *)
(* Two same-kind stored targets requested together: get_iter registers a MergeOnlyPlugin       *)
(* depending on both; its Plugin.iter is fed by the two loaders.                               *)
(* ------------------------------------------------------------------------------------------ *)
(* Plugin._fetch_chunk: None = source exhausted *)
Definition fetch (buf : option chunk) (it : list chunk) : res (option (chunk * list chunk)) :=
  match it with
  | [] => Ok None
  | c :: rest => do b <- concatenate [buf; Some c] false; Ok (Some (b, rest))
  end.

(* while buffer.end < this_chunk_end: fetch (check_end_not_before) *)
Fixpoint fetch_until (fuel : nat) (buf : chunk) (it : list chunk) (this_end : Z) : res (chunk * list chunk) :=
  if cend buf <? this_end then
    match fuel with
    | O => Err E_FUEL
    | S f =>
        do o <- fetch (Some buf) it;
        match o with
        | None => Err E_PREMATURE
        | Some (b, it') => fetch_until f b it' this_end
        end
    end
  else Ok (buf, it).

(* Chunk.merge of two chunks of one kind: the checks that can fail for loader-fed inputs *)
Definition merge2 (a b : chunk) : res (Z * Z * list (row * row)) :=
  if negb (Nat.eqb (length (crows a)) (length (crows b))) then Err E_MERGE_LEN
  else if negb ((cstart a =? cstart b) && (cend a =? cend b)) then Err E_MERGE_RANGE
  else Ok (cstart a, cend a, combine (crows a) (crows b)).

(* the re-trim passes ("If any of the inputs were trimmed due to early splits, trim the others too") *)
Fixpoint retrim (passes : nat) (ia ib ba bb : chunk) (this_end : Z) : res (chunk * chunk * chunk * chunk) :=
  match passes with
  | O => Err E_TEN_PASSES
  | S n =>
      let this_end' := Z.min (Z.min (cend ia) (cend ib)) this_end in
      if cend ia =? cend ib then Ok (ia, ib, ba, bb)
      else
        do '(ia', backa) <- chunk_split ia this_end' true;
        do ba' <- concatenate [Some backa; Some ba] false;
        do '(ib', backb) <- chunk_split ib this_end' true;
        do bb' <- concatenate [Some backb; Some bb] false;
        retrim n ia' ib' ba' bb' this_end'
  end.

Definition max_passes : nat := Z.to_nat ITER_MAX_PASSES.

(* one pass of the `for chunk_i` loop; pm_is_b = the pacemaker is the second dependency.
   Returns None when the pacemaker is exhausted (IterDone). *)
Definition iter_step (first pm_is_b : bool) (ba bb : chunk) (ita itb : list chunk)
  : res (option ((Z * Z * list (row * row)) * chunk * chunk * list chunk * list chunk)) :=
  do o <- (if first then Ok (Some (ba, bb, ita, itb))
           else if pm_is_b
                then do f <- fetch (Some bb) itb;
                     Ok (match f with None => None | Some (b, it') => Some (ba, b, ita, it') end)
                else do f <- fetch (Some ba) ita;
                     Ok (match f with None => None | Some (b, it') => Some (b, bb, it', itb) end));
  match o with
  | None => Ok None
  | Some (ba, bb, ita, itb) =>
      let this_end := if pm_is_b then cend bb else cend ba in
      (* for d in depends_on: fetch the non-pacemaker until it covers this_end, split every buffer *)
      do '(ba1, ita1) <- (if pm_is_b then fetch_until (S (length ita)) ba ita this_end else Ok (ba, ita));
      do '(ia, ba2) <- chunk_split ba1 this_end true;
      do '(bb1, itb1) <- (if pm_is_b then Ok (bb, itb) else fetch_until (S (length itb)) bb itb this_end);
      do '(ib, bb2) <- chunk_split bb1 this_end true;
      do '(ia', ib', ba3, bb3) <- retrim max_passes ia ib ba2 bb2 this_end;
      do m <- merge2 ia' ib';
      Ok (Some (m, ba3, bb3, ita1, itb1))
  end.

Fixpoint iter_loop (fuel : nat) (first pm_is_b : bool) (ba bb : chunk) (ita itb : list chunk)
  : res (list (Z * Z * list (row * row))) :=
  match fuel with
  | O => Err E_FUEL
  | S f =>
      do s <- iter_step first pm_is_b ba bb ita itb;
      match s with
      | None =>
          (* IterDone: every source must be exhausted; MergeOnlyPlugin.save_when = EXPLICIT so the
             "terminated with leftover" check is skipped *)
          do fa <- fetch (Some ba) ita;
          match fa with
          | Some _ => Err E_NOT_EXHAUSTED
          | None => do fb <- fetch (Some bb) itb;
                    match fb with Some _ => Err E_NOT_EXHAUSTED | None => Ok [] end
          end
      | Some (m, ba', bb', ita', itb') =>
          do rest <- iter_loop f false pm_is_b ba' bb' ita' itb';
          Ok (m :: rest)
      end
  end.

Definition iter_merge (sa sb : list chunk) : res (list (Z * Z * list (row * row))) :=
  do fa <- fetch None sa;
  match fa with
  | None => Err E_EMPTY_INPUT
  | Some (ba, ita) =>
      do fb <- fetch None sb;
      match fb with
      | None => Err E_EMPTY_INPUT
      | Some (bb, itb) =>
          (* whoever ends first (strictly) becomes the pacemaker *)
          let pm_is_b := cend bb <? cend ba in
          iter_loop (length sa + length sb + 2) true pm_is_b ba bb ita itb
      end
  end.

(* merged records: fields time, endtime, id, channel (first target) then idb, x (second target);
   on a name collision Chunk.merge takes the LAST chunk's value (time, endtime of the second) *)
Definition pair_fields : list Z := [0; 1; 2; 3; 4; 5].
Definition pair_time (x : row * row) : Z := rt (snd x).
Definition pair_end (x : row * row) : Z := re (snd x).
Definition pair_fval (x : row * row) (f : Z) : Z :=
  if f =? 0 then rt (snd x) else if f =? 1 then re (snd x)
  else if f =? 2 then rid (fst x) else if f =? 3 then rch (fst x)
  else if f =? 4 then rid (snd x) else rch (snd x).
Definition apply_selection_pairs := apply_selection (row * row) pair_time pair_end pair_fields pair_fval.

Fixpoint contiguous_from (prev : option Z) (l : list (Z * Z * list (row * row))) : bool :=
  match l with
  | [] => true
  | (s, e, _) :: rest =>
      match prev with Some pe => (s =? pe) | None => true end && contiguous_from (Some e) rest
  end.

Definition get_array2_abs (csa csb : list chunk) (tr : option (Z * Z)) (m : tmode)
           (p : row * row -> bool) (keep drop : option (list Z)) : res (list Z * list (list Z)) :=
  do la <- load tr csa;
  do lb <- load tr csb;
  do merged <- iter_merge la lb;
  do out <- collect (row * row) (apply_selection_pairs tr m p keep drop) (no_chunk_code tr)
                    (map (fun x => snd x) merged);
  if contiguous_from None merged then Ok out else Err E_CONTINUITY.

Definition get_array2 (md_start_s : option Z) (csa csb : list chunk) (rq : request) (p : row * row -> bool)
  : res (list Z * list (list Z)) :=
  (* estimate_run_start_and_end looks at the targets in order; the first stored one decides *)
  do tr <- to_absolute md_start_s csa (rq_time_range rq) (rq_seconds_range rq) (rq_time_within rq);
  get_array2_abs csa csb tr (rq_mode rq) p (rq_keep rq) (rq_drop rq).

Definition select_full2 (csa csb : list chunk) (tr : option (Z * Z)) (m : tmode)
           (p : row * row -> bool) (keep drop : option (list Z)) : res (list Z * list (list Z)) :=
  apply_selection_pairs tr m p keep drop (combine (all_rows csa) (all_rows csb)).

(* ------------------------------------------------------------------------------------------ *)
(* get_components: does a not-stored target get a saver?  (check_cache, after "loader" failed)  *)
(* ------------------------------------------------------------------------------------------ *)
Record target_info := mktarget {
  ti_save_when : Z;            (* SaveWhen value *)
  ti_is_target : bool;         (* target in targets *)
  ti_in_save : bool;           (* target in save *)
  ti_temp : bool;              (* name starts with _temp *)
  ti_stored : bool             (* a loader was found *)
}.

Record ctx_flags := mkflags {
  cf_superrun_nowrite : bool;  (* is_superrun and not write_superruns *)
  cf_fuzzy : bool;             (* any fuzzy_for / fuzzy_for_options *)
  cf_allow_incomplete : bool
}.

(* Context._target_should_be_saved *)
Definition target_should_be_saved (t : target_info) : res bool :=
  if ti_save_when t =? SAVEWHEN_NEVER then
    (if ti_in_save t then Err E_FORBID_SAVE else Ok false)
  else if ti_save_when t =? SAVEWHEN_TARGET then Ok (ti_is_target t)
  else if ti_save_when t =? SAVEWHEN_EXPLICIT then Ok (ti_in_save t)
  else Ok true.

(* what makes a request partial for get_components *)
Record partial_flags := mkpartial {
  pf_time_range : bool;     (* time_range is not None (after to_absolute_time_range) *)
  pf_selection : bool;      (* selection is not None *)
  pf_keep : bool;           (* keep_columns is not None *)
  pf_drop : bool            (* drop_columns is not None *)
}.
Definition is_partial (f : partial_flags) : bool :=
  pf_time_range f || pf_selection f || pf_keep f || pf_drop f.

(* single-output plugin; Ok true = a saver is created for this target *)
Definition creates_saver (cf : ctx_flags) (pf : partial_flags) (t : target_info) : res bool :=
  (* not stored, a time range is given and the plugin saves by itself: refuse to compute *)
  if negb (ti_stored t) && pf_time_range pf && (ti_save_when t >? SAVEWHEN_EXPLICIT) then Err E_NOT_AVAILABLE
  else if ti_temp t then Ok false
  else if ti_stored t then Ok false
  else if cf_superrun_nowrite cf then Ok false
  else
    do should <- target_should_be_saved t;
    if negb should then Ok false
    else if pf_time_range pf then Ok false
    else if pf_selection pf then Ok false
    else if pf_keep pf || pf_drop pf then Ok false
    else if cf_fuzzy cf then Ok false
    else if cf_allow_incomplete cf then Ok false
    else Ok true.

(* the savers dictionary built over all visited targets (order of check_cache) *)
Fixpoint savers_of (cf : ctx_flags) (pf : partial_flags) (ts : list (Z * target_info)) : res (list Z) :=
  match ts with
  | [] => Ok []
  | (name, t) :: rest =>
      do b <- creates_saver cf pf t;
      do r <- savers_of cf pf rest;
      Ok (if b then name :: r else r)
  end.
