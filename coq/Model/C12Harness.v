(* C12 — the misbehaving harness plugins (harness/props/c12_impl.py) as Gallina definitions, and
   the run of one matrix cell through the model of the strax output path (Model/PluginKinds.v).
   Executable definitions only. *)
From SV Require Export Model.PluginKinds.

(* field / type / data type ids shared with the harness *)
Definition F_ID : Z := 3.   Definition F_VAL : Z := 4.  Definition F_JUNK : Z := 5.
Definition F_VAL2 : Z := 6. Definition F_CUT : Z := 7.
Definition T_I16 : Z := 1.  Definition T_I32 : Z := 2.  Definition T_I64 : Z := 3. Definition T_BOOL : Z := 0.
Definition L_SRC : Z := 1.  Definition L_T : Z := 2.    Definition L_U : Z := 3.   Definition L_OTHER : Z := 9.

Definition ADT_SRC : adt := [(F_TIME, T_I64); (F_ENDTIME, T_I64); (F_ID, T_I64)].
Definition ADT_T   : adt := [(F_TIME, T_I64); (F_ENDTIME, T_I64); (F_ID, T_I64); (F_VAL, T_I32)].
Definition ADT_U   : adt := [(F_TIME, T_I64); (F_ENDTIME, T_I64); (F_VAL2, T_I16)].
Definition ADT_CUT : adt := [(F_TIME, T_I64); (F_ENDTIME, T_I64); (F_CUT, T_BOOL)].

Definition RUN_ID : Z := 0.
Definition TGT : Z := 1000000.
Definition SPAN : Z := 100.

(* violation kinds *)
Definition VK_GOOD := 0.        Definition VK_DTYPE_BARE := 1.   Definition VK_DTYPE_CHUNK := 2.
Definition VK_DTYPE_RAW := 3.   Definition VK_ROWS_EARLY := 4.   Definition VK_ROWS_LATE := 5.
Definition VK_LABEL := 6.       Definition VK_GAP := 7.          Definition VK_OVERLAP := 8.
Definition VK_NON_DICT := 9.    Definition VK_MISSING_KEY := 10. Definition VK_NON_GENERATOR := 11.
Definition VK_NON_CHUNK := 12.  Definition VK_UNKNOWN_FIELD := 13. Definition VK_CUT_SHAPE := 14.
Definition VK_NON_ARRAY := 15.

Record cell := mkcell {
  c_kind : pkind; c_vk : Z;
  c_dv : Z;        (* dtype variant 0 extra, 1 missing, 2 renamed, 3 retyped, 4 reordered *)
  c_which : Z;     (* multi-output: offending output 0 = tt (the target), 1 = uu *)
  c_ov : Z;        (* other variant: rows_*: 0 bare array / 1 self.chunk; non_*: which non-thing *)
  c_pos : nat; c_n : nat; c_r : nat;
  c_rechunk : bool; c_get_array : bool }.

Fixpoint butlast {A} (l : list A) : list A :=
  match l with [] => [] | [_] => [] | x :: r => x :: butlast r end.
Definition last_pair (a : adt) : Z * Z := last a (0, 0).

Definition wrong_dtype (a : adt) (dv : Z) : adt :=
  if dv =? 0 then a ++ [(F_JUNK, T_I16)]
  else if dv =? 1 then butlast a
  else if dv =? 2 then butlast a ++ [(F_JUNK, snd (last_pair a))]
  else if dv =? 3 then butlast a ++ [(fst (last_pair a), if snd (last_pair a) =? T_I64 then T_I32 else T_I64)]
  else butlast (butlast a) ++ [last_pair a; last_pair (butlast a)].

Definition src_rows (i r : nat) : list row :=
  map (fun j => let t := SPAN * Z.of_nat i + (SPAN * (Z.of_nat j + 1)) / (Z.of_nat r + 1) in
                mkrow t (t + 5) (10 * Z.of_nat i + Z.of_nat j) 0) (seq 0 r).

Definition src_decl : pdecl := mkp KSource [L_SRC] [(L_SRC, ADT_SRC)] [(L_SRC, L_SRC)] RUN_ID TGT.
Definition t_decl (k : pkind) : pdecl :=
  match k with
  | KSource => src_decl
  | KMulti => mkp KMulti [L_T; L_U] [(L_T, ADT_T); (L_U, ADT_U)] [(L_T, L_T); (L_U, L_U)] RUN_ID TGT
  | KCut => mkp KCut [L_T] [(L_T, ADT_CUT)] [(L_T, L_SRC)] RUN_ID TGT
  | _ => mkp k [L_T] [(L_T, ADT_T)] [(L_T, L_T)] RUN_ID TGT
  end.

Definition is_dtype_vk (vk : Z) : bool := (vk =? VK_DTYPE_BARE) || (vk =? VK_DTYPE_CHUNK) || (vk =? VK_DTYPE_RAW).

(* harness/props/c12_impl.py: make_item.  `vk` is VK_GOOD for a chunk that does not misbehave. *)
Definition make_item (p : pdecl) (label : Z) (s e : Z) (rows : list row) (vk dv ov : Z) : item :=
  let decl := dtype_for p label in
  let dt := if is_dtype_vk vk then wrong_dtype decl dv else decl in
  let rows' := if vk =? VK_ROWS_EARLY then mkrow (s - 1) (s + 1) 999 0 :: rows
               else if vk =? VK_ROWS_LATE then rows ++ [mkrow (e - 2) (e + 1) 999 0] else rows in
  let '(s', e') := if vk =? VK_GAP then (s + 1, e - 1)
                   else if vk =? VK_OVERLAP then (Z.max (s - 1) 0, e + 1) else (s, e) in
  let label' := if vk =? VK_LABEL
                then (if multi_output p then (if label =? L_T then L_U else L_T) else L_OTHER)
                else label in
  let bare := (vk =? VK_DTYPE_BARE) || (((vk =? VK_ROWS_EARLY) || (vk =? VK_ROWS_LATE)) && (ov =? 0)) in
  if bare then IArr dt rows'
  else if vk =? VK_DTYPE_RAW then IMk dt dt label' (dkind_for p label) s' e' rows'
  else IMk decl dt label' (dkind_for p label) s' e' rows'.

(* rows the plugin under test derives from its input (ids kept, channel 0) *)
Definition t_rows (rows : list row) : list row := rows.

Definition junk_cols : list Z := [F_TIME; F_ENDTIME; F_JUNK].

(* what compute of the plugin under test returns for input rows in [s, e) *)
Definition user_payload (c : cell) (off : bool) (s e : Z) (rows : list row) : res payload :=
  let p := t_decl (c_kind c) in
  let vk := if off then c_vk c else VK_GOOD in
  let dv := c_dv c in let ov := c_ov c in
  match c_kind c with
  | KSource => Ok (PVal (VItem (make_item p L_SRC s e rows vk dv 1)))
  | KOrdinary | KOverlap =>
      if vk =? VK_UNKNOWN_FIELD then Ok (PVal (VItem (ICols junk_cols rows)))
      else if vk =? VK_NON_ARRAY then Ok (PVal (VItem IOther))
      else if vk =? VK_GOOD then Ok (PVal (VItem (IArr ADT_T rows)))
      else Ok (PVal (VItem (make_item p L_T s e rows vk dv ov)))
  | KMulti =>
      let good := [(L_T, IArr ADT_T rows); (L_U, IArr ADT_U rows)] in
      if vk =? VK_GOOD then Ok (PVal (VDict good))
      else if vk =? VK_NON_DICT then Ok (PVal (VItem (if ov =? 0 then IArr ADT_T rows else IOther)))
      else if vk =? VK_MISSING_KEY then Ok (PVal (VDict [(L_T, IArr ADT_T rows)]))
      else if c_which c =? 0
           then Ok (PVal (VDict [(L_T, make_item p L_T s e rows vk dv ov); (L_U, IArr ADT_U rows)]))
           else Ok (PVal (VDict [(L_T, IArr ADT_T rows); (L_U, make_item p L_U s e rows vk dv ov)]))
  | KDown =>
      let mid := (s + e) / 2 in
      let r1 := filter (fun q => re q <=? mid) rows in
      let r2 := filter (fun q => negb (re q <=? mid)) rows in
      if vk =? VK_NON_GENERATOR
      then Ok (PVal (VItem (if ov =? 0 then make_item p L_T s e rows VK_GOOD 0 1 else IOther)))
      else
        let first := VItem (make_item p L_T s mid r1 VK_GOOD 0 1) in
        if vk =? VK_NON_CHUNK then Ok (PGen [first; VItem (if ov =? 0 then IArr ADT_T r2 else IOther)])
        else Ok (PGen [first; VItem (make_item p L_T mid e r2 vk dv 1)])
  | KLoop =>
      let n := length rows in
      let rets := map (fun '(j, q) =>
                    if vk =? VK_NON_DICT then LOther
                    else
                      let fs := [F_TIME; F_ENDTIME; F_ID; F_VAL] ++ (if vk =? VK_UNKNOWN_FIELD then [F_JUNK] else []) in
                      let q1 := if (vk =? VK_ROWS_EARLY) && (j =? 0)%nat then mkrow (s - 1) (re q) (rid q) 0 else q in
                      let q2 := if (vk =? VK_ROWS_LATE) && (S j =? n)%nat then mkrow (rt q1) (e + 1) (rid q1) 0 else q1 in
                      LDict fs q2) (combine (seq 0 n) rows) in
      loop_compute p L_T rets
  | KCut =>
      cut_compute p L_T rows (if vk =? VK_CUT_SHAPE then (length rows + 2)%nat else length rows)
  end.

(* chunks of the well-behaved source *)
Definition src_chunk (i r : nat) : chunk :=
  mkchunk (SPAN * Z.of_nat i) (SPAN * (Z.of_nat i + 1)) (src_rows i r) L_SRC L_SRC (Some RUN_ID) TGT.

Definition lift (fx : bool) (p : pdecl) (range : option (Z * Z)) (rp : res payload) : msgs :=
  match rp with Err e => [Err e] | Ok pl => do_compute_out_gen fx p pl range end.

(* plugin kinds that see one source chunk per invocation *)
Definition plain_msgs (fx : bool) (c : cell) : msgs :=
  let p := t_decl (c_kind c) in
  flat_map (fun i =>
      let s := SPAN * Z.of_nat i in let e := SPAN * (Z.of_nat i + 1) in
      let range := match c_kind c with KSource => None | _ => Some (s, e) end in
      lift fx p range (user_payload c (i =? c_pos c)%nat s e (src_rows i (c_r c))))
    (seq 0 (c_n c)).

(* OverlapWindowPlugin: iter drives do_compute once per input chunk, then yields the cached result *)
Definition OW_WINDOW : Z := 10.

Fixpoint ow_msgs (fx : bool) (c : cell) (k : nat) (st : ow_state) (inputs : list chunk) : msgs :=
  match inputs with
  | [] => match ow_cres st with Some x => [Ok [x]] | None => [] end
  | inp :: rest =>
      match ow_input st inp with
      | Err e => [Err e]
      | Ok kw =>
          let p := t_decl KOverlap in
          match user_payload c (k =? c_pos c)%nat (cstart kw) (cend kw) (crows kw) with
          | Err e => [Err e]
          | Ok (PGen _) => [Err E_NOT_ARRAY]
          | Ok (PVal v) =>
              match fix_output_gen fx p v (Some (cstart kw, cend kw)) with
              | Err e => [Err e]
              | Ok [result] =>
                  match ow_after OW_WINDOW st kw result with
                  | Err e => [Err e]
                  | Ok (out, st') => Ok [out] :: ow_msgs fx c (S k) st' rest
                  end
              | Ok _ => [Err E_KEY]
              end
          end
      end
  end.

Definition cell_msgs (fx : bool) (c : cell) : msgs :=
  match c_kind c with
  | KOverlap => ow_msgs fx c 0 ow_init (map (fun i => src_chunk i (c_r c)) (seq 0 (c_n c)))
  | _ => plain_msgs fx c
  end.

Definition cell_target (c : cell) : Z := match c_kind c with KSource => L_SRC | _ => L_T end.

Definition run_cell_gen (fx : bool) (c : cell) : outcome :=
  run_pipeline (t_decl (c_kind c)) (cell_target c) (c_rechunk c) (cell_msgs fx c).

(* what the caller sees: 0 = normal return, otherwise the error code *)
Definition cell_result_code_gen (fx : bool) (c : cell) : Z :=
  let o := run_cell_gen fx c in
  match (if c_get_array c then match get_array_result o with Ok _ => Ok tt | Err e => Err e end
         else match o_result o with Ok _ => Ok tt | Err e => Err e end) with
  | Ok _ => 0 | Err e => e
  end.

Definition cell_visible_gen (fx : bool) (c : cell) (d : Z) : bool :=
  existsb (fun sv => (sv_type sv =? d) && visible sv) (o_savers (run_cell_gen fx c)).

(* the data type the violation is in *)
Definition offending_type (c : cell) : Z :=
  match c_kind c with
  | KSource => L_SRC
  | KMulti => if (c_vk c =? VK_NON_DICT) || (c_vk c =? VK_MISSING_KEY) then L_T
              else if c_which c =? 0 then L_T else L_U
  | _ => L_T
  end.

(* The property for one cell: the caller gets an exception and the offending data type is not
   served from storage afterwards. *)
Definition cell_rejected_gen (fx : bool) (c : cell) : bool :=
  negb (cell_result_code_gen fx c =? 0) && negb (cell_visible_gen fx c (offending_type c)).

(* the model of the code /repo currently carries *)
Definition run_cell := run_cell_gen REPAIRED_F1F2.
Definition cell_result_code := cell_result_code_gen REPAIRED_F1F2.
Definition cell_visible := cell_visible_gen REPAIRED_F1F2.
Definition cell_rejected := cell_rejected_gen REPAIRED_F1F2.
