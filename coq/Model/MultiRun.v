(* Model of strax.utils.multi_run (utils.py) as a nondeterministic machine.

   Python                                              model
   ------------------------------------------------    ------------------------------------------
   run_id_numpy = stable_sort(np.array(run_ids))       isort ids            (run ids = Z ranks)
   how_many_tasks_at_once = max_workers * 2            2 * mr_workers
   ThreadPoolExecutor(max_workers)  (0 => ValueError)  MRValueErr
   futures = {submit(r) for r in islice(ids, 0, 2w)}   window := firstn (2w) sorted
   while futures:                                      mr_loop (window <> [])
     futures_done, _ = wait(futures, FIRST_COMPLETED)  one element of the schedule: a non-empty
                                                       batch of picks; a pick p selects the
                                                       (p mod |window|)-th still pending task
     for f in futures_done:                            mr_batch
        tasks_done += 1; _run_id = futures.pop(f)      done ++ [r] ; window minus r
        if f.exception() is not None:
            if ignore_errors: failures.append; continue
            raise f.exception()                        MRRaise r
        if throw_away_result: continue
        result = merge_arrs([ids, result])             attach
        final_result.append(result); run_id_output.append(_run_id)     outs ++ [(r, rows)]
     for r in islice(ids, task_index, task_index + len(futures_done)): submit     mr_refill k
   if throw_away_result: return None
   final_result = [final_result[i] for i in stable_argsort(run_id_output)]
                                                       map snd (isort_k outs)

   The schedule (list of batches of picks) is the only source of nondeterminism: which of the
   submitted tasks complete next, in which order `wait` hands them over, and how many at once.
   Any pending task of the window may be picked; the real executor only lets the first
   max_workers of them run, so the model over-approximates the set of real completion orders.
   `mr_done` mirrors the counter tasks_done (as the list of completed run ids), `mr_maxwin` is the
   largest number of simultaneously submitted tasks (the memory bound the code comments on). *)
From SV Require Import Base.Prelude.

Record mr_cfg := mkcfg { mr_workers : nat; mr_ignore : bool; mr_throw : bool; mr_addid : bool }.

Definition mrow := (option Z * Z)%type.          (* (attached run id, payload of the result row) *)

Definition attach (addid : bool) (r : Z) (rows : list Z) : list mrow :=
  map (fun x => (if addid then Some r else None, x)) rows.

(* stable insertion sorts: of run ids, and of (run id, result) pairs by run id *)
Fixpoint insert_z (x : Z) (l : list Z) : list Z :=
  match l with
  | [] => [x]
  | y :: r => if x <=? y then x :: l else y :: insert_z x r
  end.
Fixpoint isort (l : list Z) : list Z :=
  match l with [] => [] | x :: r => insert_z x (isort r) end.

Fixpoint insert_k {A} (x : Z * A) (l : list (Z * A)) : list (Z * A) :=
  match l with
  | [] => [x]
  | y :: r => if fst x <=? fst y then x :: l else y :: insert_k x r
  end.
Fixpoint isort_k {A} (l : list (Z * A)) : list (Z * A) :=
  match l with [] => [] | x :: r => insert_k x (isort_k r) end.

Fixpoint remove_nth {A} (n : nat) (l : list A) : list A :=
  match l with
  | [] => []
  | x :: r => match n with O => r | S m => x :: remove_nth m r end
  end.

Record mr_st := mkst {
  mr_queue : list Z;                 (* sorted run ids not yet submitted *)
  mr_window : list Z;                (* submitted, not yet handed over by wait (submission order) *)
  mr_outs : list (Z * list mrow);    (* (run_id_output[i], final_result[i]) in completion order *)
  mr_fails : list Z;                 (* failures *)
  mr_done : list Z;                  (* completed run ids in completion order (|.| = tasks_done) *)
  mr_submitted : list Z;             (* every run id handed to exc.submit, in order *)
  mr_maxwin : nat }.

Inductive mr_out :=
| MROk (result : option (list (list mrow))) (failures : list Z) (submitted : list Z) (maxwin : nat)
| MRRaise (r : Z) (submitted : list Z)     (* the exception of run r is re-raised *)
| MRValueErr                               (* ThreadPoolExecutor(max_workers=0) *)
| MRFuel.

Section MR.
Variable res : Z -> option (list Z).      (* outcome of exec_function per run: None = it raises *)
Variable cfg : mr_cfg.

(* the body of `for f in futures_done`; k counts len(futures_done) *)
Fixpoint mr_batch (picks : list nat) (s : mr_st) (k : nat) : (mr_st * nat) + (Z * mr_st) :=
  match picks with
  | [] => inl (s, k)
  | p :: ps =>
      match mr_window s with
      | [] => inl (s, k)
      | _ =>
          let i := Nat.modulo p (length (mr_window s)) in
          let r := nth i (mr_window s) 0 in
          let s1 := mkst (mr_queue s) (remove_nth i (mr_window s)) (mr_outs s) (mr_fails s)
                         (mr_done s ++ [r]) (mr_submitted s) (mr_maxwin s) in
          match res r with
          | None =>
              if mr_ignore cfg
              then mr_batch ps (mkst (mr_queue s1) (mr_window s1) (mr_outs s1) (mr_fails s1 ++ [r])
                                     (mr_done s1) (mr_submitted s1) (mr_maxwin s1)) (S k)
              else inr (r, s1)
          | Some rows =>
              if mr_throw cfg then mr_batch ps s1 (S k)
              else mr_batch ps (mkst (mr_queue s1) (mr_window s1)
                                     (mr_outs s1 ++ [(r, attach (mr_addid cfg) r rows)])
                                     (mr_fails s1) (mr_done s1) (mr_submitted s1) (mr_maxwin s1)) (S k)
          end
      end
  end.

(* submit k more runs *)
Definition mr_refill (k : nat) (s : mr_st) : mr_st :=
  let new := firstn k (mr_queue s) in
  let w := mr_window s ++ new in
  mkst (skipn k (mr_queue s)) w (mr_outs s) (mr_fails s) (mr_done s) (mr_submitted s ++ new)
       (Nat.max (mr_maxwin s) (length w)).

Definition mr_finish (s : mr_st) : mr_out :=
  MROk (if mr_throw cfg then None else Some (map snd (isort_k (mr_outs s))))
       (mr_fails s) (mr_submitted s) (mr_maxwin s).

Fixpoint mr_loop (fuel : nat) (sched : list (list nat)) (s : mr_st) : mr_out :=
  match mr_window s with
  | [] => mr_finish s
  | _ =>
      match fuel with
      | O => MRFuel
      | S f =>
          let b := match sched with [] => [O] | [] :: _ => [O] | b :: _ => b end in
          match mr_batch b s 0 with
          | inr (r, s') => MRRaise r (mr_submitted s')
          | inl (s', k) => mr_loop f (tl sched) (mr_refill k s')
          end
      end
  end.

Definition multi_run (ids : list Z) (sched : list (list nat)) : mr_out :=
  match mr_workers cfg with
  | O => MRValueErr
  | _ =>
      let sorted := isort ids in
      let n0 := (2 * mr_workers cfg)%nat in
      let w := firstn n0 sorted in
      mr_loop (length ids) sched (mkst (skipn n0 sorted) w [] [] [] w (length w))
  end.

(* what the property promises: the per-run results in sorted run-id order, run id attached;
   runs whose function raised are absent *)
Definition mr_is_ok (r : Z) : bool := match res r with Some _ => true | None => false end.
Definition mr_expected (ids : list Z) : list (list mrow) :=
  map (fun r => attach (mr_addid cfg) r (match res r with Some x => x | None => [] end))
      (filter mr_is_ok (isort ids)).
End MR.

(* table-driven outcome function for the extracted driver *)
Fixpoint mr_lookup (tbl : list (Z * option (list Z))) (r : Z) : option (list Z) :=
  match tbl with
  | [] => None
  | (k, v) :: t => if k =? r then v else mr_lookup t r
  end.

Definition multi_run_tbl (tbl : list (Z * option (list Z))) (cfg : mr_cfg)
           (ids : list Z) (sched : list (list nat)) : mr_out :=
  multi_run (mr_lookup tbl) cfg ids sched.
