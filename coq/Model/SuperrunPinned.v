(* The behaviour of the PINNED tree (before /repo bea6d1c and 317aec4), kept only for the *_pinned_refuted
   witnesses of property C14.  Not extracted, not compared with the implementation any more. *)
From SV Require Export Model.Annot Model.Superrun.

(* Chunk.split before bea6d1c: the subruns were left alone on both parts when promised_continuity was False *)
Definition asplit_pinned (c : achunk) (t0 : Z) (early : bool) : res (achunk * achunk) :=
  let b := abase c in
  let t := Z.max (Z.min t0 (cend b)) (cstart b) in
  let r :=
    if t =? cend b then Some (crows b, [], t)
    else if t =? cstart b then Some ([], crows b, t)
    else split_array (crows b) t early in
  match r with
  | None => Err E_CANNOT_SPLIT
  | Some (d1, d2, t') =>
      do pc <- promised_continuity c;
      let subs := if pc then split_runs (asub c) t' else (asub c, asub c) in
      let sups := split_runs (Some (asuper c)) t' in
      let run1 := if one_or_none (fst sups) then srun (hd span0 (asuper c)) else crun b in
      let run2 := if one_or_none (snd sups) then srun (last (asuper c) span0) else crun b in
      do c1 <- mk_achunk (cstart b) (Z.max (cstart b) t') d1 (cdtype b) (ckind b) run1 (ctarget b)
                 (fst subs) (fst sups);
      do c2 <- mk_achunk (Z.max (cstart b) t') (Z.max t' (cend b)) d2 (cdtype b) (ckind b) run2 (ctarget b)
                 (snd subs) (snd sups);
      Ok (c1, c2)
  end.

(* Plugin.iter on top of it *)
Fixpoint iter_loop_pinned (allow : bool) (prun : Z) (lv : level) (buffer : achunk) (inputs : list achunk)
  : res (list achunk) :=
  do '(inp, rest) <- asplit_pinned buffer (cend (abase buffer)) true;
  do out <- do_compute prun lv inp [];
  match inputs with
  | [] => match crows (abase rest) with [] => Ok [out] | _ => Err E_LEFTOVER end
  | c :: more =>
      do buffer' <- aconcatenate [Some rest; Some c] allow;
      do outs <- iter_loop_pinned allow prun lv buffer' more;
      Ok (out :: outs)
  end.

Definition plugin_iter_pinned (allow : bool) (prun : Z) (lv : level) (inputs : list achunk) : res (list achunk) :=
  match inputs with
  | [] => Err E_EMPTY_INPUT
  | c :: more => iter_loop_pinned allow prun lv c more
  end.

Fixpoint run_levels_pinned (prun : Z) (levels : list level) (stream : list achunk) : res (list achunk) :=
  match levels with
  | [] => Ok stream
  | lv :: more => do s' <- plugin_iter_pinned true prun lv stream; run_levels_pinned prun more s'
  end.

(* get_iter(superrun, target) without writing, on the pinned tree *)
Definition superrun_get_pinned (prun : Z) (levels : list level) (subruns : list (list stored)) : res (list achunk) :=
  do s0 <- chained_loader subruns;
  do out <- run_levels_pinned prun levels s0;
  checked out.
