(* Runner-side views of the C14 model used by the extraction cross-check (the same functions the OCaml
   driver calls, with results flattened to plain data). *)
From SV Require Import Model.Annot Model.Superrun.

Definition c14_view (c : achunk) : Z * Z * option Z * list Z * option annot * annot :=
  (cstart (abase c), cend (abase c), crun (abase c), map rid (crows (abase c)), asub c, asuper c).

(* inl e = the constructor refuses the input chunk; inr (inl e) = split fails; inr (inr (c1, c2)) *)
Definition c14_split_view (s e : Z) (rows : list row) (dt kind : Z) (run : option Z) (tgt : Z)
           (sub sup : option annot) (t : Z) (early : bool) :=
  match mk_achunk s e rows dt kind run tgt sub sup with
  | Err x => inl x
  | Ok c =>
      inr (match asplit c t early with
           | Err x => inl x
           | Ok (c1, c2) => inr (c14_view c1, c14_view c2)
           end)
  end.
