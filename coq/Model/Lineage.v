(* C02 — registry, configuration, lineage, plugin cache, storage keys, fuzzy matching.
   Mirrors strax/context.py (register, set_config, _set_plugin_config, _context_hash,
   _plugins_are_cached, _plugins_to_cache, __get_requested_plugins_from_cache, _get_plugins,
   __get_plugin, __add_lineage_to_plugin, _find_options, key_for, is_stored, get_components /
   check_cache as far as load-or-compute-and-save is concerned), strax/config.py (combine_configs,
   Option defaults), strax/storage/common.py (DataKey, _matches, _filter_lineage) and
   strax/storage/files.py (DataDirectory._find / _folder_matches).

   SHA-1/base32 is the Section variable [hash]; nothing about it is assumed here (proofs assume
   injectivity on canonical strings as a Section hypothesis).  Executable definitions only. *)
From SV Require Import Base.Prelude Model.Canon.

(* error codes of [res]: *)
Definition E_KEY : Z := 1.     (* KeyError: no plugin class registered that provides the data type *)
Definition E_ASSERT : Z := 2.  (* AssertionError: parent option of a child option not among the options *)
Definition E_FUEL : Z := 3.    (* recursion / safety counter exhausted (cyclic registry) *)

Record opt := mkopt {
  oname : Z;
  odefault : value;            (* every modelled option has a default *)
  otrack : bool;
  oparent : option Z           (* Some p <-> child_option=True, parent_option_name=p *)
}.

Record cls := mkcls {
  cid : Z;                     (* identity of the Python class object *)
  cname : Z;                   (* __name__ *)
  cversion : Z;                (* version() *)
  ccomp : Z;                   (* compressor *)
  ctimeout : Z;                (* input_timeout *)
  cprovides : list Z;
  cdepends : list Z;
  copts : list opt;            (* takes_config, in order *)
  cchild : bool;               (* child_plugin *)
  cparents : list (Z * Z)      (* (__name__, version()) of __bases__, used for child plugins *)
}.

Definition lentry := (Z * Z * list (Z * value))%type.   (* (class name, version, tracked config) *)
Definition lineage := list (Z * lentry).

Record inst := mkinst {        (* an initialised plugin instance, as far as the context uses it *)
  icls : cls;
  iconf : list (Z * value);    (* plugin.config *)
  ilin : lineage
}.

Definition registry := list (Z * cls).
Definition config := list (Z * value).

Definition cls_same (a b : cls) : bool := cid a =? cid b.    (* Python: old_plugin_class == plugin_class *)

(* ---------- strax.combine_configs ---------- *)
Definition combine_configs (old new : config) (mode : Z) : config :=
  if mode =? 0 then dupdate old new            (* update *)
  else if mode =? 1 then dupdate new old       (* setdefault *)
  else new.                                    (* replace *)

(* ---------- Context.register ---------- *)
Definition values_dedup (reg : registry) : list cls :=
  fold_left (fun seen dc => if existsb (cls_same (snd dc)) seen then seen else seen ++ [snd dc]) reg [].

Definition register_core (reg : registry) (c : cls) : registry :=
  (* first loop: register for all provides, remember the classes booted out *)
  let step (acc : registry * list cls) (p : Z) :=
    let (r, dereg) := acc in
    let dereg' := match lookup p r with
                  | Some old => if cls_same old c then dereg else dereg ++ [old]
                  | None => dereg
                  end in
    (dset p c r, dereg') in
  let (r1, dereg) := fold_left step (cprovides c) (reg, []) in
  (* second loop: boot the old classes from their other outputs *)
  fold_left (fun r old =>
               fold_left (fun r d => match lookup d r with
                                     | Some cur => if cls_same cur old then ddel d r else r
                                     | None => r
                                     end) (cprovides old) r) dereg r1.

(* the "two plugins have a different default value for the same option" check; it runs after the
   registry was mutated *)
Definition defaults_agree (reg : registry) (c : cls) : bool :=
  forallb (fun p =>
    forallb (fun o =>
      forallb (fun o' => if oname o' =? oname o then py_eqb (odefault o) (odefault o') else true)
              (copts c)) (copts p)) (values_dedup reg).

Definition register (reg : registry) (c : cls) : registry * bool :=
  let r := register_core reg c in (r, defaults_agree r c).

(* ---------- Context._set_plugin_config ---------- *)
Definition takes (c : cls) (k : Z) : bool := existsb (fun o => oname o =? k) (copts c).
Definition opt_of (c : cls) (k : Z) : option opt := find (fun o => oname o =? k) (copts c).
Definition tracked (c : cls) (k : Z) : bool :=
  match opt_of c k with Some o => otrack o | None => false end.

Definition with_defaults (conf : config) (os : list opt) : config :=
  fold_left (fun acc o => if has_key (oname o) acc then acc else dset (oname o) (odefault o) acc) os conf.

Definition plugin_config (conf : config) (c : cls) : res config :=
  let full := with_defaults conf (copts c) in
  let pconf := filter (fun kv => takes c (fst kv)) full in
  if cchild c then
    fold_left (fun acc o =>
      do pc <- acc;
      match oparent o with
      | None => Ok pc
      | Some pn =>
          match lookup (oname o) full with
          | None => Err E_KEY
          | Some v => if has_key pn pc then Ok (dset pn v pc) else Err E_ASSERT
          end
      end) (copts c) (Ok pconf)
  else Ok pconf.

(* ---------- Context.__add_lineage_to_plugin ---------- *)
Definition parent_options (c : cls) : list Z :=
  flat_map (fun o => match oparent o with Some p => [p] | None => [] end) (copts c).

Definition lin_configs (c : cls) (pconf : config) : config :=
  if cchild c then
    dupdate (filter (fun kv => negb (memZ (fst kv) (parent_options c)) && tracked c (fst kv)) pconf)
            (map (fun p => (fst p, VStr (snd p))) (cparents c))
  else filter (fun kv => tracked c (fst kv)) pconf.

Definition last_provide (c : cls) : Z := last (cprovides c) 0.

Definition build_lineage (c : cls) (pconf : config) (deps : list inst) : lineage :=
  fold_left (fun l d => dupdate l (ilin d)) deps
            [(last_provide c, (cname c, cversion c, lin_configs c pconf))].

(* the lineage dict as a value (what deterministic_hash receives) *)
Definition lin_value (l : lineage) : value :=
  VDict (map (fun e => (fst e, VTuple [VStr (fst (fst (snd e))); VStr (snd (fst (snd e)));
                                       VDict (snd (snd e))])) l).

(* ---------- Context._context_hash : the dict that is hashed ---------- *)
Definition chash_value_pinned (reg : registry) (conf : config) : value :=
  VDict (dupdate conf
    (map (fun dc => (fst dc, VTuple [VStr (cversion (snd dc)); VStr (ccomp (snd dc));
                                     VInt (ctimeout (snd dc))])) reg)).

(* the repaired hash: config and registry are kept apart, and everything of a registered class
   that enters a lineage (or decides which instance is built) is covered *)
Definition opt_value (o : opt) : value :=
  VTuple [VStr (oname o); VInt (if otrack o then 1 else 0);
          match oparent o with Some p => VTuple [VStr p] | None => VTuple [] end; odefault o].

Definition cls_value (c : cls) : value :=
  VTuple [VStr (cname c); VStr (cversion c); VStr (ccomp c); VInt (ctimeout c);
          VTuple (map VStr (cprovides c)); VTuple (map VStr (cdepends c));
          VInt (if cchild c then 1 else 0);
          VTuple (map (fun p => VTuple [VStr (fst p); VStr (snd p)]) (cparents c));
          VTuple (map opt_value (copts c))].

Definition chash_value_fixed (reg : registry) (conf : config) : value :=
  VTuple [VDict conf; VDict (map (fun dc => (fst dc, cls_value (snd dc))) reg)].

Section WithHash.
Variable HT : Type.
Variable hash : list Z -> HT.          (* sha1 + base32 of the json text *)
Variable heqb : HT -> HT -> bool.
Variable fx : bool.                    (* false: _context_hash as on the pinned tree; true: repaired *)

Definition context_hash (reg : registry) (conf : config) : HT :=
  hash (canon (if fx then chash_value_fixed reg conf else chash_value_pinned reg conf)).

Definition lineage_hash (l : lineage) : HT := hash (canon (lin_value l)).

(* ---------- _fixed_plugin_cache ---------- *)
Definition cache_t := option (HT * list (Z * inst)).

Definition cache_map (h : HT) (ca : cache_t) : option (list (Z * inst)) :=
  match ca with
  | Some (h', m) => if heqb h h' then Some m else None
  | None => None
  end.

(* _plugins_are_cached((dt,)) *)
Definition cache_has (h : HT) (ca : cache_t) (dt : Z) : bool :=
  match cache_map h ca with Some m => has_key dt m | None => false end.

(* _plugins_to_cache({p: plugin for p in provides}) *)
Definition cache_put (h : HT) (ca : cache_t) (provs : list Z) (i : inst) : cache_t :=
  let m := match cache_map h ca with Some m => m | None => [] end in
  Some (h, fold_left (fun acc p => dset p i acc) provs m).

(* __get_requested_plugins_from_cache before the final filter on targets *)
Definition requested_from_cache (m : list (Z * inst)) : list (Z * inst) :=
  fold_left (fun req ti =>
               if has_key (fst ti) req then req
               else fold_left (fun r p => dset p (snd ti) r) (cprovides (icls (snd ti))) req) m [].

(* ---------- Context.__get_plugin ---------- *)
(* plugin.deps = {d: self.__get_plugin(run_id, d) for d in plugin.depends_on}; the cache is threaded *)
Fixpoint fold_deps (gp : cache_t -> Z -> res (inst * cache_t)) (ds : list Z) (ca : cache_t) (acc : list inst)
  : res (list inst * cache_t) :=
  match ds with
  | [] => Ok (acc, ca)
  | d :: r => do ic <- gp ca d; fold_deps gp r (snd ic) (acc ++ [fst ic])
  end.

Fixpoint get_plugin (fuel : nat) (h : HT) (reg : registry) (conf : config) (ca : cache_t) (dt : Z)
  : res (inst * cache_t) :=
  match fuel with
  | O => Err E_FUEL
  | S f =>
      if cache_has h ca dt then
        match cache_map h ca with
        | Some m => match lookup dt (requested_from_cache m) with
                    | Some i => Ok (i, ca)
                    | None => Err E_KEY
                    end
        | None => Err E_KEY
        end
      else
        match lookup dt reg with
        | None => Err E_KEY
        | Some c =>
            do pconf <- plugin_config conf c;
            do dc <- fold_deps (get_plugin f h reg conf) (cdepends c) ca [];
            let i := mkinst c pconf (build_lineage c pconf (fst dc)) in
            Ok (i, cache_put h (snd dc) (cprovides c) i)
        end
  end.

(* ---------- Context._get_plugins : plugins for the targets and everything they depend on ---------- *)
Fixpoint get_plugins (wfuel fuel : nat) (h : HT) (reg : registry) (conf : config) (ca : cache_t)
         (todo : list Z) (acc : list (Z * inst)) : res (list (Z * inst) * cache_t) :=
  match wfuel with
  | O => Err E_FUEL
  | S w =>
      match todo with
      | [] => Ok (acc, ca)
      | t :: r =>
          if has_key t acc then get_plugins w fuel h reg conf ca r acc
          else
            do ic <- get_plugin fuel h reg conf ca t;
            let acc' := fold_left (fun a p => dset p (fst ic) a) (cprovides (icls (fst ic))) acc in
            get_plugins w fuel h reg conf (snd ic) (r ++ cdepends (icls (fst ic))) acc'
      end
  end.

(* ---------- storage: one DataDirectory ---------- *)
Record sentry := mksentry {
  srun : Z;
  sdt : Z;
  skey : HT;               (* lineage hash in the directory name *)
  slin : lineage;          (* lineage in metadata.json, i.e. after a JSON round trip *)
  sdata : tv               (* what the rows encode, see [node] *)
}.
Definition store := list sentry.

Definition lin_json_rt (l : lineage) : lineage :=
  map (fun e => (fst e, (fst (snd e), map (fun kv => (fst kv, json_rt (snd kv))) (snd (snd e))))) l.

(* StorageFrontend._filter_lineage *)
Definition filter_lineage (l : lineage) (ff fo : list Z) : lineage :=
  map (fun e => (fst e, (fst (snd e), filter (fun kv => negb (memZ (fst kv) fo)) (snd (snd e)))))
      (filter (fun e => negb (memZ (fst e) ff)) l).

Definition entry_eqb (a b : lentry) : bool :=
  (fst (fst a) =? fst (fst b)) && (snd (fst a) =? snd (fst b)) && py_eqb (VDict (snd a)) (VDict (snd b)).

(* Python == of two lineage dicts *)
Definition lineage_eqb (l1 l2 : lineage) : bool :=
  Nat.eqb (length l1) (length l2) &&
  forallb (fun e => match lookup (fst e) l2 with Some b => entry_eqb (snd e) b | None => false end) l1.

(* StorageFrontend._matches *)
Definition matches (stored desired : lineage) (ff fo : list Z) : bool :=
  match ff, fo with
  | [], [] =>
      (* `lineage == desired_lineage`: the entries of a lineage read back from metadata.json are
         lists, those of the requested lineage are tuples, so only two empty lineages are equal.
         (DataDirectory never gets here: without fuzzy options it compares directory names.) *)
      match stored, desired with [], [] => true | _, _ => false end
  | _, _ => lineage_eqb (filter_lineage stored ff fo) (filter_lineage desired ff fo)
  end.

Definition fuzzy_on (ff fo : list Z) : bool :=
  match ff, fo with [], [] => false | _, _ => true end.

(* DataDirectory._find (write=False): the exact directory first, then — only in fuzzy mode — every
   directory of the same run and data type whose metadata lineage matches.  All candidates are
   returned; the implementation takes the first in os.listdir order. *)
Definition find_entries (st : store) (run dt : Z) (l : lineage) (ff fo : list Z) : list sentry :=
  let key := lineage_hash l in
  let exact := filter (fun e => (srun e =? run) && (sdt e =? dt) && heqb (skey e) key) st in
  match exact with
  | _ :: _ => exact
  | [] => if fuzzy_on ff fo
          then filter (fun e => (srun e =? run) && (sdt e =? dt) && matches (slin e) l ff fo) st
          else []
  end.

(* Context._find_options: fuzzy_for is translated to the last-provides of the registered classes *)
Definition find_ff (reg : registry) (ffor : list Z) : res (list Z) :=
  fold_left (fun acc k => do a <- acc;
                          match lookup k reg with
                          | Some c => Ok (a ++ [last_provide c])
                          | None => Err E_KEY
                          end) ffor (Ok []).

(* ---------- what a plugin computes ----------
   The rows produced for output [dt] by instance [i] encode the output name, class name, version,
   the tracked part of the configuration the plugin has at compute time, and the rows of its
   inputs. *)
Definition node (dt : Z) (c : cls) (pconf : config) (inputs : list tv) : tv :=
  TArr [TArr [TStr dt; TStr (cname c); TStr (cversion c);
              TArr (map pair_arr (sort_items (norm_items (filter (fun kv => tracked c (fst kv)) pconf))))];
        TArr inputs].

(* get_components.check_cache + processing: load when found, else compute from the inputs and save
   every output of the plugin that is not found (never in fuzzy mode).
   Returns (data, store, ambiguous) where ambiguous = some find had more than one candidate. *)
Fixpoint fold_inputs (gd : store -> Z -> res (tv * store * bool)) (ds : list Z) (st : store) (acc : list tv)
         (amb : bool) : res (list tv * store * bool) :=
  match ds with
  | [] => Ok (acc, st, amb)
  | d :: r => do x <- gd st d; fold_inputs gd r (snd (fst x)) (acc ++ [fst (fst x)]) (amb || snd x)
  end.

(* saving the outputs of a computed plugin that are not found yet *)
Definition save_outputs (plugins : list (Z * inst)) (ff fo : list Z) (run : Z) (i : inst) (pconf : config)
           (inputs : list tv) (st : store) : store :=
  fold_left (fun s p =>
               let ip := match lookup p plugins with Some j => j | None => i end in
               match find_entries s run p (ilin ip) ff fo with
               | _ :: _ => s
               | [] => s ++ [mksentry run p (lineage_hash (ilin i)) (lin_json_rt (ilin i))
                                       (node p (icls i) pconf inputs)]
               end) (cprovides (icls i)) st.

Fixpoint get_data (fuel : nat) (conf : config) (plugins : list (Z * inst)) (ff fo : list Z)
         (run : Z) (st : store) (dt : Z) : res (tv * store * bool) :=
  match fuel with
  | O => Err E_FUEL
  | S f =>
      match lookup dt plugins with
      | None => Err E_KEY
      | Some i =>
          match find_entries st run dt (ilin i) ff fo with
          | e :: more => Ok (sdata e, st, match more with [] => false | _ => true end)
          | [] =>
              do ins <- fold_inputs (fun st d => get_data f conf plugins ff fo run st d) (cdepends (icls i)) st [] false;
              do pconf <- plugin_config conf (icls i);     (* _set_plugin_config(d, tolerant=False) *)
              let inputs := fst (fst ins) in
              let st1 := snd (fst ins) in
              let st2 := if fuzzy_on ff fo then st1 else save_outputs plugins ff fo run i pconf inputs st1 in
              Ok (node dt (icls i) pconf inputs, st2, snd ins)
          end
      end
  end.

(* ---------- contexts, operations, observations ---------- *)
Record context := mkctx {
  creg : registry;
  cconf : config;
  cffor : list Z;      (* context_config['fuzzy_for'] *)
  cfopts : list Z;     (* context_config['fuzzy_for_options'] *)
  ccache : cache_t
}.

Record state := mkstate { ctxs : list context; stor : store }.

Inductive op : Type :=
| OSetConfig (c : nat) (mode : Z) (kv : config)
| ORegister (c : nat) (k : cls)
| OSetFuzzy (c : nat) (ff fo : list Z)
| ONewContext (c : nat)        (* ctxs[c].new_context(): copy of registry, config, context options *)
| OEmptyContext                (* strax.Context(storage=<same directory>) *)
| OKeyFor (c : nat) (run dt : Z)
| OIsStored (c : nat) (run dt : Z)
| OGet (c : nat) (run dt : Z)        (* get_array *)
| OMake (c : nat) (run dt : Z).

Inductive obs : Type :=
| ObNone
| ObBool (b : bool)
| ObErr (e : Z)
| ObKey (l : lineage)
| ObData (d : tv) (ambiguous : bool).

Definition DEPTH : nat := 64.
Definition WORK : nat := 4096.

Definition set_ctx (s : state) (c : nat) (x : context) : state :=
  mkstate (firstn c (ctxs s) ++ x :: skipn (S c) (ctxs s)) (stor s).

Definition with_cache (x : context) (ca : cache_t) : context :=
  mkctx (creg x) (cconf x) (cffor x) (cfopts x) ca.

(* key_for: the plugin instance (from the cache or freshly initialised) *)
Definition ctx_plugin (x : context) (dt : Z) : res (inst * cache_t) :=
  get_plugin DEPTH (context_hash (creg x) (cconf x)) (creg x) (cconf x) (ccache x) dt.

Definition ctx_plugins (x : context) (dt : Z) : res (list (Z * inst) * cache_t) :=
  get_plugins WORK DEPTH (context_hash (creg x) (cconf x)) (creg x) (cconf x) (ccache x) [dt] [].

Definition step (s : state) (o : op) : state * obs :=
  match o with
  | OSetConfig c mode kv =>
      match nth_error (ctxs s) c with
      | None => (s, ObErr 9)
      | Some x => (set_ctx s c (mkctx (creg x) (combine_configs (cconf x) kv mode) (cffor x) (cfopts x) (ccache x)), ObNone)
      end
  | ORegister c k =>
      match nth_error (ctxs s) c with
      | None => (s, ObErr 9)
      | Some x => let (r, ok) := register (creg x) k in
                  (set_ctx s c (mkctx r (cconf x) (cffor x) (cfopts x) (ccache x)), ObBool ok)
      end
  | OSetFuzzy c ff fo =>
      match nth_error (ctxs s) c with
      | None => (s, ObErr 9)
      | Some x => (set_ctx s c (mkctx (creg x) (cconf x) ff fo (ccache x)), ObNone)
      end
  | ONewContext c =>
      match nth_error (ctxs s) c with
      | None => (s, ObErr 9)
      | Some x => (mkstate (ctxs s ++ [mkctx (creg x) (cconf x) (cffor x) (cfopts x) None]) (stor s), ObNone)
      end
  | OEmptyContext => (mkstate (ctxs s ++ [mkctx [] [] [] [] None]) (stor s), ObNone)
  | OKeyFor c run dt =>
      match nth_error (ctxs s) c with
      | None => (s, ObErr 9)
      | Some x =>
          match ctx_plugin x dt with
          | Err e => (s, ObErr e)
          | Ok (i, ca) => (set_ctx s c (with_cache x ca), ObKey (ilin i))
          end
      end
  | OIsStored c run dt =>
      match nth_error (ctxs s) c with
      | None => (s, ObErr 9)
      | Some x =>
          match ctx_plugin x dt with
          | Err e => (s, ObErr e)
          | Ok (i, ca) =>
              match find_ff (creg x) (cffor x) with
              | Err e => (set_ctx s c (with_cache x ca), ObErr e)
              | Ok ff => (set_ctx s c (with_cache x ca),
                          ObBool (match find_entries (stor s) run dt (ilin i) ff (cfopts x) with
                                  | [] => false | _ => true end))
              end
          end
      end
  | OGet c run dt | OMake c run dt =>
      match nth_error (ctxs s) c with
      | None => (s, ObErr 9)
      | Some x =>
          match ctx_plugins x dt with
          | Err e => (s, ObErr e)
          | Ok (ps, ca) =>
              let s1 := set_ctx s c (with_cache x ca) in
              match find_ff (creg x) (cffor x) with
              | Err e => (s1, ObErr e)
              | Ok ff =>
                  match get_data WORK (cconf x) ps ff (cfopts x) run (stor s) dt with
                  | Err e => (s1, ObErr e)
                  | Ok (d, st', amb) => (mkstate (ctxs s1) st', ObData d amb)
                  end
              end
          end
      end
  end.

Fixpoint run_ops (s : state) (ops : list op) : state * list obs :=
  match ops with
  | [] => (s, [])
  | o :: r => let (s1, ob) := step s o in
              let (s2, obs) := run_ops s1 r in (s2, ob :: obs)
  end.

Definition init_state : state := mkstate [mkctx [] [] [] [] None] [].

End WithHash.
