(* Model of strax/mailbox.py : one Mailbox together with the threads that use it, as a labelled
   transition system  step : config -> state -> tid -> option state  (DESIGN.md 3.2, Appendix A).

   Threads
     TS      the sender thread           Mailbox._send_from (gate, next(iterable), send, close,
                                          kill_from_exception)
     TR i    the thread of subscriber i  `for x in mailbox.subscribe(): log.append(x)`  (Mailbox._read)
     TK      an optional thread calling  Mailbox.kill(upstream=b)
     TW k    the worker completing future number k

   One step = everything a thread does between two yield points of the controlled scheduler
   (harness/sched): the scheduler yields *before* an outermost lock acquisition, inside
   Condition.wait, in Future.result on an unfinished future, and at thread exit.  A step is therefore
   one lock-held region of mailbox.py followed by the lock-free, thread-local code up to the next
   lock acquisition (delivering the grabbed messages to the subscriber, `next(iterable)`).

   Condition variables: every potential waiter has a `woken` flag.  Starting to wait clears it,
   `notify_all` sets it for every thread (it is only ever consulted while the thread waits); a waiting
   thread is enabled iff its flag is set, and its step re-evaluates the predicate of `wait_for`
   (and waits again, clearing the flag, if it is false).  A missing notify_all is a different LTS.

   Representation choices (checked by the correspondence, see design_notes/C05.md):
     r_nread    = _subscribers_have_read[i] + 1       (nat instead of an int starting at -1)
     box        = _mailbox as a list sorted by message number (heapq: only the minimum, membership
                  and lookup by number are ever used)
     cap = None = max_messages = inf
   No proofs in this file. *)
From SV Require Import Base.Prelude.
Local Open Scope nat_scope.

Inductive msg : Type :=
| Plain (v : Z)            (* an ordinary message; v identifies it *)
| Fut (k : nat) (v : Z)    (* concurrent.futures.Future number k whose result will be v *)
| Stop.                    (* the StopIteration end marker sent by close() *)

Inductive rpc : Type :=
| REnter (n : nat)                 (* about to enter the lock region of _read wanting message n *)
| RWait (n : nat)                  (* inside _read_condition.wait_for(next_ready) *)
| RAwait (k : nat) (v : Z) (rest : list msg) (n' : nat) (last : bool)
                                   (* inside msg.result() of future k; rest still to be yielded *)
| RDone                            (* generator exhausted, subscriber returned *)
| RRaised.                         (* MailboxKilled raised in the subscriber's thread *)

Record reader : Type := mkReader {
  r_nread : nat;              (* _subscribers_have_read[i] + 1 *)
  r_waiting : option nat;     (* _subscriber_waiting_for[i] *)
  r_drive : bool;             (* _subscriber_can_drive[i] *)
  r_pc : rpc;
  r_woken : bool;             (* notified on _read_condition since it last started to wait *)
  r_log : list Z;             (* what the subscriber has received so far *)
}.

Inductive spc : Type :=
| SGate                                         (* lazy: about to enter the gate region of _send_from *)
| SGateWait                                     (* inside _fetch_new_condition.wait_for(_can_fetch) *)
| SSend (num : option nat) (m : msg) (closing : bool)
                                                (* holds an item, about to enter send(); closing = called from close() *)
| SSendWait (num : nat) (m : msg) (closing : bool)  (* inside _write_condition.wait_for(can_write) *)
| SKill (reraise : bool)                        (* in kill_from_exception, about to enter kill() *)
| SDone                                         (* thread function returned *)
| SDead.                                        (* thread died with an exception *)

Record state : Type := mkState {
  box : list (nat * msg);      (* _mailbox, sorted by number *)
  n_sent : nat;                (* _n_sent *)
  closed : bool;
  killed : bool;
  fkilled : bool;              (* force_killed *)
  rds : list reader;
  s_pc : spc;
  s_woken : bool;              (* notified on _write_condition / _fetch_new_condition since it last started to wait *)
  src : list (option nat * msg);  (* what the source iterable will still produce: (explicit msg_number, message) *)
  k_pc : option bool;          (* Some upstream = a thread that will call kill(upstream) *)
  w_done : list bool;          (* future k completed? *)
}.

Record config : Type := mkConfig {
  c_cap : option nat;          (* max_messages; None = inf *)
  c_lazy : bool;
}.

Inductive tid : Type := TS | TR (i : nat) | TK | TW (k : nat).

(* ---------- setters (explicit constructors so that projections compute) ---------- *)
Definition set_rds (st : state) (x : list reader) : state :=
  mkState (box st) (n_sent st) (closed st) (killed st) (fkilled st) x (s_pc st) (s_woken st) (src st) (k_pc st) (w_done st).
Definition set_box (st : state) (x : list (nat * msg)) : state :=
  mkState x (n_sent st) (closed st) (killed st) (fkilled st) (rds st) (s_pc st) (s_woken st) (src st) (k_pc st) (w_done st).
Definition set_spc (st : state) (x : spc) : state :=
  mkState (box st) (n_sent st) (closed st) (killed st) (fkilled st) (rds st) x (s_woken st) (src st) (k_pc st) (w_done st).
Definition set_swoken (st : state) (x : bool) : state :=
  mkState (box st) (n_sent st) (closed st) (killed st) (fkilled st) (rds st) (s_pc st) x (src st) (k_pc st) (w_done st).
Definition set_src (st : state) (x : list (option nat * msg)) : state :=
  mkState (box st) (n_sent st) (closed st) (killed st) (fkilled st) (rds st) (s_pc st) (s_woken st) x (k_pc st) (w_done st).
Definition set_closed (st : state) (x : bool) : state :=
  mkState (box st) (n_sent st) x (killed st) (fkilled st) (rds st) (s_pc st) (s_woken st) (src st) (k_pc st) (w_done st).
Definition set_killed (st : state) (x : bool) : state :=
  mkState (box st) (n_sent st) (closed st) x (fkilled st) (rds st) (s_pc st) (s_woken st) (src st) (k_pc st) (w_done st).
Definition set_fkilled (st : state) (x : bool) : state :=
  mkState (box st) (n_sent st) (closed st) (killed st) x (rds st) (s_pc st) (s_woken st) (src st) (k_pc st) (w_done st).
Definition set_kpc (st : state) (x : option bool) : state :=
  mkState (box st) (n_sent st) (closed st) (killed st) (fkilled st) (rds st) (s_pc st) (s_woken st) (src st) x (w_done st).
Definition set_wdone (st : state) (x : list bool) : state :=
  mkState (box st) (n_sent st) (closed st) (killed st) (fkilled st) (rds st) (s_pc st) (s_woken st) (src st) (k_pc st) x.
Definition push_box (st : state) (x : list (nat * msg)) : state :=   (* box := x; _n_sent += 1 *)
  mkState x (S (n_sent st)) (closed st) (killed st) (fkilled st) (rds st) (s_pc st) (s_woken st) (src st) (k_pc st) (w_done st).

Definition rd_set_pc (r : reader) (pc : rpc) : reader :=
  mkReader (r_nread r) (r_waiting r) (r_drive r) pc (r_woken r) (r_log r).
Definition rd_set_woken (r : reader) (w : bool) : reader :=
  mkReader (r_nread r) (r_waiting r) (r_drive r) (r_pc r) w (r_log r).
Definition rd_set_waiting (r : reader) (w : option nat) : reader :=
  mkReader (r_nread r) w (r_drive r) (r_pc r) (r_woken r) (r_log r).
Definition rd_set_nread (r : reader) (n : nat) : reader :=
  mkReader n (r_waiting r) (r_drive r) (r_pc r) (r_woken r) (r_log r).
Definition rd_log (r : reader) (v : Z) : reader :=
  mkReader (r_nread r) (r_waiting r) (r_drive r) (r_pc r) (r_woken r) (r_log r ++ [v]).

Fixpoint upd {A} (i : nat) (x : A) (l : list A) : list A :=
  match l, i with
  | [], _ => []
  | _ :: t, O => x :: t
  | h :: t, S j => h :: upd j x t
  end.

(* ---------- the mailbox's own helpers ---------- *)

(* heapq.heappush on (number, msg) pairs, seen as insertion into the sorted list *)
Fixpoint insert (k : nat) (m : msg) (b : list (nat * msg)) : list (nat * msg) :=
  match b with
  | [] => [(k, m)]
  | (k', m') :: t => if k <? k' then (k, m) :: b else (k', m') :: insert k m t
  end.

(* _get_msg / _has_msg (without the `killed` shortcut, which the callers add) *)
Fixpoint get_msg (b : list (nat * msg)) (n : nat) : option msg :=
  match b with
  | [] => None
  | (k, m) :: t => if k =? n then Some m else get_msg t n
  end.
Definition has_msg (b : list (nat * msg)) (n : nat) : bool :=
  match get_msg b n with Some _ => true | None => false end.

(* min(_subscribers_have_read, default=-1) + 1 *)
Fixpoint min_nread (l : list reader) : nat :=
  match l with
  | [] => 0
  | r :: t => match t with [] => r_nread r | _ => Nat.min (r_nread r) (min_nread t) end
  end.

Definition is_stop (m : msg) : bool := match m with Stop => true | _ => false end.

(* the `while self._has_msg(next_number)` loop of _read: messages taken, next number, last_message *)
Fixpoint take_from (fuel : nat) (b : list (nat * msg)) (n : nat) : list msg * nat * bool :=
  match fuel with
  | O => ([], n, false)
  | S f =>
      match get_msg b n with
      | None => ([], n, false)
      | Some m =>
          let '(ms, n', last) := take_from f b (S n) in
          (m :: ms, n', is_stop m || last)
      end
  end.

(* the clean-up loop of _read: pop while the slowest subscriber has read the lowest message *)
Fixpoint gc (minread : nat) (b : list (nat * msg)) : list (nat * msg) :=
  match b with
  | [] => []
  | (k, m) :: t => if k <? minread then gc minread t else b
  end.

Definition room (cfg : config) (st : state) : bool :=   (* len(_mailbox) < max_messages *)
  match c_cap cfg with None => true | Some c => length (box st) <? c end.
Definition can_write (cfg : config) (st : state) : bool := room cfg st || killed st.

Definition waits_le (lowest : nat) (r : reader) : bool :=
  match r_waiting r with Some x => x <=? lowest | None => false end.
Definition drives (r : reader) : bool :=
  r_drive r && match r_waiting r with Some _ => true | None => false end.

(* `x is not None and x in buffered`: the subscriber waits for a message that is in the mailbox *)
Definition waits_buffered (st : state) (r : reader) : bool :=
  match r_waiting r with Some x => has_msg (box st) x | None => false end.

(* _can_fetch (as repaired by /repo ede7cda): killed -> True; some subscriber waits for a message that is
   buffered (it just has not woken up yet) -> False; otherwise True iff a driving subscriber waits *)
Definition can_fetch (st : state) : bool :=
  if killed st then true
  else if existsb (waits_buffered st) (rds st) then false
  else existsb drives (rds st).

(* _can_fetch as it was before ede7cda (`len(_mailbox) and any(x <= _lowest_msg_number ...)`): not used by
   the transition system; kept to document the pinned behaviour.  It differs from can_fetch when a lagging
   subscriber waits for a number that is NOT buffered but lies below the lowest buffered one (out-of-order
   explicit numbers: the gate then never opened), and when a waiter's number is buffered but is not the
   lowest (the gate opened although that subscriber had not caught up: C13's finding). *)
Definition can_fetch_pinned (st : state) : bool :=
  if killed st then true
  else
    match box st with
    | (lowest, _) :: _ => if existsb (waits_le lowest) (rds st) then false else existsb drives (rds st)
    | [] => existsb drives (rds st)
    end.

(* notify_all on the three conditions *)
Definition wake_readers (st : state) : state := set_rds st (map (fun r => rd_set_woken r true) (rds st)).
(* the sender is the only thread that ever waits on _write_condition and _fetch_new_condition; its
   flag s_woken belongs to whichever of the two it is waiting on *)
Definition wake_writer (st : state) : state :=
  match s_pc st with SSendWait _ _ _ => set_swoken st true | _ => st end.
Definition wake_gate (st : state) : state :=
  match s_pc st with SGateWait => set_swoken st true | _ => st end.

(* `if self.lazy and self._can_fetch(): self._fetch_new_condition.notify_all()` *)
Definition maybe_wake_gate (cfg : config) (st : state) : state :=
  if c_lazy cfg && can_fetch st then wake_gate st else st.

(* kill(upstream) *)
Definition kill_region (st : state) (upstream : bool) : state :=
  let st1 := if upstream then set_fkilled st true else st in
  if killed st1 then st1
  else wake_gate (wake_writer (wake_readers (set_killed st1 true))).

(* ---------- sender ---------- *)

(* next(iterable) followed by the call of send() / close() up to its lock acquisition *)
Definition produce (st : state) : state :=
  match src st with
  | [] => set_spc st (SSend None Stop true)
  | (num, m) :: rest => set_spc (set_src st rest) (SSend num m false)
  end.

(* what the sender thread does after send() returned *)
Definition after_send (cfg : config) (st : state) (closing : bool) : state :=
  if closing then set_spc (set_closed st true) SDone
  else if c_lazy cfg then set_spc st SGate
  else produce st.

(* an exception leaves send(): inside close() (the `else:` clause of _send_from) it escapes the
   thread; otherwise iterable.throw + kill_from_exception, which enters kill() *)
Definition send_raises (st : state) (closing reraise : bool) : state :=
  if closing then set_spc st SDead else set_spc st (SKill reraise).

Definition do_push (cfg : config) (st : state) (k : nat) (m : msg) (closing : bool) : state :=
  after_send cfg (wake_readers (push_box st (insert k m (box st)))) closing.

(* send(): first entry of the lock region *)
Definition send_enter (cfg : config) (st : state) (num : option nat) (m : msg) (closing : bool) : state :=
  if closed st then send_raises st closing true             (* MailBoxAlreadyClosed *)
  else if fkilled st then send_raises st closing false       (* MailboxKilled *)
  else if killed st then after_send cfg st closing           (* message lost *)
  else
    let k := match num with Some k => k | None => n_sent st end in
    if k <? min_nread (rds st) then send_raises st closing true   (* InvalidMessageNumber *)
    else if can_write cfg st then do_push cfg st k m closing
    else set_swoken (set_spc st (SSendWait k m closing)) false.

(* send(): woken inside wait_for(can_write) *)
Definition send_resume (cfg : config) (st : state) (k : nat) (m : msg) (closing : bool) : state :=
  if can_write cfg st then
    if killed st then
      if fkilled st then send_raises st closing false
      else after_send cfg st closing
    else do_push cfg st k m closing
  else set_swoken st false.

(* the gate of _send_from (lazy mode) *)
Definition gate_enter (st : state) : state :=
  if can_fetch st then produce st else set_swoken (set_spc st SGateWait) false.
Definition gate_resume (st : state) : state :=
  if can_fetch st then produce st else set_swoken st false.

Definition sender_enabled (st : state) : bool :=
  match s_pc st with
  | SGate | SSend _ _ _ | SKill _ => true
  | SGateWait | SSendWait _ _ _ => s_woken st
  | SDone | SDead => false
  end.

Definition sender_step (cfg : config) (st : state) : state :=
  match s_pc st with
  | SGate => gate_enter st
  | SGateWait => gate_resume st
  | SSend num m closing => send_enter cfg st num m closing
  | SSendWait k m closing => send_resume cfg st k m closing
  | SKill reraise => set_spc (kill_region st true) (if reraise then SDead else SDone)
  | SDone | SDead => st
  end.

(* ---------- readers ---------- *)

Definition fut_done (st : state) (k : nat) : bool := nth k (w_done st) false.

(* the `for msg_number, msg in to_yield` loop, outside the lock, up to the next yield point *)
Fixpoint deliver (wd : list bool) (r : reader) (ms : list msg) (n' : nat) (last : bool) : reader :=
  match ms with
  | [] => rd_set_pc r (if last then RDone else REnter n')
  | Stop :: _ => rd_set_pc r (if last then RDone else REnter n')      (* break *)
  | Plain v :: rest => deliver wd (rd_log r v) rest n' last
  | Fut k v :: rest =>
      if nth k wd false then deliver wd (rd_log r v) rest n' last
      else rd_set_pc r (RAwait k v rest n' last)
  end.

(* the part of the lock region of _read after wait_for returned *)
Definition grab (cfg : config) (st : state) (i : nat) (r : reader) (n : nat) : state :=
  let r1 := rd_set_waiting r None in
  if killed st then set_rds st (upd i (rd_set_pc r1 RRaised) (rds st))
  else
    let '(ms, n', last) := take_from (length (box st)) (box st) n in
    let r2 := rd_set_nread r1 n' in
    let st1 := set_rds st (upd i r2 (rds st)) in
    let st2 := set_box st1 (gc (min_nread (rds st1)) (box st1)) in
    let st3 := wake_writer (maybe_wake_gate cfg st2) in
    set_rds st3 (upd i (deliver (w_done st3) r2 ms n' last) (rds st3)).

Definition next_ready (st : state) (n : nat) : bool := has_msg (box st) n || killed st.

Definition read_enter (cfg : config) (st : state) (i : nat) (r : reader) (n : nat) : state :=
  if next_ready st n then grab cfg st i r n
  else
    let r' := rd_set_woken (rd_set_pc (rd_set_waiting r (Some n)) (RWait n)) false in
    maybe_wake_gate cfg (set_rds st (upd i r' (rds st))).

Definition read_resume (cfg : config) (st : state) (i : nat) (r : reader) (n : nat) : state :=
  if next_ready st n then grab cfg st i r n
  else set_rds st (upd i (rd_set_woken r false) (rds st)).

Definition reader_enabled (st : state) (r : reader) : bool :=
  match r_pc r with
  | REnter _ => true
  | RWait _ => r_woken r
  | RAwait k _ _ _ _ => fut_done st k
  | RDone | RRaised => false
  end.

Definition reader_step (cfg : config) (st : state) (i : nat) (r : reader) : state :=
  match r_pc r with
  | REnter n => read_enter cfg st i r n
  | RWait n => read_resume cfg st i r n
  | RAwait k v rest n' last => set_rds st (upd i (deliver (w_done st) (rd_log r v) rest n' last) (rds st))
  | RDone | RRaised => st
  end.

(* ---------- the transition system ---------- *)

Definition enabled (st : state) (t : tid) : bool :=
  match t with
  | TS => sender_enabled st
  | TR i => match nth_error (rds st) i with Some r => reader_enabled st r | None => false end
  | TK => match k_pc st with Some _ => true | None => false end
  | TW k => match nth_error (w_done st) k with Some d => negb d | None => false end
  end.

Definition step (cfg : config) (st : state) (t : tid) : option state :=
  if enabled st t then
    match t with
    | TS => Some (sender_step cfg st)
    | TR i => match nth_error (rds st) i with Some r => Some (reader_step cfg st i r) | None => None end
    | TK => match k_pc st with Some up => Some (set_kpc (kill_region st up) None) | None => None end
    | TW k => Some (set_wdone st (upd k true (w_done st)))
    end
  else None.

(* run a schedule; a thread that is not enabled when scheduled stops the run (None) *)
Fixpoint run (cfg : config) (st : state) (sched : list tid) : option state :=
  match sched with
  | [] => Some st
  | t :: rest => match step cfg st t with Some st' => run cfg st' rest | None => None end
  end.

(* the states after every step of the schedule, for the step-by-step comparison *)
Fixpoint trace (cfg : config) (st : state) (sched : list tid) : list state :=
  match sched with
  | [] => []
  | t :: rest => match step cfg st t with Some st' => st' :: trace cfg st' rest | None => [] end
  end.

(* initial state: every thread has run up to its first yield point (thread-local code only) *)
Definition init_reader (d : bool) : reader := mkReader 0 None d (REnter 0) false [].

Definition init (cfg : config) (drives : list bool) (source : list (option nat * msg))
                (killer : option bool) (nfut : nat) : state :=
  let st0 := mkState [] 0 false false false (map init_reader drives) SGate false source killer (repeat false nfut) in
  if c_lazy cfg then st0 else produce st0.

Definition all_terminal (st : state) : bool :=
  match s_pc st with SDone | SDead => true | _ => false end
  && forallb (fun r => match r_pc r with RDone | RRaised => true | _ => false end) (rds st)
  && match k_pc st with None => true | Some _ => false end
  && forallb (fun d => d) (w_done st).
