(* Runner-side view of the C11 model used by the extraction cross-check (harness -> coqc vm_compute). *)
From SV Require Import Model.Planner.

Definition c11_summary (mode : nat) (g : graph) (kinds : list nat) (cx : context) (rq : request)
  : res (list dt * list dt * list (dt * list nat) * list nat * list dt * list dt) :=
  do gt <- (if Nat.eqb mode 1 then get_iter_rewrite g kinds (r_targets rq) else Ok (g, r_targets rq));
  do c <- get_components (fst gt) cx
            (mkreq (snd gt) (r_save rq) (r_time_range rq) (r_selection rq) (r_columns rq));
  Ok (k_plugins c, k_loaders c, k_savers c, running_idx (fst gt) c,
      multi_sender_topics (wiring_pinned (fst gt) c), multi_sender_topics (wiring_fixed (fst gt) c)).
