(* C12 — the output path of every plugin kind, from what the user's compute returns to what
   reaches the caller and the storage.

   Mirrors (strax at /repo):
     strax/chunk.py            Chunk.__init__ (dtype comparison + range checks; the range checks are
                               Model/Chunk.v mk_chunk), Chunk.concatenate, continuity_check
     strax/plugins/plugin.py   Plugin._fix_output, _check_dtype, chunk(), do_compute, fix_dtype
     strax/plugins/down_chunking_plugin.py   DownChunkingPlugin._fix_output
     strax/plugins/loop_plugin.py            LoopPlugin.compute (dict requirement, field assignment)
     strax/plugins/cut_plugin.py             CutPlugin.compute
     strax/plugins/overlap_window_plugin.py  OverlapWindowPlugin.do_compute / iter
     strax/processors/single_thread.py, post_office.py   order: savers (spies) see a message before
                               the reader; an exception kills every spy -> saver.close() records it
     strax/storage/common.py   Saver.save_from / close (exception marker), Rechunker.receive
     strax/context.py          get_iter (continuity_check on the target), get_array (np.concatenate)

   A numpy dtype is a list of (field name id, type id), titles removed
   (strax.remove_titles_from_dtype).  Executable definitions only; proofs are in
   Proof/PluginKindsProof.v. *)
From SV Require Export Model.Chunk.

(* ------------------------------------------------------------------------------------------ *)
(* Error codes (the harness maps exception class + message to them)                            *)
(* ------------------------------------------------------------------------------------------ *)
Definition E_CTOR_DTYPE    : Z := 5.   (* ValueError: chunk with data of <dtype>, should be <dtype> *)
Definition E_WRONG_OUTPUT  : Z := 40.  (* PluginGaveWrongOutput (_check_dtype) *)
Definition E_SRC_NOT_CHUNK : Z := 41.  (* ValueError: plugins without dependencies must return chunks *)
Definition E_NOT_DICT      : Z := 42.  (* ValueError: multi-output and should provide a dict output *)
Definition E_LABEL         : Z := 43.  (* ValueError: returned a Chunk with data_type X instead of Y *)
Definition E_SINGLE_KEY    : Z := 44.  (* ValueError: single key results dict *)
Definition E_NOT_GENERATOR : Z := 45.  (* ValueError: should return a generator *)
Definition E_NOT_CHUNK     : Z := 46.  (* ValueError: should yield (dict of) strax.Chunk *)
Definition E_GEN_NOT_DICT  : Z := 47.  (* ValueError: multi-output: generator of dict output *)
Definition E_LOOP_NOT_DICT : Z := 48.  (* AttributeError: provide result in compute loop as dict *)
Definition E_NO_FIELD      : Z := 49.  (* ValueError (numpy): no field of name *)
Definition E_BROADCAST     : Z := 50.  (* ValueError (numpy): could not broadcast *)
Definition E_KEY           : Z := 51.  (* KeyError: result[d] of a multi-output dict *)
Definition E_NOT_ARRAY     : Z := 52.  (* TypeError / AttributeError out of dict_to_rec on a non-array *)
Definition E_CONTINUITY    : Z := 60.  (* ValueError: data is not continuous *)
Definition E_NP_PROMOTE    : Z := 70.  (* numpy DTypePromotionError in np.concatenate *)
Definition E_TIME_FIELDS   : Z := 80.  (* ValueError: missing time and endtime information (fix_dtype) *)

(* ------------------------------------------------------------------------------------------ *)
(* dtypes                                                                                      *)
(* ------------------------------------------------------------------------------------------ *)
Definition adt := list (Z * Z).      (* (field name id, scalar type id) in order, titles removed *)

Fixpoint adt_eqb (a b : adt) : bool :=
  match a, b with
  | [], [] => true
  | (f, t) :: a', (g, u) :: b' => (f =? g) && (t =? u) && adt_eqb a' b'
  | _, _ => false
  end.

Definition has_field (a : adt) (f : Z) : bool := existsb (fun p => fst p =? f) a.

(* field name ids fixed by the harness *)
Definition F_TIME : Z := 1.
Definition F_ENDTIME : Z := 2.
Definition F_LENGTH : Z := 8.
Definition F_DT : Z := 9.

(* Plugin.fix_dtype: required time information *)
Definition time_fields_ok (a : adt) : bool :=
  has_field a F_TIME && ((has_field a F_DT && has_field a F_LENGTH) || has_field a F_ENDTIME).

(* numpy promotion of two structured dtypes in np.concatenate: same field names in the same
   order, scalar types promoted (integer type ids are ordered by width) *)
Fixpoint np_promote (a b : adt) : option adt :=
  match a, b with
  | [], [] => Some []
  | (f, t) :: a', (g, u) :: b' =>
      if f =? g then
        match np_promote a' b' with Some r => Some ((f, Z.max t u) :: r) | None => None end
      else None
  | _, _ => None
  end.

(* ------------------------------------------------------------------------------------------ *)
(* Chunk with the dtype of its data; Chunk.__init__                                            *)
(* ------------------------------------------------------------------------------------------ *)
Record xchunk := mkx { xc : chunk; xdt : adt }.

(* Chunk(dtype=declared, data=<array of dtype data_dt>, ...) : the dtype comparison precedes the
   range checks (chunk.py:71-93). *)
Definition mk_xchunk (declared data_dt : adt) (s e : Z) (rows : list row) (label kind : Z)
    (run : option Z) (tgt : Z) : res xchunk :=
  if negb (adt_eqb declared data_dt) then Err E_CTOR_DTYPE
  else do c <- mk_chunk s e rows label kind run tgt; Ok (mkx c declared).

(* the constructor as it was before the repair of D2: got_dtype was computed from the declared
   dtype, so the comparison could not fail.  Used only to state what the repair changed. *)
Definition mk_xchunk_d2 (declared data_dt : adt) (s e : Z) (rows : list row) (label kind : Z)
    (run : option Z) (tgt : Z) : res xchunk :=
  do c <- mk_chunk s e rows label kind run tgt; Ok (mkx c data_dt).

Definition x_split (x : xchunk) (t : Z) (early : bool) : res (xchunk * xchunk) :=
  do '(a, b) <- chunk_split (xc x) t early; Ok (mkx a (xdt x), mkx b (xdt x)).

(* Chunk.concatenate of two chunks (the only arity the output path uses), with the numpy
   concatenation of the data and the constructor's dtype comparison against chunks[0].dtype *)
Definition x_concat2 (a b : xchunk) : res xchunk :=
  if negb (cdtype (xc a) =? cdtype (xc b)) then Err E_CONCAT_DTYPE
  else if negb (opt_eqb (crun (xc a)) (crun (xc b))) then Err E_CONCAT_RUN
  else if cstart (xc b) <? cend (xc a) then Err E_CONCAT_ORDER
  else match np_promote (xdt a) (xdt b) with
       | None => Err E_NP_PROMOTE
       | Some dt =>
           mk_xchunk (xdt a) dt (cstart (xc a)) (cend (xc b)) (crows (xc a) ++ crows (xc b))
             (cdtype (xc a)) (ckind (xc a)) (crun (xc a)) (Z.max (ctarget (xc a)) (ctarget (xc b)))
       end.

(* ------------------------------------------------------------------------------------------ *)
(* What a compute method can return                                                            *)
(* ------------------------------------------------------------------------------------------ *)
Inductive item :=
| IArr (dt : adt) (rows : list row)          (* a bare numpy array *)
| IMk (declared dt : adt) (label kind : Z) (s e : Z) (rows : list row)
                                             (* a strax.Chunk(dtype=declared, data_type=label,
                                                start=s, end=e, data=<array of dtype dt>) call;
                                                self.chunk(...) passes the plugin's own dtype *)
| ICols (fields : list Z) (rows : list row)  (* dict field name -> column *)
| IOther.                                    (* None, a tuple, a list, ... *)

Inductive value := VItem (i : item) | VDict (l : list (Z * item)).   (* dict data_type -> item *)
Inductive payload := PVal (v : value) | PGen (l : list value).       (* PGen: a generator *)

Inductive pkind := KSource | KOrdinary | KMulti | KDown | KLoop | KCut | KOverlap.

Record pdecl := mkp {
  p_kind : pkind;
  p_provides : list Z;                 (* data type ids *)
  p_dtypes : list (Z * adt);           (* dtype_for *)
  p_dkinds : list (Z * Z);             (* data_kind_for *)
  p_run : Z;
  p_tgt : Z                            (* chunk_target_size_mb, in rows *)
}.

Fixpoint assoc {A} (k : Z) (l : list (Z * A)) : option A :=
  match l with [] => None | (k', v) :: r => if k =? k' then Some v else assoc k r end.

Definition multi_output (p : pdecl) : bool := (1 <? Z.of_nat (length (p_provides p))).
Definition dtype_for (p : pdecl) (d : Z) : adt := match assoc d (p_dtypes p) with Some a => a | None => [] end.
Definition dkind_for (p : pdecl) (d : Z) : Z := match assoc d (p_dkinds p) with Some k => k | None => 0 end.

(* Plugin.fix_dtype, run when the context instantiates the plugin *)
Definition fix_dtype (p : pdecl) : res unit :=
  if forallb (fun d => time_fields_ok (dtype_for p d)) (p_provides p) then Ok tt else Err E_TIME_FIELDS.

(* strax.dict_to_rec(result, dtype) followed by Plugin._check_dtype *)
Definition to_checked_array (declared : adt) (i : item) : res (list row) :=
  match i with
  | IArr dt rows => if adt_eqb dt declared then Ok rows else Err E_WRONG_OUTPUT
  | ICols fs rows =>
      if (length fs =? 1)%nat then Err E_SINGLE_KEY
      else if forallb (has_field declared) fs then Ok rows else Err E_NO_FIELD
  | IMk _ _ _ _ _ _ _ => Ok []       (* not reached: chunks are handled before *)
  | IOther => Err E_NOT_ARRAY
  end.

(* The two defects found by C12 (design_notes/C12.md F1, F2) and their repair in /repo:
     F1  Plugin._fix_output did not compare the dtype of a returned Chunk with dtype_for()
     F2  DownChunkingPlugin._fix_output compared neither the label nor the dtype of a yielded chunk
   Every definition below takes `fx : bool` -- false = the code before the two `fix:` commits (kept
   as the `pinned` behaviour, about which the `_refuted` theorems speak), true = the repaired code.
   REPAIRED_F1F2 says which of the two /repo currently carries; the un-suffixed definitions
   (fix_output_single, down_one, ...) are the model of the current code. *)
Definition REPAIRED_F1F2 : bool := true.   (* /repo carries 312d850 (F1) and b7d8cdd (F2) *)

(* Plugin._fix_output for one data type (the part after the multi-output dispatch).
   range = Some (start, end) for plugins with dependencies, None for sources. *)
Definition fix_output_single_gen (fx : bool) (p : pdecl) (i : item) (range : option (Z * Z)) (d : Z)
  : res xchunk :=
  match i with
  | IMk declared dt label kind s e rows =>
      (* the Chunk was constructed inside compute; _fix_output compares the label and (repaired
         code only) the dtype of the data with the declared one *)
      do c <- mk_xchunk declared dt s e rows label kind (Some (p_run p)) (p_tgt p);
      if cdtype (xc c) =? d then
        (if fx && negb (adt_eqb (xdt c) (dtype_for p d)) then Err E_WRONG_OUTPUT else Ok c)
      else Err E_LABEL
  | _ =>
      match range with
      | None => Err E_SRC_NOT_CHUNK
      | Some (s, e) =>
          do rows <- to_checked_array (dtype_for p d) i;
          (* self.chunk(start, end, data_type=d, data) *)
          mk_xchunk (dtype_for p d) (dtype_for p d) s e rows d (dkind_for p d) (Some (p_run p)) (p_tgt p)
      end
  end.

Fixpoint fix_each_gen (fx : bool) (p : pdecl) (l : list (Z * item)) (range : option (Z * Z)) (ds : list Z)
  : res (list xchunk) :=
  match ds with
  | [] => Ok []
  | d :: rest =>
      match assoc d l with
      | None => Err E_KEY
      | Some i =>
          do c <- fix_output_single_gen fx p i range d;
          do cs <- fix_each_gen fx p l range rest;
          Ok (c :: cs)
      end
  end.

(* Plugin._fix_output: one message = one chunk per provided data type, in `provides` order *)
Definition fix_output_gen (fx : bool) (p : pdecl) (v : value) (range : option (Z * Z)) : res (list xchunk) :=
  if multi_output p then
    match v with
    | VDict l => fix_each_gen fx p l range (p_provides p)
    | VItem _ => Err E_NOT_DICT
    end
  else
    match v, p_provides p with
    | VItem i, d :: _ => do c <- fix_output_single_gen fx p i range d; Ok [c]
    | VDict l, d :: _ =>
        (* a dict for a single-output plugin is a dict of columns; its keys are data type names
           here, none of which is a field name *)
        if (length l =? 1)%nat then Err E_SINGLE_KEY else Err E_NO_FIELD
    | _, [] => Err E_KEY
    end.

(* building a chunk inside a generator body / compute: only the constructor runs *)
Definition build_item (p : pdecl) (i : item) : res (option xchunk) :=
  match i with
  | IMk declared dt label kind s e rows =>
      do c <- mk_xchunk declared dt s e rows label kind (Some (p_run p)) (p_tgt p); Ok (Some c)
  | _ => Ok None
  end.

(* the generator body builds every value of a yielded dict before _fix_output looks at it *)
Fixpoint build_items (p : pdecl) (l : list (Z * item)) : res (list (Z * option xchunk)) :=
  match l with
  | [] => Ok []
  | (k, i) :: rest =>
      do oc <- build_item p i; do cs <- build_items p rest; Ok ((k, oc) :: cs)
  end.

(* repaired DownChunkingPlugin._fix_output: label and dtype of a yielded chunk *)
Definition down_check (fx : bool) (p : pdecl) (d : Z) (c : xchunk) : res xchunk :=
  if fx then
    if cdtype (xc c) =? d then
      (if adt_eqb (xdt c) (dtype_for p d) then Ok c else Err E_WRONG_OUTPUT)
    else Err E_LABEL
  else Ok c.

Fixpoint down_checks (fx : bool) (p : pdecl) (l : list (Z * option xchunk)) : res (list xchunk) :=
  match l with
  | [] => Ok []
  | (_, None) :: _ => Err E_NOT_CHUNK
  | (k, Some c) :: rest => do c' <- down_check fx p k c; do cs <- down_checks fx p rest; Ok (c' :: cs)
  end.

(* DownChunkingPlugin._fix_output, one yielded value *)
Definition down_one_gen (fx : bool) (p : pdecl) (v : value) : res (list xchunk) :=
  match v with
  | VDict l =>
      do built <- build_items p l;
      if forallb (fun kc => match snd kc with Some _ => true | None => false end) built
      then down_checks fx p built else Err E_NOT_CHUNK
  | VItem i =>
      do oc <- build_item p i;      (* the generator body runs first *)
      if multi_output p then Err E_GEN_NOT_DICT
      else match oc, p_provides p with
           | None, _ => Err E_NOT_CHUNK
           | Some c, d :: _ => do c' <- down_check fx p d c; Ok [c']
           | Some c, [] => Err E_KEY
           end
  end.

(* A plugin invocation produces a list of messages, lazily: processing stops at the first Err *)
Definition msgs := list (res (list xchunk)).

Definition do_compute_out_gen (fx : bool) (p : pdecl) (pl : payload) (range : option (Z * Z)) : msgs :=
  match p_kind p with
  | KDown =>
      match pl with
      | PGen l => map (down_one_gen fx p) l
      | PVal _ => [Err E_NOT_GENERATOR]
      end
  | _ =>
      match pl with
      | PVal v => [fix_output_gen fx p v range]
      | PGen _ => [Err E_NOT_ARRAY]          (* len(generator) raises TypeError in dict_to_rec *)
      end
  end.

(* the model of the code /repo currently carries *)
Definition fix_output_single := fix_output_single_gen REPAIRED_F1F2.
Definition fix_each := fix_each_gen REPAIRED_F1F2.
Definition fix_output := fix_output_gen REPAIRED_F1F2.
Definition down_one := down_one_gen REPAIRED_F1F2.
Definition do_compute_out := do_compute_out_gen REPAIRED_F1F2.

(* ------------------------------------------------------------------------------------------ *)
(* LoopPlugin.compute and CutPlugin.compute (single output)                                    *)
(* ------------------------------------------------------------------------------------------ *)
Inductive loop_ret := LDict (fields : list Z) (r : row) | LOther.

Fixpoint loop_rows (declared : adt) (rets : list loop_ret) : res (list row) :=
  match rets with
  | [] => Ok []
  | LOther :: _ => Err E_LOOP_NOT_DICT
  | LDict fs r :: rest =>
      if forallb (has_field declared) fs then do rs <- loop_rows declared rest; Ok (r :: rs)
      else Err E_NO_FIELD
  end.

Definition loop_compute (p : pdecl) (d : Z) (rets : list loop_ret) : res payload :=
  do rs <- loop_rows (dtype_for p d) rets; Ok (PVal (VItem (IArr (dtype_for p d) rs))).

(* cut_by returned an array of n_ret entries for n input rows *)
Definition cut_compute (p : pdecl) (d : Z) (input : list row) (n_ret : nat) : res payload :=
  if (n_ret =? length input)%nat then Ok (PVal (VItem (IArr (dtype_for p d) input)))
  else Err E_BROADCAST.

(* ------------------------------------------------------------------------------------------ *)
(* OverlapWindowPlugin (single output, one dependency)                                         *)
(* ------------------------------------------------------------------------------------------ *)
Record ow_state := mkow { ow_cin : option chunk; ow_cres : option xchunk; ow_sent : Z }.
Definition ow_init : ow_state := mkow None None 0.

(* the input handed to compute: cached input ++ new chunk *)
Definition ow_input (st : ow_state) (inp : chunk) : res chunk :=
  match ow_cin st with
  | None => Ok inp
  | Some c => concatenate [Some c; Some inp] false
  end.

(* OverlapWindowPlugin.do_compute after super().do_compute returned `result` for input kw *)
Definition ow_after (w : Z) (st : ow_state) (kw : chunk) (result : xchunk) : res (xchunk * ow_state) :=
  let invalid_beyond := cend kw - 2 * w - 1 in
  do '(_, r1) <- x_split result (ow_sent st) false;
  do '(out, cached) <- x_split r1 invalid_beyond true;
  let sent := cstart (xc cached) in
  do '(_, cin) <- chunk_split kw (sent - 2 * w - 1) true;
  Ok (out, mkow (Some cin) (Some cached) sent).

(* ------------------------------------------------------------------------------------------ *)
(* Storage side: SaverSpy + Rechunker + Saver.close                                            *)
(* ------------------------------------------------------------------------------------------ *)
Inductive sstatus := SOpen | SClosedOk | SClosedExc.
Record saver := mksv { sv_type : Z; sv_rechunk : bool; sv_cache : option xchunk;
                       sv_saved : list xchunk; sv_status : sstatus }.

Definition sv_new (d : Z) (rechunk : bool) : saver := mksv d rechunk None [] SOpen.

(* SaverSpy.receive: Rechunker.receive then Saver.save.  The data is far below the target size,
   so the rechunker never splits: it keeps everything in its cache until flush. *)
Definition sv_receive (sv : saver) (c : xchunk) : res saver :=
  if sv_rechunk sv then
    match sv_cache sv with
    | None => Ok (mksv (sv_type sv) true (Some c) (sv_saved sv) SOpen)
    | Some k => do m <- x_concat2 k c; Ok (mksv (sv_type sv) true (Some m) (sv_saved sv) SOpen)
    end
  else Ok (mksv (sv_type sv) false None (sv_saved sv ++ [c]) SOpen).

Definition sv_flush (sv : saver) : list xchunk :=
  sv_saved sv ++ match sv_cache sv with Some k => [k] | None => [] end.

(* topic exhausted: flush + close without exception *)
Definition sv_close_ok (sv : saver) : saver :=
  match sv_status sv with
  | SOpen => mksv (sv_type sv) (sv_rechunk sv) None (sv_flush sv) SClosedOk
  | _ => sv
  end.
(* kill_spies: close() while an exception is being handled -> md["exception"] is written *)
Definition sv_close_exc (sv : saver) : saver :=
  match sv_status sv with
  | SOpen => mksv (sv_type sv) (sv_rechunk sv) None (sv_flush sv) SClosedExc
  | _ => sv
  end.
(* StorageFrontend.find: data is served only if writing_ended is present and no exception *)
Definition visible (sv : saver) : bool :=
  match sv_status sv with SClosedOk => true | _ => false end.

(* one message: the chunk for topic provides[i] goes to the savers of that topic.  The topic is
   the position in `provides`, not the chunk's own label (PostOffice._fetch_new keys by the dict
   key / the registered topic). *)
Fixpoint sv_deliver_topic (d : Z) (c : xchunk) (l : list saver) : res (list saver) :=
  match l with
  | [] => Ok []
  | sv :: r => if sv_type sv =? d
               then do sv' <- sv_receive sv c; do r' <- sv_deliver_topic d c r; Ok (sv' :: r')
               else do r' <- sv_deliver_topic d c r; Ok (sv :: r')
  end.

Fixpoint sv_deliver_msg (svs : list saver) (topics : list Z) (cs : list xchunk) : res (list saver) :=
  match topics, cs with
  | d :: ts, c :: rest => do svs' <- sv_deliver_topic d c svs; sv_deliver_msg svs' ts rest
  | _, _ => Ok svs
  end.

(* ------------------------------------------------------------------------------------------ *)
(* The run: SingleThreadProcessor + Context.get_iter                                           *)
(* ------------------------------------------------------------------------------------------ *)
Record outcome := mko { o_result : res (list xchunk);   (* chunks handed to the caller *)
                        o_savers : list saver }.

Fixpoint nth_chunk (topics : list Z) (cs : list xchunk) (target : Z) : option xchunk :=
  match topics, cs with
  | d :: ts, c :: rest => if d =? target then Some c else nth_chunk ts rest target
  | _, _ => None
  end.

(* strax.continuity_check step for an ordinary run *)
Definition cont_step (last_end : option Z) (c : xchunk) : bool :=
  match last_end with Some e => cstart (xc c) =? e | None => true end.

Fixpoint run_msgs (topics : list Z) (target : Z) (ms : msgs) (svs : list saver)
    (last_end : option Z) (acc : list xchunk) : outcome :=
  match ms with
  | [] => mko (Ok (rev acc)) (map sv_close_ok svs)
  | Err e :: _ => mko (Err e) (map sv_close_exc svs)
  | Ok cs :: rest =>
      match sv_deliver_msg svs topics cs with
      | Err e => mko (Err e) (map sv_close_exc svs)
      | Ok svs' =>
          match nth_chunk topics cs target with
          | None => mko (Err E_KEY) (map sv_close_exc svs')
          | Some c =>
              if cont_step last_end c
              then run_msgs topics target rest svs' (Some (cend (xc c))) (c :: acc)
              else mko (Err E_CONTINUITY) (map sv_close_exc svs')
          end
      end
  end.

Definition run_pipeline (p : pdecl) (target : Z) (rechunk : bool) (ms : msgs) : outcome :=
  match fix_dtype p with
  | Err e => mko (Err e) []
  | Ok _ => run_msgs (p_provides p) target ms (map (fun d => sv_new d rechunk) (p_provides p)) None []
  end.

(* Context.get_array: np.concatenate of the data of all result chunks *)
Fixpoint np_concat_all (dt : adt) (cs : list xchunk) : res adt :=
  match cs with
  | [] => Ok dt
  | c :: rest => match np_promote dt (xdt c) with Some d => np_concat_all d rest | None => Err E_NP_PROMOTE end
  end.

Definition get_array_result (o : outcome) : res (adt * list row) :=
  do cs <- o_result o;
  match cs with
  | [] => Ok ([], [])
  | c :: rest => do dt <- np_concat_all (xdt c) rest; Ok (dt, flat_map (fun x => crows (xc x)) cs)
  end.
