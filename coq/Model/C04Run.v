(* Runner-side views of the C04 model used by the extraction cross-check (scalars only). *)
From SV Require Import Model.FsProtocol Model.SaverRun.
Definition dsize (d : option dir) : Z := match d with None => -1 | Some l => Z.of_nat (length l) end.
Definition c04_state (f : fs) : bool * res bool * res (list (option Z)) * Z * Z :=
  (visible f, is_stored f, load f, dsize (f_temp f), dsize (f_final f)).
Definition c04_replay (allow : bool) (ex : list chunkspec) (f0 : fs) (tr : list event) :=
  (first_reject (mkPcfg ex allow) pst_init tr 0,
   match run_evs f0 tr with None => None | Some f => Some (c04_state f) end).
Definition c04_request (cfg : rcfg) (inp : input) (pl : plan) (sched : list (option nat)) (f0 : fs) :=
  let r := request cfg inp pl sched f0 in
  (res_out r, res_acc r, res_fin r, c04_state (res_fs r), length (res_tr r)).
