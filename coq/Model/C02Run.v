(* Runner-side instance of the C02 model: the hash is the identity on canonical strings (injective),
   so the cache / directory-name comparisons of the model are comparisons of canonical strings; the
   harness applies the real sha1/base32 to the rendered strings when comparing with strax. *)
From SV Require Import Base.Prelude Model.Canon Model.Lineage.

Definition HTc := list Z.
Definition hid (l : list Z) : HTc := l.
Definition heq : HTc -> HTc -> bool := list_eqb Z.eqb.

Definition op_ctx (o : op) (n : nat) : nat :=
  match o with
  | OSetConfig c _ _ | ORegister c _ | OSetFuzzy c _ _ => c
  | ONewContext _ | OEmptyContext => n
  | OKeyFor c _ _ | OIsStored c _ _ | OGet c _ _ | OMake c _ _ => c
  end.

(* per operation: the observation, and the canonical string of the context hash of the context the
   operation addressed (after the operation) *)
Fixpoint c02_run_from (fx : bool) (s : state HTc) (ops : list op) : list (obs * list Z) :=
  match ops with
  | [] => []
  | o :: r =>
      let (s1, ob) := step HTc hid heq fx s o in
      let ch := match nth_error (ctxs HTc s1) (op_ctx o (length (ctxs HTc s))) with
                | Some x => context_hash HTc hid fx (creg HTc x) (cconf HTc x)
                | None => []
                end in
      (ob, ch) :: c02_run_from fx s1 r
  end.

Definition c02_run (fx : bool) (ops : list op) : list (obs * list Z) :=
  c02_run_from fx (init_state HTc) ops.

Definition c02_key (l : lineage) : list Z := canon (lin_value l).

(* lineage of a data type in a brand-new context with the given registrations and configuration *)
Definition c02_canon (v : value) : list Z := canon v.

(* observations as token lists (what the driver prints; also used by the kernel cross-check) *)
Definition obs_tokens (o : obs) : list Z :=
  match o with
  | ObNone => [0]
  | ObBool b => [1; if b then 1 else 0]
  | ObErr e => [2; e]
  | ObKey l => 3 :: c02_key l
  | ObData d amb => 4 :: (if amb then 1 else 0) :: ser d
  end.

Definition c02_run_tokens (fx : bool) (ops : list op) : list (list Z * list Z) :=
  map (fun p => (obs_tokens (fst p), snd p)) (c02_run fx ops).
