(* Model for C13: pipelines of mailboxes as built by strax/processors/threaded_mailbox.py
   (ThreadedMailboxProcessor.__init__ / iter) on top of the single-mailbox transition system of
   Model/Mailbox.v (C05).

   A network is a list of C05 mailboxes (configuration + state) and a list of threads.  EVERY network
   step is exactly one C05 `step` (TS or TR i) on exactly one mailbox; the network only decides WHEN a
   thread may take that step.  Consequently every per-mailbox invariant of C05 that is preserved by
   `step` holds for every mailbox of every reachable network state (Proof/MailboxNetProof.v, `lift`).

   Threads
     Worker prog pc iter   a thread that cycles through `prog`, one loop iteration per message:
         OGate d     the lazy fetch gate on mailbox d          (_send_from 260-274 / divide_outputs 494-506)
         OPull u i   next() on subscription i of mailbox u     (Plugin._fetch_chunk -> Mailbox._read)
         OSend d     send() / close() on mailbox d             (Mailbox.send 305-352, close 354-359)
       loader / source plugin : [OGate d;] OSend d
       plugin (1 message of every dependency in, 1 out): [OGate d;] OPull .. ; OPull ..; OSend d
       divide_outputs : [OGate d (every non flow-freely output);] OPull mname 0; OSend d1; OSend d2 ..
     Sink u i budget       a reader that only consumes: saver / discarder (budget None), or the consumer
                           of ThreadedMailboxProcessor.iter which stops pulling after `p` chunks
                           (budget Some p).

   What a stage computes is irrelevant for flow control, and every stage is 1:1, so the sequence of
   messages a stage will send is known in advance ("prophecy"): mailbox d's C05 source list `src` is
   that sequence, and the network lets the sender of d take the C05 step that sends message k only
   after the thread has pulled message k of every dependency.  `OPull u i` in loop iteration k is
   complete as soon as subscription i of u has taken message k out of the mailbox (k < r_nread; the
   messages a single _read region grabs beyond the first stay in its to_yield list and are handed out
   without a lock region) — such pulls are skipped in the same step (`skip_pulls`), because the
   controlled scheduler has no yield point there.

   A flow-freely output of divide_outputs is never gated: its sender behaves as in eager mode, and the
   readers' `if self.lazy and self._can_fetch(): notify_all()` has no effect when nobody ever waits on
   _fetch_new_condition; it is therefore a C05 mailbox with c_lazy = false.  In lazy mode
   max_messages is finite as well: the processor overwrites the `inf` set by Mailbox.__init__.

   No proofs in this file. *)
From SV Require Import Base.Prelude Model.Mailbox.
Local Open Scope nat_scope.

Inductive op : Type := OGate (d : nat) | OPull (u i : nat) | OSend (d : nat).

Inductive thread : Type :=
| Worker (prog : list op) (pc : nat) (iter : nat)
| Sink (u i : nat) (budget : option nat).

Definition boxes : Type := list (config * state).

Record net : Type := mkNet { n_boxes : boxes; n_threads : list thread }.

(* ---------- looking into the boxes ---------- *)
Definition reader_of (bs : boxes) (u i : nat) : option reader :=
  match nth_error bs u with
  | Some (_, st) => nth_error (rds st) i
  | None => None
  end.

Definition nread_of (bs : boxes) (u i : nat) : nat :=
  match reader_of bs u i with Some r => r_nread r | None => 0 end.

Definition spc_of (bs : boxes) (d : nat) : spc :=
  match nth_error bs d with Some (_, st) => s_pc st | None => SDead end.

Definition sender_waits (x : spc) : bool :=
  match x with SGateWait | SSendWait _ _ _ => true | _ => false end.

(* one C05 step of thread t of mailbox d *)
Definition box_step (bs : boxes) (d : nat) (t : tid) : option boxes :=
  match nth_error bs d with
  | Some (cfg, st) =>
      match step cfg st t with
      | Some st' => Some (upd d (cfg, st') bs)
      | None => None
      end
  | None => None
  end.

(* ---------- workers ---------- *)
Definition advance (prog : list op) (pc iter : nat) : nat * nat :=
  if S pc <? length prog then (S pc, iter) else (0, S iter).

(* pulls that need no lock region: the message is already in the subscription's to_yield list *)
Fixpoint skip_pulls (fuel : nat) (bs : boxes) (prog : list op) (pc iter : nat) : nat * nat :=
  match fuel with
  | O => (pc, iter)
  | S f =>
      match nth_error prog pc with
      | Some (OPull u i) =>
          if iter <? nread_of bs u i
          then let '(pc', iter') := advance prog pc iter in skip_pulls f bs prog pc' iter'
          else (pc, iter)
      | _ => (pc, iter)
      end
  end.

Definition settle (bs : boxes) (prog : list op) (pc iter : nat) : thread :=
  let '(pc', iter') := skip_pulls (length prog) bs prog pc iter in Worker prog pc' iter'.

Definition budget_left (bs : boxes) (u i : nat) (budget : option nat) : bool :=
  match budget with Some p => nread_of bs u i <? p | None => true end.

(* which phase of _send_from / send the sender of a mailbox is in *)
Definition at_gate (x : spc) : bool := match x with SGate | SGateWait => true | _ => false end.
Definition at_send (x : spc) : bool := match x with SSend _ _ _ | SSendWait _ _ _ => true | _ => false end.

(* a thread's operation can only run when the mailbox is in the matching phase (in a network wired by
   `wire` it always is; the guards make an ill-formed network stop instead of doing something else), and a
   pull only enters _read's lock region when the message is not already in the subscription's hands *)
Definition thread_step (bs : boxes) (th : thread) : option (boxes * thread) :=
  match th with
  | Sink u i budget =>
      if budget_left bs u i budget then
        match box_step bs u (TR i) with
        | Some bs' => Some (bs', th)
        | None => None
        end
      else None
  | Worker prog pc iter =>
      match nth_error prog pc with
      | Some (OPull u i) =>
          if iter <? nread_of bs u i then None
          else
            match box_step bs u (TR i) with
            | Some bs' => Some (bs', settle bs' prog pc iter)
            | None => None
            end
      | Some (OGate d) =>
          if at_gate (spc_of bs d) then
            match box_step bs d TS with
            | Some bs' =>
                if sender_waits (spc_of bs' d) then Some (bs', th)
                else let '(pc', iter') := advance prog pc iter in Some (bs', settle bs' prog pc' iter')
            | None => None
            end
          else None
      | Some (OSend d) =>
          if at_send (spc_of bs d) then
            match box_step bs d TS with
            | Some bs' =>
                if sender_waits (spc_of bs' d) then Some (bs', th)
                else let '(pc', iter') := advance prog pc iter in Some (bs', settle bs' prog pc' iter')
            | None => None
            end
          else None
      | None => None
      end
  end.

Definition nstep (n : net) (w : nat) : option net :=
  match nth_error (n_threads n) w with
  | Some th =>
      match thread_step (n_boxes n) th with
      | Some (bs', th') => Some (mkNet bs' (upd w th' (n_threads n)))
      | None => None
      end
  | None => None
  end.

Definition nenabled (n : net) (w : nat) : bool :=
  match nstep n w with Some _ => true | None => false end.

Fixpoint nrun (n : net) (sched : list nat) : option net :=
  match sched with
  | [] => Some n
  | w :: rest => match nstep n w with Some n' => nrun n' rest | None => None end
  end.

Fixpoint ntrace (n : net) (sched : list nat) : list net :=
  match sched with
  | [] => []
  | w :: rest => match nstep n w with Some n' => n' :: ntrace n' rest | None => [] end
  end.

(* no thread can move: the network is at rest (the consumer is a Sink whose budget is used up) *)
Definition quiescent (n : net) : bool :=
  forallb (fun w => negb (nenabled n w)) (seq 0 (length (n_threads n))).

(* ---------- what is measured ---------- *)
(* number of times the source iterable of mailbox d has been advanced (next(iterable) returned an item):
   the items taken out of the prophecy list *)
Definition advances (total : nat) (bs : boxes) (d : nat) : nat :=
  match nth_error bs d with Some (_, st) => total - length (src st) | None => 0 end.

Definition box_len (bs : boxes) (d : nat) : nat :=
  match nth_error bs d with Some (_, st) => length (box st) | None => 0 end.

(* thread status as the controlled scheduler reports it: 0 runnable, 1 blocked, 2 finished *)
Definition spc_final (x : spc) : bool := match x with SDone | SDead => true | _ => false end.
Definition rpc_final (x : rpc) : bool := match x with RDone | RRaised => true | _ => false end.

Definition sends_of (prog : list op) : list nat :=
  flat_map (fun o => match o with OSend d => [d] | _ => [] end) prog.

Definition thread_finished (bs : boxes) (th : thread) : bool :=
  match th with
  | Worker prog _ _ => forallb (fun d => spc_final (spc_of bs d)) (sends_of prog)
  | Sink u i None => match reader_of bs u i with Some r => rpc_final (r_pc r) | None => true end
  | Sink _ _ (Some _) => false      (* the consumer pauses, it never returns *)
  end.

Definition thread_status (n : net) (w : nat) : nat :=
  if nenabled n w then 0
  else match nth_error (n_threads n) w with
       | Some th => if thread_finished (n_boxes n) th then 2 else 1
       | None => 2
       end.

(* ---------- the wiring of ThreadedMailboxProcessor.__init__ ---------- *)
Record plugin : Type := mkPlugin {
  p_provides : list nat;          (* data types, as numbers *)
  p_deps : list nat;              (* depends_on, in order *)
  p_maxmsg : option nat;          (* Plugin.max_messages *)
}.

Record comps : Type := mkComps {
  c_plugins : list (nat * nat);   (* components.plugins in iteration order: (data type, index into c_defs) *)
  c_defs : list plugin;
  c_loaders : list nat;           (* components.loaders keys in order *)
  c_savers : list (nat * nat);    (* components.savers in order: (data type, number of savers) *)
  c_target : nat;                 (* components.targets[0] *)
}.

Record popts : Type := mkOpts {
  o_allow_lazy : bool;
  o_single : bool;                (* max_workers in [None, 1] *)
  o_maxmsg : nat;                 (* max_messages *)
}.

Definition memb (x : nat) (l : list nat) : bool := existsb (Nat.eqb x) l.
Definition diff (a b : list nat) : list nat := filter (fun x => negb (memb x b)) a.
Fixpoint dedup (l : list nat) : list nat :=
  match l with [] => [] | x :: t => if memb x t then dedup t else x :: dedup t end.

Definition pdef (c : comps) (q : nat) : plugin := nth q (c_defs c) (mkPlugin [] [] None).
Definition multi_output (p : plugin) : bool := 1 <? length (p_provides p).

(* plugin indices in the order the constructor's loop meets them, every plugin once, with the key d
   under which it is met first *)
Fixpoint plugin_order (l : list (nat * nat)) (seen : list nat) : list (nat * nat) :=
  match l with
  | [] => []
  | (d, q) :: t => if memb q seen then plugin_order t seen else (d, q) :: plugin_order t (q :: seen)
  end.

Definition lazy_mode (o : popts) : bool := if o_single o then o_allow_lazy o else false.

Definition produced (c : comps) : list nat :=
  c_loaders c ++ flat_map (fun dq => p_provides (pdef c (snd dq))) (c_plugins c).
Definition required (c : comps) : list nat :=
  c_target c :: flat_map (fun dq => p_deps (pdef c (snd dq))) (c_plugins c).
Definition saved (c : comps) : list nat :=
  flat_map (fun dn => if 0 <? snd dn then [fst dn] else []) (c_savers c).
Definition built (c : comps) : list nat :=
  flat_map (fun dq => p_provides (pdef c (snd dq))) (c_plugins c).

(* to_flow_freely after the constructor's loop (the set object is shared by every divider, so the
   final value is what every divide_outputs sees at run time), and to_discard (computed before) *)
Definition flow0 (c : comps) : list nat := diff (produced c) (required c).
Definition to_discard (c : comps) : list nat := dedup (diff (flow0 c) (saved c)).
Definition flow_freely (c : comps) : list nat :=
  flow0 c ++ flat_map (fun dq => let p := pdef c (snd dq) in
                                 if multi_output p then diff (p_provides p) [fst dq] else [])
                      (plugin_order (c_plugins c) []).
Definition divided (c : comps) (p : plugin) : list nat := diff (p_provides p) (c_loaders c).

(* mailbox keys: a data type, or the temporary <PluginClass>_divide_outputs mailbox of plugin q *)
Inductive mkey : Type := KD (d : nat) | KM (q : nat).
Definition mkey_eqb (a b : mkey) : bool :=
  match a, b with KD x, KD y => x =? y | KM x, KM y => x =? y | _, _ => false end.

(* mailboxes created so far with the can_drive flags of their subscribers in subscription order *)
Definition wstate : Type := list (mkey * list bool).

Fixpoint ws_index (k : mkey) (ws : wstate) : option nat :=
  match ws with
  | [] => None
  | (k', _) :: t => if mkey_eqb k k' then Some 0 else option_map S (ws_index k t)
  end.

Definition ws_touch (k : mkey) (ws : wstate) : nat * wstate :=
  match ws_index k ws with Some m => (m, ws) | None => (length ws, ws ++ [(k, [])]) end.

Definition ws_subscribe (k : mkey) (drive : bool) (ws : wstate) : nat * nat * wstate :=
  let '(m, ws1) := ws_touch k ws in
  let i := match nth_error ws1 m with Some (_, ds) => length ds | None => 0 end in
  (m, i, map (fun kd => if mkey_eqb (fst kd) k then (fst kd, snd kd ++ [drive]) else kd) ws1).

Fixpoint ws_subscribe_all (ks : list mkey) (ws : wstate) : list (nat * nat) * wstate :=
  match ks with
  | [] => ([], ws)
  | k :: t => let '(m, i, ws1) := ws_subscribe k true ws in
              let '(l, ws2) := ws_subscribe_all t ws1 in ((m, i) :: l, ws2)
  end.

Fixpoint ws_touch_all (ks : list mkey) (ws : wstate) : list nat * wstate :=
  match ks with
  | [] => ([], ws)
  | k :: t => let '(m, ws1) := ws_touch k ws in
              let '(l, ws2) := ws_touch_all t ws1 in (m :: l, ws2)
  end.

(* thread descriptions (who they are in the real processor), for the harness's name table *)
Inductive tdesc : Type :=
| TLoad (d : nat) | TBuild (d : nat) | TMo (d : nat) | TDiv (q : nat)
| TSave (d i : nat) | TDiscard (d : nat) | TConsumer.

Definition sender_prog (lz : bool) (m : nat) (pulls : list (nat * nat)) : list op :=
  (if lz then [OGate m] else []) ++ map (fun ui => OPull (fst ui) (snd ui)) pulls ++ [OSend m].

Definition wthreads : Type := list (tdesc * thread).

Fixpoint wire_loaders (lz : bool) (ls : list nat) (ws : wstate) : wthreads * wstate :=
  match ls with
  | [] => ([], ws)
  | d :: t => let '(m, ws1) := ws_touch (KD d) ws in
              let '(ths, ws2) := wire_loaders lz t ws1 in
              ((TLoad d, Worker (sender_prog lz m []) 0 0) :: ths, ws2)
  end.

Fixpoint wire_plugins (c : comps) (lz : bool) (ff : list nat) (l : list (nat * nat)) (ws : wstate)
  : wthreads * wstate :=
  match l with
  | [] => ([], ws)
  | (d, q) :: t =>
      let p := pdef c q in
      if multi_output p then
        let '(mn, ws0) := ws_touch (KM q) ws in
        let '(pulls, ws1) := ws_subscribe_all (map KD (p_deps p)) ws0 in
        let outs := divided c p in
        let '(oms, ws2) := ws_touch_all (map KD outs) ws1 in
        let '(_, ri, ws3) := ws_subscribe (KM q) true ws2 in
        let gated := flat_map (fun dm => if memb (fst dm) ff then [] else [snd dm]) (combine outs oms) in
        let dprog := (if lz then map OGate gated else []) ++ [OPull mn ri] ++ map OSend oms in
        let '(ths, ws4) := wire_plugins c lz ff t ws3 in
        ((TMo d, Worker (sender_prog lz mn pulls) 0 0) :: (TDiv q, Worker dprog 0 0) :: ths, ws4)
      else
        let '(pulls, ws1) := ws_subscribe_all (map KD (p_deps p)) ws in
        let '(m, ws2) := ws_touch (KD d) ws1 in
        let '(ths, ws3) := wire_plugins c lz ff t ws2 in
        ((TBuild d, Worker (sender_prog lz m pulls) 0 0) :: ths, ws3)
  end.

Fixpoint wire_savers_of (d : nat) (drive : bool) (k n : nat) (ws : wstate) : wthreads * wstate :=
  match n with
  | O => ([], ws)
  | S n' => let '(m, i, ws1) := ws_subscribe (KD d) drive ws in
            let '(ths, ws2) := wire_savers_of d drive (S k) n' ws1 in
            ((TSave d k, Sink m i None) :: ths, ws2)
  end.

Fixpoint wire_savers (c : comps) (lz : bool) (l : list (nat * nat)) (ws : wstate) : wthreads * wstate :=
  match l with
  | [] => ([], ws)
  | (d, n) :: t =>
      let drive := if memb d (built c) then negb lz else true in
      let '(a, ws1) := wire_savers_of d drive 0 n ws in
      let '(b, ws2) := wire_savers c lz t ws1 in
      (a ++ b, ws2)
  end.

Fixpoint wire_discarders (l : list nat) (ws : wstate) : wthreads * wstate :=
  match l with
  | [] => ([], ws)
  | d :: t => let '(m, i, ws1) := ws_subscribe (KD d) true ws in
              let '(ths, ws2) := wire_discarders t ws1 in
              ((TDiscard d, Sink m i None) :: ths, ws2)
  end.

(* is mailbox k's sender gated in lazy mode?  _send_from always; divide_outputs unless flow-freely *)
Definition divider_outputs (c : comps) : list nat :=
  flat_map (fun dq => let p := pdef c (snd dq) in if multi_output p then divided c p else [])
           (plugin_order (c_plugins c) []).

Definition key_gated (c : comps) (k : mkey) : bool :=
  match k with
  | KM _ => true
  | KD d => if memb d (divider_outputs c) then negb (memb d (flow_freely c)) else true
  end.

Definition key_cap (c : comps) (o : popts) (k : mkey) : nat :=
  match k with
  | KM _ => o_maxmsg o
  | KD d =>
      match find (fun dq => fst dq =? d) (c_plugins c) with
      | Some (_, q) => match p_maxmsg (pdef c q) with Some m => m | None => o_maxmsg o end
      | None => o_maxmsg o
      end
  end.

Record wiring : Type := mkWiring {
  w_boxes : list (mkey * config * list bool);      (* mailbox, its C05 configuration, can_drive per subscriber *)
  w_threads : wthreads;                            (* in the order the constructor creates them; consumer last *)
}.

Definition wire (c : comps) (o : popts) (p : nat) : wiring :=
  let lz := lazy_mode o in
  let '(t1, ws1) := wire_loaders lz (c_loaders c) [] in
  let '(t2, ws2) := wire_plugins c lz (flow_freely c) (plugin_order (c_plugins c) []) ws1 in
  let '(t3, ws3) := wire_savers c lz (c_savers c) ws2 in
  let '(t4, ws4) := wire_discarders (to_discard c) ws3 in
  let '(m, i, ws5) := ws_subscribe (KD (c_target c)) true ws4 in
  mkWiring
    (map (fun kd => (fst kd, mkConfig (Some (key_cap c o (fst kd))) (lz && key_gated c (fst kd)), snd kd)) ws5)
    (t1 ++ t2 ++ t3 ++ t4 ++ [(TConsumer, Sink m i (Some p))]).

(* the messages every mailbox carries in a run of N chunks *)
Definition chunk_msgs (N : nat) : list (option nat * msg) :=
  map (fun k => (@None nat, Plain (Z.of_nat k))) (seq 0 N).

Definition net_of (w : wiring) (N : nat) : net :=
  mkNet (map (fun kcd => let '(_, cfg, ds) := kcd in (cfg, init cfg ds (chunk_msgs N) None 0)) (w_boxes w))
        (map snd (w_threads w)).

(* a network from a list of (configuration, can_drive flags) and a list of threads *)
Definition mk_net (nb : list (config * list bool)) (ths : list thread) (N : nat) : net :=
  mkNet (map (fun cd => (fst cd, init (fst cd) (snd cd) (chunk_msgs N) None 0)) nb) ths.

(* ---------- the families of Props/C13.v, written out ---------- *)
(* Chain of L senders: thread 0 is a loader / source plugin feeding mailbox 0, thread j (0 < j < L) a
   plugin that takes one message of mailbox j-1 (as its only subscriber) and sends one to mailbox j, the
   last thread is the consumer of mailbox L-1 that stops after p chunks.  Every mailbox has
   max_messages = c; lz = lazy mode. *)
Definition chain_prog (lz : bool) (j : nat) : list op :=
  sender_prog lz j (match j with O => [] | S k => [(k, 0)] end).
Definition chain_threads (L : nat) (lz : bool) (p : nat) : list thread :=
  map (fun j => Worker (chain_prog lz j) 0 0) (seq 0 L) ++ [Sink (L - 1) 0 (Some p)].
Definition chain_boxes (L c : nat) (lz : bool) : list (config * list bool) :=
  repeat (mkConfig (Some c) lz, [true]) L.
Definition chain_net (L c : nat) (lz : bool) (p N : nat) : net :=
  mk_net (chain_boxes L c lz) (chain_threads L lz p) N.

(* One multi-output stage: mailbox 0 is fed by the source, thread 1 (the multi-output plugin's iter) takes
   from mailbox 0 and sends dicts to mailbox 1 (<Plugin>_divide_outputs), thread 2 (divide_outputs) takes
   from mailbox 1 and sends to the k output mailboxes 2 .. k+1, gated in lazy mode by the outputs listed in
   `gated` (the others flow freely).  `sides` are the savers / discarders: (mailbox, subscriber index)
   pairs of sinks without budget; the consumer is subscriber `it` of output mailbox 2+t.
   drives j = the can_drive flags of the subscribers of output j. *)
Definition divider_prog (lz : bool) (k : nat) (gated : list nat) : list op :=
  (if lz then map OGate gated else []) ++ [OPull 1 0] ++ map OSend (seq 2 k).
Definition fanout_threads (k : nat) (lz : bool) (gated : list nat) (sides : list (nat * nat))
                          (t it p : nat) : list thread :=
  [Worker (sender_prog lz 0 []) 0 0; Worker (sender_prog lz 1 [(0, 0)]) 0 0;
   Worker (divider_prog lz k gated) 0 0]
  ++ map (fun ui => Sink (fst ui) (snd ui) None) sides ++ [Sink (2 + t) it (Some p)].
Definition fanout_boxes (k c : nat) (lz : bool) (gated : list nat) (drives : nat -> list bool)
  : list (config * list bool) :=
  [(mkConfig (Some c) lz, [true]); (mkConfig (Some c) lz, [true])]
  ++ map (fun j => (mkConfig (Some c) (lz && memb (2 + j) gated), drives j)) (seq 0 k).
Definition fanout_net (k c : nat) (lz : bool) (gated : list nat) (drives : nat -> list bool)
                      (sides : list (nat * nat)) (t it p N : nat) : net :=
  mk_net (fanout_boxes k c lz gated drives) (fanout_threads k lz gated sides t it p) N.

(* ---------- the explicit bounds of Props/C13.v ---------- *)
(* chain of L senders (source + L-1 plugins), every mailbox with max_messages = c: how many items the
   source can have produced beyond the p chunks the consumer takes *)
Definition B_chain (L c : nat) : nat := 2 * c * L + 1.
(* source -> multi-output plugin -> divide_outputs -> target output: three mailboxes on the path *)
Definition B_fanout (c : nat) : nat := 6 * c + 1.
