(* Model of strax.chunk.Chunk (constructor checks, split, concatenate) for ordinary runs.
   Sub-run / super-run annotations are modelled separately (Model/Annot.v, property C14).
   Error codes are listed below; the harness maps exception class + message to them. *)
From SV Require Export Model.Rows Model.SplitArray Model.SourceConstants.

Definition E_NEG_START   : Z := 1.   (* ValueError: negative start time *)
Definition E_NEG_LEN     : Z := 2.   (* ValueError: negative length *)
Definition E_STARTS_EARLY: Z := 3.   (* ValueError: data starts early *)
Definition E_ENDS_LATE   : Z := 4.   (* ValueError: data ends late *)
Definition E_CANNOT_SPLIT: Z := 10.  (* strax.CannotSplit *)
Definition E_CONCAT_EMPTY: Z := 20.  (* ValueError: need at least one chunk *)
Definition E_CONCAT_DTYPE: Z := 21.  (* ValueError: different data types *)
Definition E_CONCAT_RUN  : Z := 22.  (* ValueError: different run ids *)
Definition E_CONCAT_ORDER: Z := 23.  (* ValueError: overlapping or out-of-order *)

Record chunk := mkchunk {
  cstart : Z; cend : Z; crows : list row;
  cdtype : Z;            (* data_type name id *)
  ckind  : Z;            (* data_kind id *)
  crun   : option Z;     (* run id; None only after concatenating different runs *)
  ctarget: Z             (* target size in rows (stands for target_size_mb) *)
}.

Definition lastn {A} (n : nat) (l : list A) : list A := skipn (length l - n) l.

(* strax.endtime(data[-W:]).max() for a non-empty window *)
Definition max_end (rs : list row) : Z :=
  match rs with [] => 0 | r :: rest => zmaxl (re r) (map re rest) end.

Definition end_window : nat := Z.to_nat CHUNK_END_WINDOW.

(* Chunk.__init__ : the range checks, in the order the code performs them *)
Definition mk_chunk (s e : Z) (rows : list row) (dt kind : Z) (run : option Z) (tgt : Z) : res chunk :=
  if s <? 0 then Err E_NEG_START
  else if s >? e then Err E_NEG_LEN
  else
    let c := mkchunk s e rows dt kind run tgt in
    match rows with
    | [] => Ok c
    | r0 :: _ =>
        if rt r0 <? s then Err E_STARTS_EARLY
        else if max_end (lastn end_window rows) >? e then Err E_ENDS_LATE
        else Ok c
    end.

(* semantic validity used in theorem hypotheses *)
Definition wf (c : chunk) : Prop :=
  0 <= cstart c /\ cstart c <= cend c /\ sorted (crows c) /\
  Forall (fun r => cstart c <= rt r /\ rt r <= re r /\ re r <= cend c) (crows c).

Definition wfb (c : chunk) : bool :=
  (0 <=? cstart c) && (cstart c <=? cend c) && sortedb (crows c) &&
  forallb (fun r => (cstart c <=? rt r) && (rt r <=? re r) && (re r <=? cend c)) (crows c).

(* Chunk.split *)
Definition chunk_split (c : chunk) (t0 : Z) (early : bool) : res (chunk * chunk) :=
  let t := Z.max (Z.min t0 (cend c)) (cstart c) in
  let r :=
    if t =? cend c then Some (crows c, [], t)
    else if t =? cstart c then Some ([], crows c, t)
    else split_array (crows c) t early in
  match r with
  | None => Err E_CANNOT_SPLIT
  | Some (d1, d2, t') =>
      do c1 <- mk_chunk (cstart c) (Z.max (cstart c) t') d1 (cdtype c) (ckind c) (crun c) (ctarget c);
      do c2 <- mk_chunk (Z.max (cstart c) t') (Z.max t' (cend c)) d2 (cdtype c) (ckind c) (crun c) (ctarget c);
      Ok (c1, c2)
  end.

Fixpoint somes {A} (l : list (option A)) : list A :=
  match l with [] => [] | Some x :: r => x :: somes r | None :: r => somes r end.

Definition opt_eqb (a b : option Z) : bool :=
  match a, b with Some x, Some y => x =? y | None, None => true | _, _ => false end.

Fixpoint order_ok (prev_end : Z) (cs : list chunk) : bool :=
  match cs with
  | [] => true
  | c :: rest => if cstart c <? prev_end then false else order_ok (cend c) rest
  end.

Fixpoint last_end (d : Z) (cs : list chunk) : Z :=
  match cs with [] => d | c :: rest => last_end (cend c) rest end.

(* Chunk.concatenate (ordinary runs; with allow_superrun and different run ids the run id is None) *)
Definition concatenate (ocs : list (option chunk)) (allow_superrun : bool) : res chunk :=
  match somes ocs with
  | [] => Err E_CONCAT_EMPTY
  | [c] => Ok c
  | c0 :: rest =>
      let cs := c0 :: rest in
      if negb (forallb (fun c => cdtype c =? cdtype c0) cs) then Err E_CONCAT_DTYPE
      else
        let same_run := forallb (fun c => opt_eqb (crun c) (crun c0)) cs in
        if negb same_run && negb allow_superrun then Err E_CONCAT_RUN
        else if negb (order_ok 0 cs) then Err E_CONCAT_ORDER
        else mk_chunk (cstart c0) (last_end (cend c0) rest) (flat_map crows cs)
               (cdtype c0) (ckind c0) (if same_run then crun c0 else None)
               (fold_left Z.max (map ctarget cs) (ctarget c0))
  end.

(* strax.continuity_check for ordinary runs: every chunk of the same run must start where the
   previous one ended.  Returns the index of the first offending chunk. *)
Fixpoint continuity_from (last_end : option Z) (last_run : option Z) (i : nat) (cs : list chunk) : option nat :=
  match cs with
  | [] => None
  | c :: rest =>
      let le := if opt_eqb (crun c) last_run then last_end else None in
      match le with
      | Some e => if negb (cstart c =? e) then Some i else continuity_from (Some (cend c)) (crun c) (S i) rest
      | None => continuity_from (Some (cend c)) (crun c) (S i) rest
      end
  end.
Definition continuity_check (cs : list chunk) : option nat := continuity_from None None 0 cs.
