(* Runner-side views of the C18 model used by the extraction cross-check: results flattened to
   lists of integers, first element 1 = Ok, 0 = Err code. *)
From SV Require Import Model.Hits Model.Reduction.

Definition flat_hit (h : hit) : list Z :=
  [h_time h; h_length h; h_dt h; h_ch h; h_area h; h_left h; h_right h; h_reci h; h_thr h; h_height h; h_maxtime h].
Definition flat_rec (r : rec) : list Z :=
  [r_time r; r_length r; r_dt r; r_ch r; r_plen r; r_reci r; r_area r; r_level r; r_bl r; r_rms r; r_shift r]
  ++ r_data r.
Definition flat_res {A} (f : A -> list Z) (x : res (list A)) : list Z :=
  match x with Ok l => 1 :: concat (map f l) | Err e => [0; e] end.

Definition c18_find_hits rs amp hon := flat_res flat_hit (find_hits rs amp hon).
Definition c18_record_links rs :=
  match record_links rs with Ok (p, n) => 1 :: p ++ n | Err e => [0; e] end.
Definition c18_cut_outside_hits rs (hs : list (Z * Z * Z)) le re :=
  flat_res flat_rec (cut_outside_hits rs
    (map (fun '(ri, a, b) => mkhit 0 0 0 0 0 a b ri 0 0 0) hs) le re).
Definition c18_cut_baseline rs nb na := flat_res flat_rec (Ok (cut_baseline rs nb na)).
Definition c18_zero_oob rs := flat_res flat_rec (Ok (zero_out_of_bounds rs)).
Definition c18_integrate rs := flat_res flat_rec (Ok (integrate rs)).
Definition c18_baseline rs bs flip sloppy fb := flat_res flat_rec (baseline rs bs flip sloppy fb).
