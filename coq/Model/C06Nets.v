(* The two families of networks the C06 theorems speak about, exactly as
   ThreadedMailboxProcessor.__init__ wires them (thread creation order, mailbox order, subscriber order,
   can_drive flags, flow_freely): the harness compares the network derived from the real processor with
   these definitions on every run (driver command `family`).  fx = true: the repaired code (F1-F3 fixed),
   fx = false: the code before the repairs.  No proofs.

   chain:   source plugin s0 -> s1 -> ... -> s(L-1) = target, nsav_i savers on mailbox i
            threads  0..L-1 the plugin threads (stage i sends to mailbox i, reads subscriber 0 of mailbox i-1),
                     then the savers mailbox by mailbox, then the caller
   fan-out: source s0 -> multi-output plugin m (provides x = target and y) -> divide_outputs -> x, y
            mailboxes 0 = s0, 1 = m's divide mailbox, 2 / 3 = the provided types in the order of `provides`
            threads  0 source, 1 m, 2 divide_outputs, savers of x, savers of y, discarder of y (if unsaved), caller *)
From SV Require Import Base.Prelude Model.Mailbox Model.MailboxFail.
Local Open Scope nat_scope.

Fixpoint sum_first (l : list nat) (i : nat) : nat :=
  match i, l with
  | S j, x :: t => x + sum_first t j
  | _, _ => 0
  end.

Record chain_spec : Type := mkChain {
  ch_N : nat;                (* chunks *)
  ch_caps : list nat;        (* max_messages per mailbox; the length is the number of stages *)
  ch_nsav : list nat;        (* savers per mailbox *)
  ch_lazy : bool;
  ch_relay : bool;           (* the caller goes through Context.get_iter *)
}.

Section Chain.
Variable sp : chain_spec.
Let L := length (ch_caps sp).
Let nsav (i : nat) := nth i (ch_nsav sp) 0.

Definition chain_stage (i : nat) : thread :=
  mk_thread (KStage (ch_N sp) i) (match i with O => [] | S p => [(p, 0)] end).
(* subscribers of mailbox i: the next plugin first (except on the target), the savers, the caller last *)
Definition saver_base (i : nat) : nat := if S i <? L then 1 else 0.
Definition chain_savers_of (i : nat) : list thread :=
  map (fun k => mk_thread (KSaver false) [(i, saver_base i + k)]) (seq 0 (nsav i)).
Definition chain_threads : list thread :=
  map chain_stage (seq 0 L) ++ flat_map chain_savers_of (seq 0 L)
  ++ [mk_thread (KMain (ch_relay sp)) [(L - 1, nsav (L - 1))]].
Definition chain_box (i : nat) : mbox :=
  mk_mbox (nth i (ch_caps sp) 1) (ch_lazy sp)
          ((if S i <? L then [true] else []) ++ repeat (negb (ch_lazy sp)) (nsav i)
           ++ (if S i <? L then [] else [true])).
Definition chain_boxes : list mbox := map chain_box (seq 0 L).
Definition chain_saver_tid (i k : nat) : nat := L + sum_first (ch_nsav sp) i + k.
Definition chain_saver_tids : list nat :=
  flat_map (fun i => map (chain_saver_tid i) (seq 0 (nsav i))) (seq 0 L).
Definition chain_join : list nat :=
  flat_map (fun i => i :: map (chain_saver_tid i) (seq 0 (nsav i))) (seq 0 L).
Definition chain_main : nat := L + sum_first (ch_nsav sp) L.
Definition chain_net (fx : bool) (fault : option (nat * nat * nat)) (cfault : option (nat * bool * nat)) : net :=
  mkNet fault cfault (seq 0 L) chain_join chain_saver_tids fx fx fx.
Definition chain_init (fx : bool) (fault : option (nat * nat * nat)) (cfault : option (nat * bool * nat)) : nstate :=
  ninit (chain_net fx fault cfault) chain_boxes chain_threads.
End Chain.

Record fan_spec : Type := mkFan {
  fn_N : nat;
  fn_cap : nat;              (* max_messages (the same on the four mailboxes) *)
  fn_lazy : bool;
  fn_side_first : bool;      (* provides = (y, x) instead of (x, y) *)
  fn_savx : nat;             (* savers of the target x *)
  fn_savy : nat;             (* savers of the side output y; 0 = y is discarded *)
  fn_relay : bool;
}.

Section Fan.
Variable sp : fan_spec.
Let mx : nat := if fn_side_first sp then 3 else 2.
Let my : nat := if fn_side_first sp then 2 else 3.
Let lz := fn_lazy sp.

(* flow_freely: y is produced but not required; every provided type except the first becomes flow-freely
   by the `double_dependency` update *)
Definition fan_outs : list (nat * bool) :=
  if fn_side_first sp then [(2, true); (3, true)] else [(2, false); (3, true)].
Definition fan_threads : list thread :=
  [mk_thread (KStage (fn_N sp) 0) []; mk_thread (KStage (fn_N sp) 1) [(0, 0)];
   mk_thread (KDivider fan_outs) [(1, 0)]]
  ++ map (fun k => mk_thread (KSaver false) [(mx, k)]) (seq 0 (fn_savx sp))
  ++ map (fun k => mk_thread (KSaver false) [(my, k)]) (seq 0 (fn_savy sp))
  ++ (if fn_savy sp =? 0 then [mk_thread KDiscard [(my, 0)]] else [])
  ++ [mk_thread (KMain (fn_relay sp)) [(mx, fn_savx sp)]].
Definition fan_box_x : mbox := mk_mbox (fn_cap sp) lz (repeat (negb lz) (fn_savx sp) ++ [true]).
Definition fan_box_y : mbox :=
  mk_mbox (fn_cap sp) lz (if fn_savy sp =? 0 then [true] else repeat (negb lz) (fn_savy sp)).
Definition fan_boxes : list mbox :=
  [mk_mbox (fn_cap sp) lz [true]; mk_mbox (fn_cap sp) lz [true]]
  ++ (if fn_side_first sp then [fan_box_y; fan_box_x] else [fan_box_x; fan_box_y]).
Definition fan_savx_tids : list nat := map (fun k => 3 + k) (seq 0 (fn_savx sp)).
Definition fan_savy_tids : list nat := map (fun k => 3 + fn_savx sp + k) (seq 0 (fn_savy sp)).
Definition fan_discard_tid : list nat := if fn_savy sp =? 0 then [3 + fn_savx sp] else [].
Definition fan_main : nat := 3 + fn_savx sp + fn_savy sp + (if fn_savy sp =? 0 then 1 else 0).
(* _threads of each mailbox in mailbox order: s0: [source]; m's mailbox: [m, divider]; x: savers; y: savers / discarder *)
Definition fan_join : list nat :=
  [0; 1; 2] ++ (if fn_side_first sp then fan_savy_tids ++ fan_discard_tid ++ fan_savx_tids
                else fan_savx_tids ++ fan_savy_tids ++ fan_discard_tid).
Definition fan_net (fx : bool) (fault : option (nat * nat * nat)) (cfault : option (nat * bool * nat)) : net :=
  mkNet fault cfault [0; 1; 2; 3] fan_join (fan_savx_tids ++ fan_savy_tids) fx fx fx.
Definition fan_init (fx : bool) (fault : option (nat * nat * nat)) (cfault : option (nat * bool * nat)) : nstate :=
  ninit (fan_net fx fault cfault) fan_boxes fan_threads.
End Fan.
