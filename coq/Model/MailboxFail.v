(* C06, threaded part: a network of strax mailboxes with the exception plumbing, as a labelled
   transition system   nstep : net -> nstate -> nat (thread id) -> option nstate.

   Mirrors (file:function)
     strax/mailbox.py       Mailbox.send / close / _read / _can_fetch / kill / kill_from_exception /
                            _send_from, divide_outputs
     strax/storage/common.py   Saver.save_from (except MailboxKilled / except Exception: got_exception,
                            source.throw / finally: close)
     strax/processors/threaded_mailbox.py   ThreadedMailboxProcessor.iter (yield from final_generator,
                            MailboxKilled unwrapping, the GeneratorExit branch, kill-all, cleanup = join,
                            re-raise, saver check)
     strax/context.py       get_iter's relay (GeneratorExit -> generator.throw(OutsideException))

   Threads (one per Python thread of the processor + the caller's thread):
     KStage    Mailbox._send_from(plugin.iter(iters))   reads 0..k mailboxes, sends to one
     KSaver    Saver.save_from(mailbox.subscribe())
     KDiscard  the processor's `discarder`
     KDivider  divide_outputs(mailbox.subscribe(), mailboxes=...)    reads one, sends to several
     KMain     the caller pulling ThreadedMailboxProcessor.iter() (directly, or through get_iter: relay)

   One step = what a thread does between two yield points of the controlled scheduler (harness/sched):
   before an outermost lock acquisition, inside Condition.wait, in Thread.join of an unfinished thread,
   at thread exit.  So one step is one lock-held region of mailbox.py followed by the lock-free,
   thread-local code up to the next lock acquisition (plugin computation, saving a chunk, handing a
   chunk to the consumer, exception handlers up to the next `with self._lock`).

   Condition variables as in Model/Mailbox.v: a waiting thread has a `woken` flag, cleared when it starts
   to wait, set by notify_all on the condition it waits on; a waiting thread is enabled iff the flag is
   set and then re-evaluates the predicate of wait_for.  A missing notify_all is a different LTS.

   Representation: messages are numbered implicitly (every strax sender does); a data chunk carries its
   chunk index as payload (stages are 1:1, content is irrelevant for the control flow); exceptions are
   small codes: EOrig c = an exception object identified by c, EKilled c = MailboxKilled whose reason
   carries the original exception c.  All kills in the processor are kill(upstream=True).
   No proofs in this file. *)
From SV Require Import Base.Prelude Model.Mailbox.
Local Open Scope nat_scope.

Inductive exn : Type := EOrig (c : nat) | EKilled (c : nat).
Definition exn_code (e : exn) : nat := match e with EOrig c | EKilled c => c end.
Definition is_mk (e : exn) : bool := match e with EKilled _ => true | EOrig _ => false end.

(* reserved exception codes (injected failures use codes >= 10) *)
Definition C_CLOSED : nat := 2.     (* MailBoxAlreadyClosed *)
Definition C_OUTSIDE : nat := 3.    (* context.OutsideException: get_iter's relay of GeneratorExit *)
Definition C_TYPEERR : nat := 4.    (* TypeError raised by `reason[2] = ...` in the GeneratorExit branch of iter *)
Definition C_MISMATCH : nat := 5.   (* Plugin.iter: inputs of one plugin ended at different chunks *)
Definition C_STOPITER : nat := 6.   (* StopIteration leaving source.throw in divide_outputs *)
Definition C_GENEXIT : nat := 7.    (* GeneratorExit: the caller closed the processor's iterator *)

Inductive outcome : Type := OOk (rows : list Z) | OErr (e : exn).

(* ---------- mailboxes ---------- *)
Record sub : Type := mkSub {
  sb_nread : nat;            (* _subscribers_have_read[i] + 1 *)
  sb_wait : option nat;      (* _subscriber_waiting_for[i] *)
  sb_drive : bool;           (* _subscriber_can_drive[i] *)
}.
Record mbox : Type := mkMb {
  mb_box : list (nat * msg);   (* _mailbox, sorted by number *)
  mb_nsent : nat;
  mb_closed : bool;
  mb_killed : bool;
  mb_fkilled : bool;           (* force_killed *)
  mb_reason : nat;             (* killed_because (code of the exception in the reason tuple) *)
  mb_subs : list sub;
  mb_cap : nat;                (* max_messages (the processor sets it on every mailbox, lazy or not) *)
  mb_lazy : bool;
}.
Definition dflt_sub : sub := mkSub 0 None false.
Definition dflt_mb : mbox := mkMb [] 0 false false false 0 [] 1 false.

Definition set_box (m : mbox) x := mkMb x (mb_nsent m) (mb_closed m) (mb_killed m) (mb_fkilled m) (mb_reason m) (mb_subs m) (mb_cap m) (mb_lazy m).
Definition push_box (m : mbox) x := mkMb x (S (mb_nsent m)) (mb_closed m) (mb_killed m) (mb_fkilled m) (mb_reason m) (mb_subs m) (mb_cap m) (mb_lazy m).
Definition set_closed (m : mbox) x := mkMb (mb_box m) (mb_nsent m) x (mb_killed m) (mb_fkilled m) (mb_reason m) (mb_subs m) (mb_cap m) (mb_lazy m).
Definition set_killed (m : mbox) x r := mkMb (mb_box m) (mb_nsent m) (mb_closed m) x (mb_fkilled m) r (mb_subs m) (mb_cap m) (mb_lazy m).
Definition set_fkilled (m : mbox) x := mkMb (mb_box m) (mb_nsent m) (mb_closed m) (mb_killed m) x (mb_reason m) (mb_subs m) (mb_cap m) (mb_lazy m).
Definition set_subs (m : mbox) x := mkMb (mb_box m) (mb_nsent m) (mb_closed m) (mb_killed m) (mb_fkilled m) (mb_reason m) x (mb_cap m) (mb_lazy m).

Definition get_sub (m : mbox) (s : nat) : sub := nth s (mb_subs m) dflt_sub.
Definition set_sub (m : mbox) (s : nat) (x : sub) : mbox := set_subs m (upd s x (mb_subs m)).
Definition sub_set_wait (s : sub) w := mkSub (sb_nread s) w (sb_drive s).
Definition sub_set_nread (s : sub) n := mkSub n (sb_wait s) (sb_drive s).

(* min(_subscribers_have_read) + 1 *)
Fixpoint min_read (l : list sub) : nat :=
  match l with
  | [] => 0
  | s :: t => match t with [] => sb_nread s | _ => Nat.min (sb_nread s) (min_read t) end
  end.

(* a subscriber waits for a message number that is buffered (it just has not woken up yet) *)
Definition sb_waits_in (b : list (nat * msg)) (s : sub) : bool :=
  match sb_wait s with Some x => has_msg b x | None => false end.
Definition sb_drives (s : sub) : bool :=
  sb_drive s && match sb_wait s with Some _ => true | None => false end.
(* _can_fetch (as repaired by ede7cda: `x in buffered` instead of `x <= self._lowest_msg_number`) *)
Definition mb_can_fetch (m : mbox) : bool :=
  if mb_killed m then true
  else if existsb (sb_waits_in (mb_box m)) (mb_subs m) then false
  else existsb sb_drives (mb_subs m).
Definition mb_room (m : mbox) : bool := length (mb_box m) <? mb_cap m.
Definition mb_can_write (m : mbox) : bool := mb_room m || mb_killed m.

(* ---------- threads ---------- *)
Inductive pc : Type :=
| PGate (oi : nat)                 (* about to enter the lazy fetch gate of output number oi *)
| PGateWait (oi : nat)             (* inside _fetch_new_condition.wait_for(_can_fetch) *)
| PRead                            (* about to enter the lock region of _read of the current input *)
| PReadWait                        (* inside _read_condition.wait_for(next_ready) *)
| PSend (oi : nat) (m : msg) (closing : bool)      (* about to enter send() on output oi; closing = from close() *)
| PSendWait (oi : nat) (m : msg) (closing : bool)  (* inside _write_condition.wait_for(can_write) *)
| PKillOut (oi : nat) (e : exn)    (* kill_from_exception(e) on output oi: about to enter kill() *)
| PKillIn (e : exn)                (* _read's `except Exception` handler: about to enter kill() on the input *)
| PKillAll (i : nat) (c : nat)     (* iter: about to kill mailbox number i of the kill order *)
| PJoin (i : nat) (exc : option nat)   (* iter: cleanup(), joining thread number i of the join order *)
| PDone                            (* thread function returned *)
| PDead (e : exn)                  (* thread died with exception e *)
| PFin (r : outcome).              (* the caller has its result *)

Inductive tkind : Type :=
| KStage (nsrc : nat) (out : nat)        (* nsrc: number of chunks when the stage has no input *)
| KSaver (rechunk : bool)              (* rechunk: chunks are cached and saved by the final flush *)
| KDiscard
| KDivider (outs : list (nat * bool))    (* (mailbox, flow_freely) *)
| KMain (relay : bool).

(* the generator-local state of one `mailbox._read(subscriber_i)` *)
Record rstate : Type := mkR {
  r_mb : nat; r_sub : nat;
  r_next : nat;              (* next_number *)
  r_last : bool;             (* last_message *)
  r_buf : list msg;          (* to_yield, not yet yielded *)
}.
Definition dflt_r : rstate := mkR 0 0 0 false [].

Record thread : Type := mkT {
  t_kind : tkind;
  t_pc : pc;
  t_woken : bool;
  t_rd : list rstate;        (* one per input *)
  t_fi : nat;                (* stage: input currently being fetched *)
  t_nstop : nat;             (* stage: inputs that signalled their end in this round *)
  t_val : Z;                 (* stage: payload of input 0 in this round *)
  t_cnt : nat;               (* chunks produced / saved / handed to the consumer so far *)
  t_rows : list Z;           (* main: rows the consumer has; saver: chunks saved *)
  t_closed : bool;           (* saver: closed *)
  t_excrec : bool;           (* saver: metadata has 'exception' *)
  t_got : option nat;        (* saver: got_exception *)
}.
Definition dflt_th : thread := mkT KDiscard PDone false [] 0 0 0%Z 0 [] false false None.

Definition set_pc (t : thread) x := mkT (t_kind t) x (t_woken t) (t_rd t) (t_fi t) (t_nstop t) (t_val t) (t_cnt t) (t_rows t) (t_closed t) (t_excrec t) (t_got t).
Definition set_woken (t : thread) x := mkT (t_kind t) (t_pc t) x (t_rd t) (t_fi t) (t_nstop t) (t_val t) (t_cnt t) (t_rows t) (t_closed t) (t_excrec t) (t_got t).
Definition set_rd (t : thread) x := mkT (t_kind t) (t_pc t) (t_woken t) x (t_fi t) (t_nstop t) (t_val t) (t_cnt t) (t_rows t) (t_closed t) (t_excrec t) (t_got t).
Definition set_round (t : thread) fi ns v := mkT (t_kind t) (t_pc t) (t_woken t) (t_rd t) fi ns v (t_cnt t) (t_rows t) (t_closed t) (t_excrec t) (t_got t).
Definition set_cnt (t : thread) x := mkT (t_kind t) (t_pc t) (t_woken t) (t_rd t) (t_fi t) (t_nstop t) (t_val t) x (t_rows t) (t_closed t) (t_excrec t) (t_got t).
Definition add_row (t : thread) v := mkT (t_kind t) (t_pc t) (t_woken t) (t_rd t) (t_fi t) (t_nstop t) (t_val t) (S (t_cnt t)) (t_rows t ++ [v]) (t_closed t) (t_excrec t) (t_got t).
Definition set_saver (t : thread) cl ex := mkT (t_kind t) (t_pc t) (t_woken t) (t_rd t) (t_fi t) (t_nstop t) (t_val t) (t_cnt t) (t_rows t) cl ex (t_got t).
Definition set_got (t : thread) x := mkT (t_kind t) (t_pc t) (t_woken t) (t_rd t) (t_fi t) (t_nstop t) (t_val t) (t_cnt t) (t_rows t) (t_closed t) (t_excrec t) x.

Definition cur_r (t : thread) : rstate := nth (t_fi t) (t_rd t) dflt_r.
Definition set_cur_r (t : thread) (r : rstate) : thread := set_rd t (upd (t_fi t) r (t_rd t)).
Definition r_set_buf (r : rstate) b := mkR (r_mb r) (r_sub r) (r_next r) (r_last r) b.

Definition out_mb (t : thread) (oi : nat) : nat :=
  match t_kind t with
  | KStage _ o => o
  | KDivider outs => fst (nth oi outs (0, false))
  | _ => 0
  end.
Definition n_outs (t : thread) : nat :=
  match t_kind t with KStage _ _ => 1 | KDivider outs => length outs | _ => 0 end.

Definition terminal (t : thread) : bool :=
  match t_pc t with PDone | PDead _ | PFin _ => true | _ => false end.

(* ---------- the network ---------- *)
Record nstate : Type := mkSt { mbs : list mbox; ths : list thread }.
Record net : Type := mkNet {
  n_fault : option (nat * nat * nat);     (* (thread, position, exception code): the injected failure *)
  n_cfault : option (nat * bool * nat);   (* consumer: (chunk index, close? , exception code) *)
  n_kill : list nat;                      (* self.mailboxes.values() *)
  n_join : list nat;                      (* [t for m in self.mailboxes.values() for t in m._threads] *)
  n_savers : list nat;                    (* saver threads in the order of the final saver check *)
  (* the three repairs of the exception plumbing (design_notes/C06.md, F1-F3); false = the code before the repair *)
  n_f1 : bool;   (* iter: the GeneratorExit branch builds a new reason tuple (was: item assignment -> TypeError) *)
  n_f2 : bool;   (* _read: the handler around `yield` re-raises MailboxKilled too (was: went on to the next message) *)
  n_f3 : bool;   (* divide_outputs: an exception while closing the outputs kills all of them (was: escaped) *)
}.

Definition get_mb (st : nstate) (j : nat) : mbox := nth j (mbs st) dflt_mb.
Definition set_mb (st : nstate) (j : nat) (m : mbox) : nstate := mkSt (upd j m (mbs st)) (ths st).
Definition get_th (st : nstate) (i : nat) : thread := nth i (ths st) dflt_th.
Definition set_th (st : nstate) (i : nat) (t : thread) : nstate := mkSt (mbs st) (upd i t (ths st)).

(* which (condition, mailbox) a thread is waiting on *)
Definition waits_read (t : thread) (j : nat) : bool :=
  match t_pc t with PReadWait => r_mb (cur_r t) =? j | _ => false end.
Definition waits_write (t : thread) (j : nat) : bool :=
  match t_pc t with PSendWait oi _ _ => out_mb t oi =? j | _ => false end.
Definition waits_gate (t : thread) (j : nat) : bool :=
  match t_pc t with PGateWait oi => out_mb t oi =? j | _ => false end.
(* notify_all *)
Definition wake (f : thread -> nat -> bool) (j : nat) (st : nstate) : nstate :=
  mkSt (mbs st) (map (fun t => if f t j then set_woken t true else t) (ths st)).
Definition maybe_wake_gate (j : nat) (st : nstate) : nstate :=
  let m := get_mb st j in
  if mb_lazy m && mb_can_fetch m then wake waits_gate j st else st.

(* kill(upstream=True, reason) *)
Definition kill_mb (st : nstate) (j : nat) (reason : nat) : nstate :=
  let m1 := set_fkilled (get_mb st j) true in
  if mb_killed m1 then set_mb st j m1
  else wake waits_gate j (wake waits_write j (wake waits_read j (set_mb st j (set_killed m1 true reason)))).

(* ---------- thread-local code (lock-free, up to the next yield point) ---------- *)
Section Thread.
Variable nt : net.
Variable tid : nat.

Definition fault_at (k : nat) : option nat :=
  match n_fault nt with
  | Some (t, p, c) => if (t =? tid) && (p =? k) then Some c else None
  | None => None
  end.
Definition cfault_at (k : nat) : option (bool * nat) :=
  match n_cfault nt with
  | Some (p, cl, c) => if p =? k then Some (cl, c) else None
  | None => None
  end.

Definition enter_killall (c : nat) : pc :=
  match n_kill nt with [] => PJoin 0 (Some c) | _ => PKillAll 0 c end.

Definition first_out (t : thread) (p : pc) : pc := if n_outs t =? 0 then PDone else p.

(* MailboxKilled(c) raised by the read region of an input *)
Definition on_input_killed (t : thread) (c : nat) : thread :=
  match t_kind t with
  | KSaver _ => set_pc (set_saver t true true) PDone             (* except MailboxKilled: self.close() *)
  | KDiscard => set_pc t (PDead (EKilled c))
  | KMain _ => set_pc t (enter_killall c)                          (* exc = reason[1]; kill the mailboxes *)
  | KStage _ _ | KDivider _ => set_pc t (first_out t (PKillOut 0 (EKilled c)))
  end.

(* the plugin has one chunk from every input: do_compute, then send *)
Definition stage_compute (t : thread) : thread :=
  match fault_at (t_cnt t) with
  | Some c => set_pc t (PKillOut 0 (EOrig c))
  | None => set_pc (set_cnt t (S (t_cnt t))) (PSend 0 (Plain (t_val t)) false)
  end.
(* every input is exhausted: the plugin's iterator ends, _send_from calls close() *)
Definition stage_end (t : thread) : thread :=
  match fault_at (t_cnt t) with
  | Some c => set_pc t (PKillOut 0 (EOrig c))
  | None => set_pc t (PSend 0 Stop true)
  end.

(* Plugin.iter fetching one chunk from each input in turn, `left` inputs to go in this round *)
Fixpoint stage_fetch (left : nat) (t : thread) : thread :=
  match left with
  | O =>
      let k := length (t_rd t) in
      let t0 := set_round t 0 0 (t_val t) in
      if t_nstop t =? 0 then stage_compute t0
      else if t_nstop t =? k then stage_end t0
      else set_pc t0 (PKillOut 0 (EOrig C_MISMATCH))
  | S l =>
      let r := cur_r t in
      match r_buf r with
      | m :: rest =>
          let t1 := set_cur_r t (r_set_buf r rest) in
          match m with
          | Stop => stage_fetch l (set_round t1 (S (t_fi t1)) (S (t_nstop t1)) (t_val t1))
          | Plain v | Fut _ v =>
              stage_fetch l (set_round t1 (S (t_fi t1)) (t_nstop t1) (if t_fi t1 =? 0 then v else t_val t1))
          end
      | [] =>
          if r_last r then stage_fetch l (set_round t (S (t_fi t)) (S (t_nstop t)) (t_val t))
          else set_pc t PRead
      end
  end.

Definition source_produce (t : thread) (nsrc : nat) : thread :=
  if t_cnt t <? nsrc then stage_compute (set_round t 0 0 (Z.of_nat (t_cnt t))) else stage_end t.

(* saver / discarder / consumer / divider: one data chunk arrived; true = keep iterating *)
Definition sink_data (t : thread) (v : Z) : thread * bool :=
  match t_kind t with
  | KSaver rechunk =>
      match (if rechunk then None else fault_at (t_cnt t)) with
      | Some c => (set_pc (set_got t (Some c)) (PKillIn (EOrig c)), false)   (* got_exception = e; source.throw(e) *)
      | None => (add_row t v, true)
      end
  | KDiscard => (t, true)
  | KMain relay =>
      match cfault_at (t_cnt t) with
      | Some (true, _) =>                                   (* the consumer closes the iterator *)
          if relay then (set_pc t (PKillIn (EOrig C_OUTSIDE)), false)
          else if n_f1 nt then (set_pc t (enter_killall C_GENEXIT), false)   (* _read does not catch GeneratorExit *)
          else (set_pc t (PFin (OErr (EOrig C_TYPEERR))), false)
      | Some (false, c) => (set_pc t (PKillIn (EOrig c)), false)   (* generator.throw(e) *)
      | None => (add_row t v, true)
      end
  | KDivider _ => (set_pc t (first_out t (PSend 0 (Plain v) false)), false)
  | KStage _ _ => (t, false)
  end.
(* ... the input ended *)
Definition sink_stop (t : thread) : thread :=
  match t_kind t with
  | KSaver _ =>
      match fault_at (t_cnt t) with
      | Some c => set_pc (set_saver (set_got t (Some c)) true true) (PDead (EOrig c))
      | None => set_pc (set_saver t true (t_excrec t)) PDone
      end
  | KDiscard => set_pc t PDone
  | KMain _ => set_pc t (PJoin 0 None)
  | KDivider _ => set_pc t (first_out t (PSend 0 Stop true))
  | KStage _ _ => t
  end.

Fixpoint sink_loop (t : thread) (ms : list msg) : thread :=
  match ms with
  | [] => set_pc (set_cur_r t (r_set_buf (cur_r t) [])) PRead
  | m :: rest =>
      let tb := set_cur_r t (r_set_buf (cur_r t) rest) in
      match m with
      | Stop => sink_stop tb
      | Plain v | Fut _ v =>
          let '(t', go) := sink_data tb v in
          if go then sink_loop t' rest else t'
      end
  end.

(* next(...) on the thread's input(s) *)
Definition consume (t : thread) : thread :=
  match t_kind t with
  | KStage nsrc _ =>
      match t_rd t with
      | [] => source_produce t nsrc
      | _ => stage_fetch (length (t_rd t) - t_fi t) t
      end
  | _ => sink_loop t (r_buf (cur_r t))
  end.

Fixpoint find_gate (st : nstate) (outs : list (nat * bool)) (idx : nat) : option nat :=
  match outs with
  | [] => None
  | (o, ff) :: rest => if negb ff && mb_lazy (get_mb st o) then Some idx else find_gate st rest (S idx)
  end.
Definition next_gate (st : nstate) (outs : list (nat * bool)) (i : nat) : option nat :=
  find_gate st (skipn i outs) i.

(* top of the loop of _send_from / divide_outputs *)
Definition loop_start (st : nstate) (t : thread) : thread :=
  match t_kind t with
  | KStage _ o => if mb_lazy (get_mb st o) then set_pc t (PGate 0) else consume t
  | KDivider outs => match next_gate st outs 0 with Some i => set_pc t (PGate i) | None => consume t end
  | _ => consume t
  end.

(* ---------- lock regions ---------- *)

Definition gate_region (resume : bool) (st : nstate) (t : thread) (oi : nat) : nstate :=
  let m := get_mb st (out_mb t oi) in
  if mb_can_fetch m then
    match t_kind t with
    | KDivider outs =>
        match next_gate st outs (S oi) with
        | Some i => set_th st tid (set_pc t (PGate i))
        | None => set_th st tid (consume t)
        end
    | _ => set_th st tid (consume t)
    end
  else if resume then set_th st tid (set_woken t false)
  else set_th st tid (set_woken (set_pc t (PGateWait oi)) false).

Definition read_region (resume : bool) (st : nstate) (t : thread) : nstate :=
  let r := cur_r t in
  let j := r_mb r in
  let m := get_mb st j in
  let n := r_next r in
  if has_msg (mb_box m) n || mb_killed m then
    let m1 := set_sub m (r_sub r) (sub_set_wait (get_sub m (r_sub r)) None) in
    if mb_killed m then set_th (set_mb st j m1) tid (on_input_killed t (mb_reason m))
    else
      let '(ms, n', last) := take_from (length (mb_box m)) (mb_box m) n in
      let m2 := set_sub m1 (r_sub r) (sub_set_nread (get_sub m1 (r_sub r)) n') in
      let m3 := set_box m2 (gc (min_read (mb_subs m2)) (mb_box m2)) in
      let st3 := wake waits_write j (maybe_wake_gate j (set_mb st j m3)) in
      set_th st3 tid (consume (set_cur_r t (mkR j (r_sub r) n' last ms)))
  else if resume then set_th st tid (set_woken t false)
  else
    let m1 := set_sub m (r_sub r) (sub_set_wait (get_sub m (r_sub r)) (Some n)) in
    set_th (maybe_wake_gate j (set_mb st j m1)) tid (set_woken (set_pc t PReadWait) false).

(* an exception leaves send() *)
Definition send_raise (t : thread) (closing : bool) (e : exn) : thread :=
  if closing then
    match t_kind t with
    | KDivider _ => if n_f3 nt then set_pc t (first_out t (PKillOut 0 e))   (* kill all outputs *)
                    else set_pc t (PDead e)
    | _ => set_pc t (PDead e)                           (* close() is outside every try block *)
    end
  else match t_kind t with
       | KDivider _ => set_pc t (PKillIn e)             (* source.throw(e) into _read's yield *)
       | _ => set_pc t (PKillOut 0 e)                   (* iterable.throw(e); kill_from_exception(e) *)
       end.

Definition after_send (st : nstate) (t : thread) (oi : nat) (mg : msg) (closing : bool) : nstate :=
  let o := out_mb t oi in
  let st1 := if closing then set_mb st o (set_closed (get_mb st o) true) else st in
  let t' :=
    if S oi <? n_outs t then set_pc t (PSend (S oi) mg closing)
    else if closing then set_pc t PDone
    else loop_start st1 t in
  set_th st1 tid t'.

Definition do_push (st : nstate) (t : thread) (oi : nat) (mg : msg) (closing : bool) : nstate :=
  let o := out_mb t oi in
  let m := get_mb st o in
  let st1 := wake waits_read o (set_mb st o (push_box m (insert (mb_nsent m) mg (mb_box m)))) in
  after_send st1 t oi mg closing.

Definition send_region (resume : bool) (st : nstate) (t : thread) (oi : nat) (mg : msg) (closing : bool) : nstate :=
  let m := get_mb st (out_mb t oi) in
  if resume then
    if mb_can_write m then
      if mb_killed m then
        if mb_fkilled m then set_th st tid (send_raise t closing (EKilled (mb_reason m)))
        else after_send st t oi mg closing
      else do_push st t oi mg closing
    else set_th st tid (set_woken t false)
  else if mb_closed m then set_th st tid (send_raise t closing (EOrig C_CLOSED))
  else if mb_fkilled m then set_th st tid (send_raise t closing (EKilled (mb_reason m)))
  else if mb_killed m then after_send st t oi mg closing
  else if mb_can_write m then do_push st t oi mg closing
  else set_th st tid (set_woken (set_pc t (PSendWait oi mg closing)) false).

(* kill_from_exception(e) on an output mailbox *)
Definition killout_region (st : nstate) (t : thread) (oi : nat) (e : exn) : nstate :=
  let st1 := kill_mb st (out_mb t oi) (exn_code e) in
  let t' :=
    if S oi <? n_outs t then set_pc t (PKillOut (S oi) e)
    else if is_mk e then set_pc t PDone else set_pc t (PDead e) in
  set_th st1 tid t'.

(* _read's handler around `yield res` *)
Definition killin_region (st : nstate) (t : thread) (e : exn) : nstate :=
  let r := cur_r t in
  let st1 := kill_mb st (r_mb r) (exn_code e) in
  let t' :=
    if is_mk e && n_f2 nt then set_pc t (first_out t (PKillOut 0 e))    (* re-raised into the thrower *)
    else if is_mk e then
      (* not re-raised: the generator goes on to its next message *)
      match r_buf r with
      | Stop :: rest => set_pc (set_cur_r t (r_set_buf r rest)) (first_out t (PKillOut 0 (EOrig C_STOPITER)))
      | _ :: rest => set_pc (set_cur_r t (r_set_buf r rest)) (first_out t (PKillOut 0 e))
      | [] => if r_last r then set_pc t (first_out t (PKillOut 0 (EOrig C_STOPITER))) else set_pc t PRead
      end
    else
      match t_kind t with
      | KSaver _ => set_pc (set_saver t true true) (PDead e)   (* finally: close() records the exception *)
      | KMain _ => set_pc t (enter_killall (exn_code e))
      | KDivider _ => set_pc t (first_out t (PKillOut 0 e))
      | _ => set_pc t (PDead e)
      end in
  set_th st1 tid t'.

Definition killall_region (st : nstate) (t : thread) (i c : nat) : nstate :=
  let st1 := kill_mb st (nth i (n_kill nt) 0) c in
  set_th st1 tid (set_pc t (if S i <? length (n_kill nt) then PKillAll (S i) c else PJoin 0 (Some c))).

Definition thread_step (st : nstate) (t : thread) : nstate :=
  match t_pc t with
  | PGate oi => gate_region false st t oi
  | PGateWait oi => gate_region true st t oi
  | PRead => read_region false st t
  | PReadWait => read_region true st t
  | PSend oi m c => send_region false st t oi m c
  | PSendWait oi m c => send_region true st t oi m c
  | PKillOut oi e => killout_region st t oi e
  | PKillIn e => killin_region st t e
  | PKillAll i c => killall_region st t i c
  | PJoin _ _ | PDone | PDead _ | PFin _ => st
  end.

(* cleanup(): join the threads in order; joining a finished thread is not a yield point *)
Fixpoint first_alive (st : nstate) (order : list nat) (idx : nat) : option nat :=
  match order with
  | [] => None
  | i :: rest => if terminal (get_th st i) then first_alive st rest (S idx) else Some idx
  end.
Fixpoint saver_check (st : nstate) (l : list nat) : option nat :=
  match l with
  | [] => None
  | i :: rest => match t_got (get_th st i) with Some c => Some c | None => saver_check st rest end
  end.
Definition final_outcome (st : nstate) (t : thread) (exc : option nat) : outcome :=
  match exc with
  | Some c => OErr (EOrig c)
  | None => match saver_check st (n_savers nt) with Some c => OErr (EOrig c) | None => OOk (t_rows t) end
  end.
Definition settle (st : nstate) : nstate :=
  let t := get_th st tid in
  match t_pc t with
  | PJoin i exc =>
      match first_alive st (skipn i (n_join nt)) i with
      | Some i' => set_th st tid (set_pc t (PJoin i' exc))
      | None => set_th st tid (set_pc t (PFin (final_outcome st t exc)))
      end
  | _ => st
  end.

End Thread.

(* ---------- the transition system ---------- *)
Definition t_enabled (nt : net) (st : nstate) (t : thread) : bool :=
  match t_pc t with
  | PGateWait _ | PReadWait | PSendWait _ _ _ => t_woken t
  | PJoin i _ => terminal (get_th st (nth i (n_join nt) 0))
  | PDone | PDead _ | PFin _ => false
  | _ => true
  end.

Definition nenabled (nt : net) (st : nstate) (tid : nat) : bool :=
  match nth_error (ths st) tid with Some t => t_enabled nt st t | None => false end.

Definition nstep (nt : net) (st : nstate) (tid : nat) : option nstate :=
  match nth_error (ths st) tid with
  | Some t => if t_enabled nt st t then Some (settle nt tid (thread_step nt tid st t)) else None
  | None => None
  end.

Fixpoint nrun (nt : net) (st : nstate) (sched : list nat) : option nstate :=
  match sched with
  | [] => Some st
  | t :: rest => match nstep nt st t with Some st' => nrun nt st' rest | None => None end
  end.

Fixpoint ntrace (nt : net) (st : nstate) (sched : list nat) : list nstate :=
  match sched with
  | [] => []
  | t :: rest => match nstep nt st t with Some st' => st' :: ntrace nt st' rest | None => [] end
  end.

(* initial state: every thread has run its thread-local code up to its first yield point (the caller
   has subscribed to the target, started the threads and reached the lock of _read) *)
Definition start_all (nt : net) (st : nstate) : nstate :=
  fold_left (fun s i => set_th s i (loop_start nt i s (get_th s i))) (seq 0 (length (ths st))) st.

Definition all_terminal (st : nstate) : bool := forallb terminal (ths st).

(* constructors used by the driver / the theorems *)
Definition mk_mbox (cap : nat) (lazy : bool) (drives : list bool) : mbox :=
  mkMb [] 0 false false false 0 (map (fun d => mkSub 0 None d) drives) cap lazy.
Definition mk_thread (k : tkind) (inputs : list (nat * nat)) : thread :=
  mkT k PRead false (map (fun p => mkR (fst p) (snd p) 0 false []) inputs) 0 0 0%Z 0 [] false false None.
Definition ninit (nt : net) (boxes : list mbox) (threads : list thread) : nstate :=
  start_all nt (mkSt boxes threads).

(* the caller's result, if it has one *)
Definition main_outcome (st : nstate) (main : nat) : option outcome :=
  match t_pc (get_th st main) with PFin r => Some r | _ => None end.
