(* Rows: the abstract content of one element of a strax structured array.
   rt = 'time', re = exclusive end (either the 'endtime' field or time+dt*length),
   rid = identity of the row (lets "every row exactly once, bit-identical" be stated),
   rch = channel. *)
From SV Require Export Base.Prelude.

Record row := mkrow { rt : Z; re : Z; rid : Z; rch : Z }.

Definition row_eqb (a b : row) : bool :=
  (rt a =? rt b) && (re a =? re b) && (rid a =? rid b) && (rch a =? rch b).

Fixpoint sortedb_from (prev : Z) (rs : list row) : bool :=
  match rs with
  | [] => true
  | r :: rest => (prev <=? rt r) && sortedb_from (rt r) rest
  end.
Definition sortedb (rs : list row) : bool :=
  match rs with [] => true | r :: rest => sortedb_from (rt r) rest end.

(* Prop version: starts non-decreasing (pairwise form, convenient with ++) *)
Fixpoint sorted (rs : list row) : Prop :=
  match rs with
  | [] => True
  | r :: rest => Forall (fun q => rt r <= rt q) rest /\ sorted rest
  end.

Definition nonneg (rs : list row) : Prop := Forall (fun r => rt r <= re r) rs.
Definition straddles (r : row) (x : Z) : Prop := rt r < x /\ x < re r.
Definition straddlesb (r : row) (x : Z) : bool := (rt r <? x) && (x <? re r).
Definition inside (a b : Z) (r : row) : Prop := a <= rt r /\ re r <= b.
Definition insideb (a b : Z) (r : row) : bool := (a <=? rt r) && (re r <=? b).

(* running maximum of ends, with the Python initial value -1 *)
Definition Mx (rs : list row) : Z := zmaxl (-1) (map re rs).
Arguments Mx : simpl never.
