(* Model of strax/processing/statistics.py::highest_density_region (with _compute_hdr_core,
   _compute_fraction_seen, _compute_true_height, _process_intervals_numba).  Executable definitions
   only.  Samples are integers, fractions and amplitudes exact rationals.  The buffer test is the
   repaired `len(gaps) >= _buffer_size` (/repo commit 1da565c), the tie test starts from the largest
   sample (/repo commit 2181c25). *)
From Coq Require Export QArith.
From SV Require Export Base.Prelude Model.PeakHelpers Model.Merging.
Open Scope Z_scope.

(* stable ascending argsort (np.argsort(kind="mergesort")): insert after all smaller-or-equal *)
Fixpoint ins_vi (x : Z * Z) (l : list (Z * Z)) : list (Z * Z) :=
  match l with
  | [] => [x]
  | y :: r => if fst x <? fst y then x :: l else y :: ins_vi x r
  end.
Definition argsort (data : list Z) : list Z :=
  map snd (fold_left (fun acc x => ins_vi x acc) (combine data (zseqn 0 (length data))) []).

Fixpoint ins_z (x : Z) (l : list Z) : list Z :=
  match l with [] => [x] | y :: r => if x <? y then x :: l else y :: ins_z x r end.
Definition sort_z (l : list Z) : list Z := fold_left (fun acc x => ins_z x acc) l [].

(* maximal runs of consecutive indices of an ascending index list, as [start, end) *)
Fixpoint runs_from (s e : Z) (l : list Z) : list (Z * Z) :=
  match l with
  | [] => [(s, e)]
  | x :: r => if x - (e - 1) >? 1 then (s, e) :: runs_from x (x + 1) r else runs_from s (x + 1) r
  end.
Definition runs (l : list Z) : list (Z * Z) :=
  match l with [] => [] | x :: r => runs_from x (x + 1) r end.

(* intervals: None = len(gaps) >= _buffer_size, i.e. more than _buffer_size intervals (res[fi] = -1) *)
Record hdr_out := mkho { ho_iv : option (list (Z * Z)); ho_amp : Q }.

Fixpoint hdr_loop (data m2m : list Z) (area_tot : Z) (upper : bool) (bs : Z)
         (js : list Z) (lowest : option Z) (fs : list Q) : list hdr_out * list Q :=
  match js with
  | [] => ([], fs)
  | j :: js' =>
      let v := zget data (zget m2m j) in
      if match lowest with Some l => l =? v | None => false end
      then hdr_loop data m2m area_tot upper bs js' lowest fs
      else
        let low := if upper then v else 0 in
        let top := firstn (Z.to_nat j) m2m in
        let S := zsum (map (zget data) top) in
        let seen := (inject_Z (S - j * low) / inject_Z area_tot)%Q in
        let cnt := length (filter (fun f => Qle_bool f seen) fs) in
        match cnt with
        | O => hdr_loop data m2m area_tot upper bs js' (Some v) fs
        | _ =>
            let ivs := runs (sort_z top) in
            let iv := if zlen ivs - 1 >=? bs then None else Some ivs in
            let outs := map (fun fd => let g := (fd / seen)%Q in
                                       mkho iv ((1 - g) * inject_Z S / inject_Z j + g * inject_Z low)%Q)
                            (firstn cnt fs) in
            match skipn cnt fs with
            | [] => (outs, [])
            | rest => let '(o2, rem) := hdr_loop data m2m area_tot upper bs js' (Some v) rest in
                      (outs ++ o2, rem)
            end
        end
  end.

(* Err 1 = ValueError (total probability <= 0) *)
Definition highest_density_region (data : list Z) (fs : list Q) (upper : bool) (bs : Z)
  : res (list hdr_out) :=
  let area_tot := zsum data in
  if area_tot <=? 0 then Err 1
  else
    let n := zlen data in
    let m2m := rev (argsort data) in
    (* lowest_sample_seen = data[max_to_min[0]] (/repo 2181c25; it was np.inf = None before) *)
    let '(outs, rem) := hdr_loop data m2m area_tot upper bs (zseqn 1 (length data - 1))
                                 (Some (zget data (zget m2m 0))) fs in
    Ok (outs ++ map (fun fd => mkho (Some [(0, n)]) ((1 - fd) * inject_Z area_tot / inject_Z n)%Q) rem).
