(* Model of strax/processing/peak_merging.py: _replace_merged, _merge_peaks and of
   peak_building.py::store_downsampled_waveform.  Executable definitions only.
   Waveform samples are exact rationals (Q): up-sampling divides by the up-sampling factor. *)
From Coq Require Export QArith.
From SV Require Export Base.Prelude Model.PeakHelpers.
Open Scope Z_scope.

(* ---------------------------------------------------------------------------------------- *)
(* _replace_merged(result, orig, merge, skip_windows)                                         *)
(* `pending` = the windows from window_i on, each with its merge element: (m, start, end);   *)
(* skip_start / skip_end are those of the head, or n_orig + 100 when none is left.           *)
(* ---------------------------------------------------------------------------------------- *)
Section ReplaceMerged.
Context {T : Type}.

Definition cur_ss (n : Z) (p : list (T * Z * Z)) : Z :=
  match p with [] => n + 100 | (_, s, _) :: _ => s end.
Definition cur_se (n : Z) (p : list (T * Z * Z)) : Z :=
  match p with [] => n + 100 | (_, _, e) :: _ => e end.

(* acc = result[:result_i], reversed *)
Fixpoint rm_loop (os : list T) (i n : Z) (p : list (T * Z * Z)) (acc : list T)
  : list T * list (T * Z * Z) :=
  match os with
  | [] => (acc, p)
  | o :: os' =>
      let '(acc1, p1) :=
        if i =? cur_se n p
        then match p with (m, _, _) :: p' => (m :: acc, p') | [] => (acc, p) end
        else (acc, p) in
      if i >=? cur_ss n p1 then rm_loop os' (i + 1) n p1 acc1
      else rm_loop os' (i + 1) n p1 (o :: acc1)
  end.

Definition skip_total (mw : list (T * Z * Z)) : Z :=
  zsum (map (fun x => let '(_, s, e) := x in e - s) mw).

(* replace_merged + _replace_merged; Err 2 = AssertionError.
   len(result) = len(orig) - skip_n + len(merge) is fixed before the loop. *)
Definition replace_merged (orig : list T) (mw : list (T * Z * Z)) : res (list T) :=
  match mw with
  | [] => Ok orig
  | _ =>
      let n := zlen orig in
      let len_result := n - skip_total mw + zlen mw in
      let '(acc, p) := rm_loop orig 0 n mw [] in
      let '(acc2, p2, ok) :=
        if cur_se n p =? n
        then match p with
             | (m, _, _) :: p' => (m :: acc, p', (zlen acc =? len_result - 1) && (zlen p' =? 0))
             | [] => (acc, p, true)
             end
        else (acc, p, true) in
      if ok && (zlen acc2 =? len_result) && (zlen p2 =? 0) then Ok (rev acc2) else Err 2
  end.
End ReplaceMerged.

(* ---------------------------------------------------------------------------------------- *)
(* store_downsampled_waveform(p, buffer): returns (length, dt, data[:length])                 *)
(*   factor = ceil(length / n_samples); if factor > 1: length = floor(length / factor),      *)
(*   data = buffer[:length*factor].reshape(-1, factor).sum(axis=1); dt *= factor             *)
(* ---------------------------------------------------------------------------------------- *)
Definition qsum (l : list Q) : Q := fold_right Qplus 0%Q l.
Definition qget (l : list Q) (k : Z) : Q := nth (Z.to_nat k) l 0%Q.

Fixpoint chunks_sum (fuel : nat) (f : nat) (l : list Q) : list Q :=
  match fuel with
  | O => []
  | S fuel' => qsum (firstn f l) :: chunks_sum fuel' f (skipn f l)
  end.

Definition ds_factor (len ns : Z) : Z := (len + ns - 1) / ns.
Definition store_downsampled (len dt ns : Z) (buf : list Q) : Z * Z * list Q :=
  let f := ds_factor len ns in
  if f >? 1 then
    let len' := len / f in
    (len', dt * f, chunks_sum (Z.to_nat len') (Z.to_nat f) buf)
  else (len, dt, firstn (Z.to_nat len) buf).

(* ---------------------------------------------------------------------------------------- *)
(* _merge_peaks                                                                               *)
(* ---------------------------------------------------------------------------------------- *)
Record mpeak := mkmp {
  mt : Z; mlen : Z; mdt : Z; marea : Z; mapc : list Z; mnhits : Z; mdata : list Q }.
Definition mend (p : mpeak) : Z := mt p + mlen p * mdt p.

Fixpoint gcdl (d : Z) (l : list Z) : Z := match l with [] => d | x :: r => gcdl (Z.gcd d x) r end.
Fixpoint zaddl (a b : list Z) : list Z :=
  match a, b with x :: a', y :: b' => (x + y) :: zaddl a' b' | _, _ => [] end.

(* value of buffer[j] after all `buffer[i0:i0+n_after] = repeat(data[:length], up) / up`
   assignments (a later peak overwrites an earlier one), starting from zeros *)
Fixpoint buf_at (old : list mpeak) (cdt t0 j : Z) (acc : Q) : Q :=
  match old with
  | [] => acc
  | p :: r =>
      let up := mdt p / cdt in
      let n_after := mlen p * up in
      let i0 := (mt p - t0) / cdt in
      let acc' := if (i0 <=? j) && (j <? i0 + n_after)
                  then Qdiv (qget (mdata p) ((j - i0) / up)) (inject_Z up) else acc in
      buf_at r cdt t0 j acc'
  end.

Fixpoint zseqn (i : Z) (k : nat) : list Z :=
  match k with O => [] | S k' => i :: zseqn (i + 1) k' end.

(* one new peak from the non-empty slice `old`; returns the peak and its endtime entry *)
Definition merge_group (ns : Z) (nch : nat) (old : list mpeak) : res (mpeak * Z) :=
  match old with
  | [] => Err 3        (* IndexError on old_peaks[0]: start_merge_at == end_merge_at *)
  | first :: _ =>
      let lastp := last old first in
      let cdt := gcdl (mdt first) (map mdt old) in
      let t0 := mt first in
      let len0 := (mend lastp - t0) / cdt in
      let buf := map (fun j => buf_at old cdt t0 j 0%Q) (zseqn 0 (Z.to_nat len0)) in
      let '(len, dt, data) := store_downsampled len0 cdt ns buf in
      Ok (mkmp t0 len dt (zsum (map marea old))
               (fold_left zaddl (map mapc old) (repeat 0 nch))
               (zsum (map mnhits old)) data, mend lastp)
  end.

Fixpoint disjointb (ps : list mpeak) : bool :=
  match ps with
  | p :: ((q :: _) as r) => (mend p <=? mt q) && disjointb r
  | _ => true
  end.

Fixpoint merge_groups (ns : Z) (nch : nat) (ps : list mpeak) (se : list (Z * Z)) : res (list (mpeak * Z)) :=
  match se with
  | [] => Ok []
  | (s, e) :: r =>
      do g <- merge_group ns nch (firstn (Z.to_nat (e - s)) (skipn (Z.to_nat s) ps));
      do gs <- merge_groups ns nch ps r;
      Ok (g :: gs)
  end.

(* Err 1 = ValueError: np.min over an empty array (fewer than 2 peaks) or "Peaks not disjoint!" *)
Definition merge_peaks (ns : Z) (nch : nat) (ps : list mpeak) (se : list (Z * Z)) : res (list (mpeak * Z)) :=
  if (zlen ps <? 2) || negb (disjointb ps) then Err 1 else merge_groups ns nch ps se.
