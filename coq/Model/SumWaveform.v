(* Model of strax/processing/peak_building.py::sum_waveform with _build_hit_waveform and
   general.py::overlap_indices.  Executable definitions only.
   Sample values are integers in HALF units (value * 2), so that a baseline fraction of 0 or 0.5
   (bl_fpart = baseline % 1) is exact; gains are integers.  Saturation flags, the top-array
   waveform and data_start are not modelled. *)
From SV Require Export Base.Prelude Model.PeakHelpers Model.Peaks Model.Merging.
Open Scope Z_scope.

Record swhit := mkswhit {
  sh_t : Z; sh_len : Z; sh_dt : Z; sh_ch : Z; sh_rec : Z; sh_li : Z; sh_ri : Z }.
(* sr_b2 = baseline in half units (2 * baseline), sr_shift = amplitude_bit_shift *)
Record swrec := mkswrec { sr_t : Z; sr_len : Z; sr_dt : Z; sr_data : list Z; sr_b2 : Z; sr_shift : Z }.
Record swpeak := mkswpeak {
  sp_t : Z; sp_len : Z; sp_dt : Z; sp_area : Z; sp_apc : list Z; sp_data : list Q }.

(* overlap_indices(a1, n_a, b1, n_b); Err 1 = ValueError *)
Definition overlap_indices (a1 n_a b1 n_b : Z) : res ((Z * Z) * (Z * Z)) :=
  if (n_a <? 0) || (n_b <? 0) then Err 1
  else if (n_a =? 0) || (n_b =? 0) then Ok ((0, 0), (0, 0))
  else
    let s := a1 - b1 in
    if s <=? - n_a then Ok ((0, 0), (0, 0))
    else
      let b_start := Z.max 0 s in
      let b_end := Z.min n_b (s + n_a) in
      if b_start >=? b_end then Ok ((0, 0), (0, 0))
      else Ok ((Z.max 0 (- s), Z.min n_a (- s + n_b)), (b_start, b_end)).

Definition zslice (l : list Z) (a b : Z) : list Z :=
  firstn (Z.to_nat (b - a)) (skipn (Z.to_nat a) l).

(* l[start : start + len(vals)] = vals *)
Definition splice (l : list Z) (start : Z) (vals : list Z) : list Z :=
  firstn (Z.to_nat start) l ++ vals ++ skipn (Z.to_nat start + length vals) l.

Fixpoint zadd_lists (a b : list Z) : list Z :=
  match a, b with x :: a', y :: b' => (x + y) :: zadd_lists a' b' | _, _ => a end.

(* l[start : start + len(vals)] += vals *)
Definition add_range (l : list Z) (start : Z) (vals : list Z) : list Z :=
  firstn (Z.to_nat start) l ++ zadd_lists (skipn (Z.to_nat start) l) vals.

(* _build_hit_waveform: hit_waveform[h_start:h_end] = multiplier * record_data + bl_fpart.
   record_data.max() of an empty slice raises ValueError in numba (Err 1). *)
Definition build_hit_waveform (h : swhit) (r : swrec) (hw : list Z) : res (list Z) :=
  do ov <- overlap_indices (sh_t h / sh_dt h) (sh_len h) (sr_t r / sr_dt r) (sr_len r);
  let '((hs, he), (rs, re)) := ov in
  if re <=? rs then Err 1
  else
    let vals := map (fun d => 2 * 2 ^ sr_shift r * d + sr_b2 r mod 2) (zslice (sr_data r) rs re) in
    Ok (splice hw hs vals).

Definition rec0 : swrec := mkswrec 0 0 1 [] 0 0.
Definition zgetd (l : list Z) (k d : Z) : Z := nth (Z.to_nat k) l d.

Section SW.
Variable gains : list Z.
Variable recs : list swrec.
Variable prev_i next_i : list Z.
Variable nsr : Z.      (* n_samples_record = len(records[0]["data"]) *)
Variable dt : Z.       (* records[0]["dt"] *)
Variable lmax : nat.   (* hits["length"].max(): size of the hit waveform buffer *)

Definition recn (k : Z) : swrec := nth (Z.to_nat k) recs rec0.

(* the `for right_h_i in range(left_h_i, len(hits))` loop of one peak; Err 2 = AssertionError *)
Fixpoint sw_scan (p_t p_len p_dt : Z) (hs : list swhit) (buf : list Z) (area : Z) (apc : list Z)
  : res (list Z * Z * list Z) :=
  match hs with
  | [] => Ok (buf, area, apc)
  | h :: r =>
      if negb (p_dt =? sh_dt h) then Err 2
      else
        let shift := (p_t - sh_t h) / dt in
        if shift <=? - p_len then Ok (buf, area, apc)
        else if sh_len h <=? shift then sw_scan p_t p_len p_dt r buf area apc
        else
          do ov <- overlap_indices (sh_t h / dt) (sh_len h) (p_t / dt) p_len;
          let '((hs_, he_), (ps_, pe_)) := ov in
          let ri := sh_rec h in
          do hw1 <- build_hit_waveform h (recn ri) (repeat 0 lmax);
          do hw2 <- (if (sh_li h <? 0) && negb (zgetd prev_i ri (-1) =? -1)
                     then build_hit_waveform h (recn (zgetd prev_i ri (-1))) hw1 else Ok hw1);
          do hw3 <- (if (sh_ri h >? nsr) && negb (zgetd next_i ri (-1) =? -1)
                     then build_hit_waveform h (recn (zgetd next_i ri (-1))) hw2 else Ok hw2);
          let hit_data := map (fun v => v * zget gains (sh_ch h)) (zslice hw3 hs_ he_) in
          let a := zsum hit_data in
          sw_scan p_t p_len p_dt r (add_range buf ps_ hit_data) (area + a)
                  (zupd apc (Z.to_nat (sh_ch h)) a)
  end.

(* `for left_h_i in range(left_h_i, len(hits))`: first hit with p.time < h.time + h.length * dt *)
Fixpoint sw_first (p_t : Z) (hs : list swhit) : list swhit :=
  match hs with
  | [] => []
  | h :: r => if p_t <? sh_t h + sh_len h * dt then hs else sw_first p_t r
  end.

(* the loop over the peaks; hs = hits[left_h_i:] (the pointer only moves forward).
   When the hits are exhausted the current peak has already lost its area (p["area"] = 0) and the
   loop stops: all later peaks are left untouched. *)
Fixpoint sw_peaks (ns : Z) (nch : nat) (ps : list swpeak) (hs : list swhit) : res (list swpeak) :=
  match ps with
  | [] => Ok []
  | p :: pr =>
      match sw_first (sp_t p) hs with
      | [] => Ok (mkswpeak (sp_t p) (sp_len p) (sp_dt p) 0 (sp_apc p) (sp_data p) :: pr)
      | hs' =>
          do r <- sw_scan (sp_t p) (sp_len p) (sp_dt p) hs' (repeat 0 (Z.to_nat (sp_len p))) 0 (repeat 0 nch);
          let '(buf, area, apc) := r in
          let '(len', dt', data) := store_downsampled (sp_len p) (sp_dt p) ns (map inject_Z buf) in
          do rest <- sw_peaks ns nch pr hs';
          Ok (mkswpeak (sp_t p) len' dt' area apc data :: rest)
      end
  end.
End SW.

(* sum_waveform(peaks, hits, records, record_links, adc_to_pe): returns the peaks as left in place *)
Definition sum_waveform (gains : list Z) (recs : list swrec) (prev_i next_i : list Z) (nsr : Z)
           (lmax : nat) (ns : Z) (nch : nat) (ps : list swpeak) (hs : list swhit) : res (list swpeak) :=
  match recs, ps with
  | [], _ => Ok ps
  | _, [] => Ok ps
  | r0 :: _, _ =>
      match hs with
      | [] => Err 1     (* hits["length"].max() of an empty array: ValueError *)
      | _ => sw_peaks gains recs prev_i next_i nsr (sr_dt r0) lmax ns nch ps hs
      end
  end.
