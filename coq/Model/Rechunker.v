(* Model of strax.processing.general.diff and strax.chunk.Rechunker (get_splits, receive, flush). *)
From SV Require Export Model.Chunk.

Definition E_TARGET_SMALL : Z := 30.  (* ValueError: Target size is too small *)
Definition E_INF_LOOP     : Z := 31.  (* ValueError: Trapped in infinite loop *)
Definition E_ARGMIN_EMPTY : Z := 32.  (* ValueError: argmin of an empty sequence *)
Definition E_OUT_OF_FUEL  : Z := 99.  (* model only: excluded by the theorems *)
Definition E_INDEX        : Z := 33.  (* IndexError *)

(* strax.diff: gap between each start and the running maximum of the previous ends *)
Fixpoint diff_from (mx : Z) (rs : list row) : list Z :=
  match rs with
  | [] => []
  | r :: rest => (rt r - mx) :: diff_from (Z.max mx (re r)) rest
  end.
Definition diff (rs : list row) : list Z :=
  match rs with [] => [] | r0 :: rest => diff_from (re r0) rest end.

(* np.argwhere(diff > min_gap).flatten() + 1 *)
Fixpoint gap_indices_from (i : nat) (ds : list Z) (min_gap : Z) : list nat :=
  match ds with
  | [] => []
  | d :: rest => if d >? min_gap then i :: gap_indices_from (S i) rest min_gap
                 else gap_indices_from (S i) rest min_gap
  end.
Definition gap_indices (rs : list row) (min_gap : Z) : list nat := gap_indices_from 1 (diff rs) min_gap.

(* first index minimising |g - goal| (np.argmin returns the first minimum) *)
Fixpoint argmin_abs_from (k : nat) (best : nat * nat * Z) (cands : list nat) (goal : Z) : nat * nat :=
  match cands with
  | [] => (fst (fst best), snd (fst best))
  | g :: rest =>
      let d := Z.abs (Z.of_nat g - goal) in
      if d <? snd best then argmin_abs_from (S k) (k, g, d) rest goal
      else argmin_abs_from (S k) best rest goal
  end.
Definition argmin_abs (cands : list nat) (goal : Z) : option (nat * nat) :=
  match cands with
  | [] => None
  | g :: rest => Some (argmin_abs_from 1 (0%nat, g, Z.abs (Z.of_nat g - goal)) rest goal)
  end.

(* the while loop of get_splits; argmin is a Z because its initial value comes from the source *)
Fixpoint gs_loop (fuel : nat) (gaps : list nat) (assumed : Z) (last_gap : nat)
         (splits_rev : list nat) (last_split : nat) (argmin : Z) (n : Z) (ndata : Z) : res (list nat) :=
  match fuel with
  | O => Err E_OUT_OF_FUEL
  | S f =>
      if Z.of_nat last_split + assumed <? Z.of_nat last_gap then
        if n >? ndata then Err E_INF_LOOP
        else
          let cands := skipn (Z.to_nat (argmin + 1)) gaps in
          match argmin_abs cands (assumed + Z.of_nat last_split) with
          | None => Err E_ARGMIN_EMPTY
          | Some (k, g) => gs_loop f gaps assumed last_gap (g :: splits_rev) g (argmin + Z.of_nat k + 1) (n + 1) ndata
          end
      else Ok (rev splits_rev)
  end.

Definition get_splits (rs : list row) (assumed : Z) (min_gap : Z) : res (list nat) :=
  if assumed <=? 0 then Err E_TARGET_SMALL
  else
    let gaps := gap_indices rs min_gap in
    match gaps with
    | [] => Ok [0%nat]
    | _ => gs_loop (S (S (length rs))) gaps assumed (last gaps 0%nat) [0%nat] 0%nat
             GET_SPLITS_ARGMIN_INIT 0 (Z.of_nat (length rs))
    end.

Fixpoint nat_diffs (l : list nat) : list nat :=
  match l with
  | a :: ((b :: _) as rest) => (b - a)%nat :: nat_diffs rest
  | _ => []
  end.

Definition split_offset : Z := DEFAULT_CHUNK_SPLIT_NS / RECHUNK_SPLIT_OFFSET_DIV.

(* the for loop of receive: split off one chunk per relative index *)
Fixpoint split_off (c : chunk) (idxs : list nat) : res (list chunk * chunk) :=
  match idxs with
  | [] => Ok ([], c)
  | i :: rest =>
      match nth_error (crows c) i with
      | None => Err E_INDEX
      | Some r =>
          do '(c1, c2) <- chunk_split c (rt r - split_offset) false;
          do '(out, c') <- split_off c2 rest;
          Ok (c1 :: out, c')
      end
  end.

(* Rechunker.receive with rechunk=True; state = cache *)
Definition receive (cache : option chunk) (c : chunk) : res (list chunk * option chunk) :=
  do c1 <- match cache with None => Ok c | Some c0 => concatenate [Some c0; Some c] false end;
  do splits <- get_splits (crows c1) (ctarget c1) DEFAULT_CHUNK_SPLIT_NS;
  do '(out, c') <- split_off c1 (nat_diffs splits);
  Ok (out, Some c').

Definition flush (cache : option chunk) : list chunk :=
  match cache with None => [] | Some c => [c] end.

(* a whole stream through the rechunker *)
Fixpoint rechunk_from (cache : option chunk) (cs : list chunk) : res (list chunk) :=
  match cs with
  | [] => Ok (flush cache)
  | c :: rest =>
      do '(out, cache') <- receive cache c;
      do more <- rechunk_from cache' rest;
      Ok (out ++ more)
  end.
Definition rechunk_stream (cs : list chunk) : res (list chunk) := rechunk_from None cs.
