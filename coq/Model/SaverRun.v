(* C04 -- the saver as the code runs it: one saver of one data key, from `Context.make` deciding to save
   until the processor returns, as a small-step machine that issues file operations.

   Mirrors:
     strax/storage/files.py   FileSaver.__init__ (rmtree old / rmtree temp / makedirs / first flush),
                              _save_chunk (serial: strax.save_file; executor: submit), _save_chunk_metadata, _close
     strax/storage/common.py  Saver.save_from (pending futures, except/finally), save, close
     strax/io.py              save_file = write `<fn>_temp`, rename to `<fn>`
     strax/processors/single_thread.py   SaverSpy.receive/close, kill_spies on exception
     strax/processors/threaded_mailbox.py  saver.save_from as mailbox reader, final got_exception check
     strax/context.py         make: is_stored shortcut; _add_saver -> StorageFrontend.find(write=True)

   Two variants of `Saver.save_from` / `close` are kept:
     Fixed  : the outcome of every future is inspected (Saver._drop_finished; wait + inspect before leaving the try
              block); a failed write raises inside save_from's try block.  This is the code in /repo since fix df54c5e
              and the variant the correspondence expects.
     Pinned : finished futures are dropped without looking at their outcome; close only waits.  The tree as
              originally pinned (defect D3), kept as documentation: refuted in Props/C04.v.
   Worker threads (thread-pool saving) run the two operations of one chunk write; a *schedule* decides how
   their operations interleave with the saver thread's.  A *fault plan* decides which operations fail. *)
From SV Require Export Model.FsProtocol.

Inductive variant := Pinned | Fixed.
Inductive prockind := SingleThread | Threaded.

Record rcfg := mkRcfg {
  r_var : variant;
  r_proc : prockind;
  r_pool : bool;        (* thread-pool saving (max_workers > 1); only with Threaded *)
  r_never : bool;       (* StorageFrontend(overwrite='never') *)
  r_closerec : bool     (* save_from records a failure of close() in got_exception (threaded processor) *)
}.

Definition is_async (c : rcfg) : bool :=
  match r_proc c with Threaded => r_pool c | SingleThread => false end.

(* What reaches the saver: the chunks handed to Saver.save in order, as (n, payload) -- chunk_i is the
   position --, optionally a point where processing fails upstream (after `up` chunks were delivered), and
   the chunks SaverSpy.close still flushes out of its rechunker when it is killed (single-thread only). *)
Record input := mkInput {
  in_chunks : list (Z * Z);
  in_upfail : option nat;
  in_rem : list (Z * Z)
}.

Fixpoint number_from (i : Z) (l : list (Z * Z)) : list chunkspec :=
  match l with
  | [] => []
  | (n, v) :: r => (i, n, v) :: number_from (i + 1) r
  end.
Definition expected_of (inp : input) : list chunkspec := number_from 0 (in_chunks inp).

Inductive tstate := TNew | TWritten | TOk | TFail.
Record task := mkTask { t_i : Z; t_v : Z; t_st : tstate }.
Definition t_done (t : task) : bool := match t_st t with TOk | TFail => true | _ => false end.
Definition t_failed (t : task) : bool := match t_st t with TFail => true | _ => false end.

Inductive pc :=
| PInit0 | PInit1 | PInit2 | PInit3    (* FileSaver.__init__: rmtree <key>, rmtree <key>_temp, makedirs, first flush *)
| PLoop                                (* next chunk, or the source is exhausted / fails *)
| PSaveW (n v : Z)                     (* serial save_file: write the temp file *)
| PSaveR (n : Z)                       (*                   rename it *)
| PRec (n : Z)                         (* _save_chunk_metadata: append the chunk info, flush *)
| PCheck                               (* save_from: look at the pending futures *)
| PWait                                (* wait for the pending futures *)
| PClose | PRen                        (* close: closing flush, directory rename *)
| PEnd | PAbort.

(* fault plan: number of faults fired so far -> number of events so far -> operation -> does it fail, how *)
Definition plan := nat -> nat -> op -> option eff.
Definition no_faults : plan := fun _ _ _ => None.

Definition meta_eqb (a b : meta) : bool :=
  list_eqb pair_eqb (m_chunks a) (m_chunks b) && Bool.eqb (m_ended a) (m_ended b) && Bool.eqb (m_exc a) (m_exc b).
Definition op_eqb (a b : op) : bool :=
  match a, b with
  | OMkTemp, OMkTemp | ORmTemp, ORmTemp | ORmFinal, ORmFinal | ORenameDir, ORenameDir
  | OUpExc, OUpExc | OOther, OOther => true
  | OWriteTmp i v, OWriteTmp j w => (i =? j) && (v =? w)
  | ORenameChunk i, ORenameChunk j => i =? j
  | OWriteMeta m, OWriteMeta m' => meta_eqb m m'
  | _, _ => false
  end.
(* the plans the harness uses: the first execution of operation o fails with effect e *)
Definition single_fault (o : op) (e : eff) : plan :=
  fun nf _ o' => if Nat.eqb nf 0 && op_eqb o' o then Some e else None.

Record cst := mkCst {
  c_pc : pc;
  c_fs : fs;
  c_todo : list (Z * Z);
  c_i : Z;                     (* chunk_i of the next chunk *)
  c_rec : list (Z * Z);        (* md["chunks"] as (chunk_i, n) *)
  c_pend : list task;          (* the `pending` list of futures *)
  c_exc : bool;                (* an exception is being handled: close records it, the caller gets it *)
  c_kill : bool;               (* single-thread: inside kill_spies *)
  c_deliv : nat;               (* chunks delivered by the source so far *)
  c_tr : list event;           (* events so far, newest first *)
  c_mon : option pst;          (* the protocol automaton run alongside (monitor) *)
  c_nf : nat;
  c_lost : bool                (* close() failed on the saver's mailbox thread and nobody was told *)
}.

Definition set_pc (s : cst) (p : pc) : cst :=
  mkCst p (c_fs s) (c_todo s) (c_i s) (c_rec s) (c_pend s) (c_exc s) (c_kill s) (c_deliv s) (c_tr s) (c_mon s) (c_nf s) (c_lost s).
Definition set_pend (s : cst) (l : list task) : cst :=
  mkCst (c_pc s) (c_fs s) (c_todo s) (c_i s) (c_rec s) l (c_exc s) (c_kill s) (c_deliv s) (c_tr s) (c_mon s) (c_nf s) (c_lost s).
Definition set_lost (s : cst) (b : bool) : cst :=
  mkCst (c_pc s) (c_fs s) (c_todo s) (c_i s) (c_rec s) (c_pend s) (c_exc s) (c_kill s) (c_deliv s) (c_tr s) (c_mon s) (c_nf s) b.

(* The automaton configuration of a request: the complete save, and StorageFrontend._can_overwrite. *)
Definition pcfg_of (cfg : rcfg) (inp : input) (f0 : fs) : pcfg :=
  mkPcfg (expected_of inp) (negb (visible f0) && negb (r_never cfg)).

Section Run.
  Variable cfg : rcfg.
  Variable inp : input.
  Variable pl : plan.

  Variable pc0 : pcfg.

  (* Record one event: apply it to the file system, feed the monitor. *)
  Definition emit (s : cst) (ev : event) (f' : fs) (fired : bool) : cst :=
    mkCst (c_pc s) f' (c_todo s) (c_i s) (c_rec s) (c_pend s) (c_exc s) (c_kill s) (c_deliv s)
      (ev :: c_tr s)
      (match c_mon s with None => None | Some p => pstep pc0 p ev end)
      (if fired then S (c_nf s) else c_nf s) (c_lost s).

  (* Issue operation o.  It fails if the plan says so, or if the file system refuses it.
     Returns the new state and whether the operation succeeded. *)
  Definition do_op (s : cst) (o : op) : cst * bool :=
    match pl (c_nf s) (length (c_tr s)) o with
    | Some e =>
        match apply_failed (c_fs s) o e with
        | Some f' => (emit s (o, Failed e) f' true, false)
        | None => (emit s (o, Failed ENone) (c_fs s) true, false)
        end
    | None =>
        match apply_done (c_fs s) o with
        | Some f' => (emit s (o, Done) f' false, true)
        | None => (emit s (o, Failed ENone) (c_fs s) false, false)
        end
    end.

  (* An exception reaches the saver while it is open.
     Threaded: save_from's `except` + `finally: close(wait_for=pending)`.
     SingleThread: the processor calls kill_spies: SaverSpy.close flushes its rechunker (more saves),
     then Saver.close.  A failure inside kill_spies itself propagates: the saver stays unclosed. *)
  Definition handler (s : cst) : cst :=
    if c_kill s then set_pc s PAbort
    else match r_proc cfg with
         | Threaded =>
             mkCst PWait (c_fs s) (c_todo s) (c_i s) (c_rec s) (c_pend s) true false (c_deliv s) (c_tr s) (c_mon s) (c_nf s) (c_lost s)
         | SingleThread =>
             mkCst PLoop (c_fs s) (in_rem inp) (c_i s) (c_rec s) (c_pend s) true true (c_deliv s) (c_tr s) (c_mon s) (c_nf s) (c_lost s)
         end.

  (* Saver.close raised (closing flush or directory rename).  With the single-thread processor the exception
     propagates to the caller.  With the threaded processor close runs in save_from's `finally` on the saver's
     mailbox thread: if an exception was already being handled the caller gets that one; otherwise the caller
     learns of the failure only if save_from records it in `got_exception` (r_closerec). *)
  Definition close_lost (s : cst) : bool :=
    match r_proc cfg with
    | SingleThread => false
    | Threaded => negb (r_closerec cfg) && negb (c_exc s)
    end.
  Definition close_failed (s : cst) : cst := set_lost (set_pc s PAbort) (close_lost s).

  Definition after_rec (s : cst) : pc :=
    match r_proc cfg with
    | Threaded => if c_kill s then PLoop else PCheck
    | SingleThread => PLoop
    end.

  Definition main_step (s : cst) : cst :=
    match c_pc s with
    | PInit0 =>
        match f_final (c_fs s) with
        | Some _ => let '(s', ok) := do_op s ORmFinal in if ok then set_pc s' PInit1 else set_pc s' PAbort
        | None => set_pc s PInit1
        end
    | PInit1 =>
        match f_temp (c_fs s) with
        | Some _ => let '(s', ok) := do_op s ORmTemp in if ok then set_pc s' PInit2 else set_pc s' PAbort
        | None => set_pc s PInit2
        end
    | PInit2 => let '(s', ok) := do_op s OMkTemp in if ok then set_pc s' PInit3 else set_pc s' PAbort
    | PInit3 =>
        let '(s', ok) := do_op s (OWriteMeta (mkMeta [] false false)) in
        if ok then set_pc s' PLoop else set_pc s' PAbort
    | PLoop =>
        if negb (c_kill s) && (match in_upfail inp with Some k => Nat.eqb k (c_deliv s) | None => false end)
        then let '(s', _) := do_op s OUpExc in handler s'
        else match c_todo s with
             | [] =>
                 if c_kill s then set_pc s PClose
                 else match r_proc cfg with Threaded => set_pc s PWait | SingleThread => set_pc s PClose end
             | (n, v) :: rest =>
                 let s1 := mkCst (c_pc s) (c_fs s) rest (c_i s) (c_rec s) (c_pend s) (c_exc s) (c_kill s)
                             (if c_kill s then c_deliv s else S (c_deliv s)) (c_tr s) (c_mon s) (c_nf s) (c_lost s) in
                 if n =? 0 then set_pc s1 (PRec n)
                 else if is_async cfg && negb (c_kill s)
                      then set_pc (set_pend s1 (c_pend s1 ++ [mkTask (c_i s) v TNew])) (PRec n)
                      else set_pc s1 (PSaveW n v)
             end
    | PSaveW n v =>
        let '(s', ok) := do_op s (OWriteTmp (c_i s) v) in
        if ok then set_pc s' (PSaveR n) else handler s'
    | PSaveR n =>
        let '(s', ok) := do_op s (ORenameChunk (c_i s)) in
        if ok then set_pc s' (PRec n) else handler s'
    | PRec n =>
        let rec' := c_rec s ++ [(c_i s, n)] in
        let s1 := mkCst (c_pc s) (c_fs s) (c_todo s) (c_i s) rec' (c_pend s) (c_exc s) (c_kill s) (c_deliv s)
                    (c_tr s) (c_mon s) (c_nf s) (c_lost s) in
        let '(s', ok) := do_op s1 (OWriteMeta (mkMeta rec' false false)) in
        if ok
        then mkCst (after_rec s') (c_fs s') (c_todo s') (c_i s' + 1) (c_rec s') (c_pend s') (c_exc s') (c_kill s')
               (c_deliv s') (c_tr s') (c_mon s') (c_nf s') (c_lost s')
        else handler s'
    | PCheck =>
        match r_var cfg with
        | Pinned => set_pc (set_pend s (filter (fun t => negb (t_done t)) (c_pend s))) PLoop
        | Fixed =>
            if existsb t_failed (c_pend s) then handler s
            else set_pc (set_pend s (filter (fun t => negb (t_done t)) (c_pend s))) PLoop
        end
    | PWait =>
        if forallb t_done (c_pend s)
        then match r_var cfg with
             | Pinned => set_pc s PClose
             | Fixed =>
                 if existsb t_failed (c_pend s)
                 then mkCst PClose (c_fs s) (c_todo s) (c_i s) (c_rec s) (c_pend s) true (c_kill s) (c_deliv s)
                        (c_tr s) (c_mon s) (c_nf s) (c_lost s)
                 else set_pc s PClose
             end
        else s
    | PClose =>
        let '(s', ok) := do_op s (OWriteMeta (mkMeta (c_rec s) true (c_exc s))) in
        if ok then set_pc s' PRen else close_failed s'
    | PRen =>
        let '(s', ok) := do_op s ORenameDir in
        if ok then set_pc s' PEnd else close_failed s'
    | PEnd | PAbort => s
    end.

  (* One operation of the j-th pending chunk write (strax.io.save_file on a worker thread). *)
  Fixpoint upd_nth {A} (l : list A) (j : nat) (x : A) : list A :=
    match l, j with
    | [], _ => []
    | _ :: r, O => x :: r
    | y :: r, S j' => y :: upd_nth r j' x
    end.

  Definition work_step (s : cst) (j : nat) : cst :=
    match nth_error (c_pend s) j with
    | None => s
    | Some t =>
        match t_st t with
        | TNew =>
            let '(s', ok) := do_op s (OWriteTmp (t_i t) (t_v t)) in
            set_pend s' (upd_nth (c_pend s') j (mkTask (t_i t) (t_v t) (if ok then TWritten else TFail)))
        | TWritten =>
            let '(s', ok) := do_op s (ORenameChunk (t_i t)) in
            set_pend s' (upd_nth (c_pend s') j (mkTask (t_i t) (t_v t) (if ok then TOk else TFail)))
        | TOk | TFail => s
        end
    end.

  Definition terminal (s : cst) : bool := match c_pc s with PEnd | PAbort => true | _ => false end.
  Definition main_blocked (s : cst) : bool :=
    match c_pc s with PWait => negb (forallb t_done (c_pend s)) | _ => false end.
  Fixpoint first_undone (l : list task) (k : nat) : option nat :=
    match l with
    | [] => None
    | t :: r => if t_done t then first_undone r (S k) else Some k
    end.

  (* A schedule is a list of choices: None = the saver thread, Some j = the worker of pending write j.
     An impossible choice (blocked saver thread, finished write) falls back to a possible one; when the
     schedule is used up the saver thread runs, and the workers run when it has to wait for them. *)
  Definition step (s : cst) (ch : option nat) : cst :=
    let fallback :=
      if main_blocked s
      then match first_undone (c_pend s) 0 with Some j => work_step s j | None => main_step s end
      else main_step s in
    match ch with
    | None => fallback
    | Some j =>
        match nth_error (c_pend s) j with
        | Some t => if t_done t then fallback else work_step s j
        | None => fallback
        end
    end.

  Fixpoint run (fuel : nat) (sched : list (option nat)) (s : cst) : cst :=
    match fuel with
    | O => s
    | S fuel' =>
        if terminal s then s
        else match sched with
             | [] => run fuel' [] (step s None)
             | ch :: r => run fuel' r (step s ch)
             end
    end.
End Run.

Definition init_cst (inp : input) (f0 : fs) : cst :=
  mkCst PInit0 f0 (in_chunks inp) 0 [] [] false false 0 [] (Some pst_init) 0 false.

(* enough fuel for every schedule: 6 saver-thread steps per chunk (loop, write, rename, record, check +1),
   2 worker steps per chunk, the same for the kill-path remainder, and the fixed prologue / epilogue *)
Definition fuel_for (inp : input) : nat :=
  (8 * (length (in_chunks inp) + length (in_rem inp)) + 16)%nat.

Record result := mkResult {
  res_out : res unit;          (* what the caller of Context.make sees *)
  res_fs : fs;
  res_tr : list event;         (* oldest first *)
  res_acc : bool;              (* the protocol automaton accepted the whole trace *)
  res_fin : bool               (* the machine reached a terminal state within the fuel *)
}.

(* One `Context.make` request for the key on file system f0. *)
Definition request (cfg : rcfg) (inp : input) (pl : plan) (sched : list (option nat)) (f0 : fs) : result :=
  match is_stored f0 with
  | Err e => mkResult (Err e) f0 [] true true                  (* DataCorrupted reaches the caller *)
  | Ok true => mkResult (Ok tt) f0 [] true true                (* already stored: nothing to do *)
  | Ok false =>
      if (match f_final f0 with Some _ => r_never cfg | None => false end)
      then mkResult (Err E_EXISTS) f0 [] true true             (* DataExistsError *)
      else
        let pc0 := pcfg_of cfg inp f0 in
        let s := run cfg inp pl pc0 (fuel_for inp) sched (init_cst inp f0) in
        mkResult (match c_pc s with
                  | PEnd => if c_exc s then Err E_SAVE else Ok tt
                  | _ => if c_lost s then Ok tt else Err E_SAVE
                  end)
          (c_fs s) (rev (c_tr s))
          (match c_mon s with Some _ => true | None => false end)
          (terminal s)
  end.
