(* Runner-side views of the C17 model used by the extraction cross-check: every unit's result is
   flattened to a list of integers exactly as driver/c17_main.ml prints it. *)
From SV Require Import Model.Rows Model.Intervals.

Definition enc_res {A} (f : A -> list Z) (r : res A) : list Z :=
  match r with Err c => [-100; c] | Ok a => f a end.
Definition b2z (b : bool) : Z := if b then 1 else 0.
Definition enc_groups (gs : list (list row)) : list Z :=
  flat_map (fun g => Z.of_nat (length g) :: map rid g) gs.
Definition enc_pairs_nat (l : list (nat * nat)) : list Z :=
  flat_map (fun q => [Z.of_nat (fst q); Z.of_nat (snd q)]) l.

Definition c17_fc (things cs : list row) : list Z :=
  enc_res (fun p => b2z (fst p) :: snd p) (fully_contained_in things cs).
Definition c17_sbc (things cs : list row) : list Z :=
  enc_res (fun p => b2z (fst p) :: Z.of_nat (length (snd p)) :: enc_groups (snd p))
          (split_by_containment things cs).
Definition c17_tw (w : Z) (things cs : list row) : list Z :=
  enc_res (fun p => b2z (fst p) :: enc_pairs_nat (snd p)) (touching_windows things cs w).
Definition c17_oi (a1 na b1 nb : Z) : list Z :=
  enc_res (fun p => [fst (fst p); snd (fst p); fst (snd p); snd (snd p)]) (overlap_indices a1 na b1 nb).
Definition c17_diff (rs : list row) : list Z := diff rs.
Definition c17_fb (sb nb : Z) (rs : list row) : list Z :=
  enc_res (fun i => [Z.of_nat i]) (find_break_i rs sb nb).
Definition c17_atp (things ivs : list row) : list Z :=
  enc_res (fun p => b2z (fst p) :: flat_map (fun q => [fst q; snd q]) (snd p))
          (abs_time_to_prev_next_interval things ivs).
Definition c17_sbt (rs : list row) : list Z := map rid (sort_by_time rs).
