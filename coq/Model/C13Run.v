(* Runner-side views of the C13 network model: the abstract observation compared step by step with the
   controlled-scheduler run of the real ThreadedMailboxProcessor (harness/props/c13.py).  No proofs. *)
From SV Require Import Base.Prelude Model.Mailbox Model.MailboxNet.
Local Open Scope nat_scope.

Definition zn (n : nat) : Z := Z.of_nat n.
Definition bz (b : bool) : Z := if b then 1%Z else 0%Z.

(* per thread: status (0 runnable, 1 blocked, 2 finished);
   per mailbox: len(_mailbox), _n_sent, closed, then _subscribers_have_read[i] + 1 for every subscriber *)
Definition nobs (n : net) : list Z :=
  map (fun w => zn (thread_status n w)) (seq 0 (length (n_threads n)))
  ++ flat_map (fun cs : config * state =>
                 let st := snd cs in
                 [zn (length (box st)); zn (n_sent st); bz (closed st)] ++ map (fun r => zn (r_nread r)) (rds st))
              (n_boxes n).

(* finer view, to explain a disagreement: waiting_for per subscriber (-1 = None), sender pc class *)
Definition spc_code (x : spc) : Z :=
  match x with
  | SGate => 0 | SGateWait => 1 | SSend _ _ _ => 2 | SSendWait _ _ _ => 3 | SKill _ => 4 | SDone => 5 | SDead => 6
  end%Z.
Definition ndetail (n : net) : list Z :=
  flat_map (fun cs : config * state =>
              let st := snd cs in
              spc_code (s_pc st) :: bz (s_woken st)
              :: map (fun r => match r_waiting r with Some x => zn x | None => (-1)%Z end) (rds st))
           (n_boxes n)
  ++ flat_map (fun th => match th with
                         | Worker _ pc it => [zn pc; zn it]
                         | Sink _ _ _ => [(-1)%Z; (-1)%Z]
                         end) (n_threads n).

Definition nrun_obs (n : net) (sched : list nat) : list (list Z) := map nobs (ntrace n sched).

Definition enabled_list (n : net) : list nat :=
  filter (fun w => nenabled n w) (seq 0 (length (n_threads n))).

(* source advances of every mailbox (only meaningful for mailboxes fed by a loader / source plugin) *)
Definition all_advances (total : nat) (n : net) : list nat :=
  map (fun d => advances total (n_boxes n) d) (seq 0 (length (n_boxes n))).

(* the lazy fetch gate as the harness probes it on the implementation at every source advance:
   (_can_fetch, some driving subscriber waits, nobody waits for a number <= lowest,
    nobody waits for a message that is in the mailbox) *)
Definition waits_present (st : state) (r : reader) : bool :=
  match r_waiting r with Some x => has_msg (box st) x | None => false end.
Definition gate_view (st : state) : list bool :=
  [can_fetch st; existsb drives (rds st);
   match box st with (lo, _) :: _ => negb (existsb (waits_le lo) (rds st)) | [] => true end;
   negb (existsb (waits_present st) (rds st))].
