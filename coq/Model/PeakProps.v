(* Model of strax/processing/peak_properties.py::compute_index_of_fraction over exact rationals.
   Executable definitions only. *)
From Coq Require Export QArith.
From SV Require Export Base.Prelude Model.PeakHelpers.
Open Scope Z_scope.

(* result[current_fraction_index] = i + area_needed / x   (or i when x == 0) *)
Definition iof_value (A : Q) (i : Z) (x seen f : Q) : Q :=
  if Qeq_bool x 0 then inject_Z i
  else (inject_Z i + (A * (f - seen)) / x)%Q.

(* the inner `while fraction_seen + fraction_this_sample >= needed_fraction` at sample i:
   returns the results written and the fractions still needed ([] = all done -> break) *)
Fixpoint iof_while (A : Q) (i : Z) (x seen ft : Q) (fs : list Q) : list Q * list Q :=
  match fs with
  | [] => ([], [])
  | f :: fs' =>
      if Qle_bool f (seen + ft)
      then let '(rs, rem) := iof_while A i x seen ft fs' in (iof_value A i x seen f :: rs, rem)
      else ([], fs)
  end.

(* the for loop over peak["data"][:peak["length"]] *)
Fixpoint iof_loop (A : Q) (data : list Q) (i : Z) (seen : Q) (fs : list Q) : list Q * list Q :=
  match data with
  | [] => ([], fs)
  | x :: d' =>
      match fs with
      | [] => ([], [])
      | _ =>
          let ft := (x / A)%Q in
          let '(rs, rem) := iof_while A i x seen ft fs in
          match rem with
          | [] => (rs, [])
          | _ => let '(rs2, rem2) := iof_loop A d' (i + 1) (seen + ft)%Q rem in (rs ++ rs2, rem2)
          end
      end
  end.

(* replace the last element *)
Fixpoint set_last (l : list Q) (v : Q) : list Q :=
  match l with [] => [] | [_] => [v] | x :: r => x :: set_last r v end.

(* compute_index_of_fraction(peak, fractions_desired, result) with result initially zeros;
   data = peak["data"][:peak["length"]], A = peak["area"], len = peak["length"].
   fractions_desired must be non-empty (the code reads fractions_desired[0] unconditionally). *)
Definition index_of_fraction (A : Q) (len : Z) (data : list Q) (fs : list Q) : list Q :=
  let '(rs, rem) := iof_loop A data 0 0%Q fs in
  let res := rs ++ map (fun _ => 0%Q) rem in
  (* needed_fraction at loop exit: the first still-needed one, or the last one when all were found *)
  let needed := match rem with f :: _ => f | [] => last fs 0%Q end in
  if Qeq_bool needed 1 then set_last res (inject_Z len) else res.
