(* Runner-side views of the C06 network model (Model/MailboxFail.v): the abstract observation compared
   step by step with the controlled-scheduler run of the real ThreadedMailboxProcessor
   (harness/props/c06.py).  No proofs. *)
From SV Require Import Base.Prelude Model.Mailbox Model.MailboxFail.

Definition b2z (b : bool) : Z := if b then 1 else 0.

(* thread status: 0 runnable, 1 blocked, 2 finished, 3 died with an exception (the caller's thread
   always ends "finished": the harness catches what iter() raises) *)
Definition th_code (nt : net) (st : nstate) (t : thread) : Z :=
  match t_pc t with
  | PDone | PFin _ => 2
  | PDead _ => 3
  | _ => if t_enabled nt st t then 0 else 1
  end.

Definition is_saver (t : thread) : bool := match t_kind t with KSaver _ => true | _ => false end.
(* rows on disk: a rechunking saver writes everything in the final flush *)
Definition rows_saved (t : thread) : nat :=
  match t_kind t with
  | KSaver true => if t_closed t && negb (t_excrec t) then length (t_rows t) else 0
  | _ => length (t_rows t)
  end.
Definition is_main (t : thread) : bool := match t_kind t with KMain _ => true | _ => false end.

Definition mb_obs (m : mbox) : list Z :=
  [Z.of_nat (length (mb_box m)); b2z (mb_closed m); b2z (mb_killed m); b2z (mb_fkilled m)].
Definition saver_obs (t : thread) : list Z :=
  [b2z (t_closed t); b2z (t_excrec t); match t_got t with Some c => Z.of_nat c | None => 0 end;
   Z.of_nat (rows_saved t)].

(* [one code per thread] ++ [len(_mailbox); closed; killed; force_killed per mailbox]
   ++ [rows the consumer has] ++ [closed; exception recorded; got_exception code; chunks saved per saver] *)
Definition nobs (nt : net) (st : nstate) : list Z :=
  map (th_code nt st) (ths st)
  ++ flat_map mb_obs (mbs st)
  ++ flat_map (fun t => if is_main t then [Z.of_nat (length (t_rows t))] else []) (ths st)
  ++ flat_map (fun t => if is_saver t then saver_obs t else []) (ths st).

Definition nrun_obs (nt : net) (st : nstate) (sched : list nat) : list (list Z) :=
  map (nobs nt) (ntrace nt st sched).

(* outcome code of the caller: -1 none yet; 0 Ok; 1000 + c = EOrig c; 2000 + c = EKilled c *)
Definition outcome_code (o : option outcome) : Z :=
  match o with
  | None => -1
  | Some (OOk _) => 0
  | Some (OErr (EOrig c)) => 1000 + Z.of_nat c
  | Some (OErr (EKilled c)) => 2000 + Z.of_nat c
  end.

(* ---------- decidable premises of the shutdown theorem (Proof/MailboxFailShutdown.v), evaluated by the harness
   on the network derived from every real processor ---------- *)
Local Open Scope nat_scope.
Definition cover_b (nt : net) (st : nstate) (main : nat) : bool :=
  let nmb := length (mbs st) in
  let nth := length (ths st) in
  n_f1 nt && (1 <=? nmb)
  && forallb (fun j => existsb (Nat.eqb j) (n_kill nt)) (seq 0 nmb)
  && forallb (fun j => j <? nmb) (n_kill nt)
  && forallb (fun i => (i =? main) || existsb (Nat.eqb i) (n_join nt)) (seq 0 nth)
  && negb (existsb (Nat.eqb main) (n_join nt))
  && forallb (fun p => Bool.eqb (is_main (snd p)) (fst p =? main)) (combine (seq 0 nth) (ths st))
  && forallb (fun t => forallb (fun r => r_mb r <? nmb) (t_rd t)) (ths st).


Definition init_ok_b (boxes : list mbox) (threads : list thread) : bool :=
  forallb (fun t => match t_pc t with PRead => true | _ => false end
                    && forallb (fun r => match r_buf r with [] => true | _ => false end) (t_rd t)) threads
  && forallb (fun m => match mb_box m with [] => true | _ => false end) boxes.

