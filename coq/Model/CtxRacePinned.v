(* PINNED CODE (strax/context.py BEFORE /repo commit d202a14; kept as documentation of finding D7, the model of
   the repaired code is Model/CtxRace.v).
   Statement-level labelled transition system of the strax.Context code that the worker threads of a
   multi-run call share.  Shared state: `_plugin_class_registry` (a dict) and
   `_fixed_plugin_cache` (None, or {context_hash: dict}).  One transition of a thread = one *labelled
   source line* of that code (a line that mentions the registry or the cache) together with the purely
   thread-local code up to the next labelled line - exactly the granularity of the line-level
   interleaver (harness/props/c15_interleave.py), so a schedule (list of thread ids) can be replayed on
   the real code step by step and the sequences of labels compared.

   Labels (the harness resolves them to source lines by pattern, see c15_interleave.LABELS):
     1  _get_plugins        `for pc in self._plugin_class_registry.values()`     (iteration)
     2  _plugins_are_cached `... or self._fixed_plugin_cache is None`
     3  _context_hash       `for data_type, plugin in self._plugin_class_registry.items()` (iteration)
     4  _plugins_are_cached `if context_hash not in self._fixed_plugin_cache`
     5  _plugins_are_cached `plugin_cache = self._fixed_plugin_cache[context_hash]`
     6  _plugins_are_cached `all([t in plugin_cache for t in targets])`    (two hits for one target)
     7  __get_plugin        `if data_type not in self._plugin_class_registry`
     8  __get_plugin        `plugin = self._plugin_class_registry[data_type]()`
     9  _plugins_to_cache   `if self._fixed_plugin_cache is None`
     10 _plugins_to_cache   `self._fixed_plugin_cache = {context_hash: dict()}`   (first branch)
     11 _plugins_to_cache   `elif context_hash not in self._fixed_plugin_cache`
     13 _plugins_to_cache   `self._fixed_plugin_cache[context_hash][target] = plugin`
     14 __get_requested_plugins_from_cache `cached_plugins = self._fixed_plugin_cache[self._context_hash()]`
     15 __get_requested_plugins_from_cache `for target, plugin in cached_plugins.items()`  (iteration)
     16 register            `old_plugin_class = self._plugin_class_registry.get(p, None)`
     17 register            `self._plugin_class_registry[p] = plugin_class`
     18 register            `currently_registered = self._plugin_class_registry.get(d)`
     19 register            `del self._plugin_class_registry[d]`
     20 register            `for plugin in self._plugin_class_registry.values()`   (iteration)
     21 key_for             `if context_hash in self._fixed_plugin_cache`
     22 key_for             `plugins = self._fixed_plugin_cache[self._context_hash()]`
     23 get_iter            `for k in list(self._plugin_class_registry.keys())`  (snapshot, then loop hits)
     24 get_iter            `del self._plugin_class_registry[k]`
     25 is_stored           `plugin = self._plugin_class_registry[target]`
     26 stored_dependencies `plugin = self._plugin_class_registry[target]()`

   Dictionaries are insertion-ordered association lists with a structural version counter.  A dict
   iterator remembers the size and version at creation; `next` on a dict whose size changed is the
   crash transition "dictionary changed size during iteration" (CPython's check); a structural change
   that restored the size is flagged as a hazard (CPython's behaviour then depends on the table
   layout).  `d[k]` / `del d[k]` on a missing key is the KeyError crash transition.

   The context hash is constant in a multi-run call (config and non-temporary registry entries do not
   change; temporary entries are excluded from the hash), so the outer cache dict has at most the one
   key and is represented by the index of its inner dict in a heap of inner dicts (a thread can hold a
   reference to an inner dict that has meanwhile been replaced).

   What the unmodelled callers (get_iter, get_components, stored_dependencies, is_stored) do to the
   shared maps is a straight-line *skeleton* of calls into the modelled functions, extracted from a
   sequential run of the real code by the harness and validated against it (same label sequence). *)
From SV Require Import Base.Prelude.

Definition name := Z.
Definition is_temp (n : name) : bool := 1000 <=? n.

(* ------------------------------------------------------------------ dictionaries *)
Record dict := mkdict { d_items : list (name * Z); d_ver : nat }.
Definition d_empty : dict := mkdict [] 0.
Definition d_size (d : dict) : nat := length (d_items d).

Fixpoint al_get (k : name) (l : list (name * Z)) : option Z :=
  match l with [] => None | (k', v) :: r => if k' =? k then Some v else al_get k r end.
Fixpoint al_set (k : name) (v : Z) (l : list (name * Z)) : list (name * Z) :=
  match l with [] => [(k, v)] | (k', v') :: r => if k' =? k then (k', v) :: r else (k', v') :: al_set k v r end.
Fixpoint al_del (k : name) (l : list (name * Z)) : list (name * Z) :=
  match l with [] => [] | (k', v') :: r => if k' =? k then r else (k', v') :: al_del k r end.

Definition d_get (k : name) (d : dict) : option Z := al_get k (d_items d).
Definition d_mem (k : name) (d : dict) : bool := match d_get k d with Some _ => true | None => false end.
Definition d_set (k : name) (v : Z) (d : dict) : dict :=
  if d_mem k d then mkdict (al_set k v (d_items d)) (d_ver d)
  else mkdict (al_set k v (d_items d)) (S (d_ver d)).
Definition d_del (k : name) (d : dict) : option dict :=
  if d_mem k d then Some (mkdict (al_del k (d_items d)) (S (d_ver d))) else None.
Definition d_keys (d : dict) : list name := map fst (d_items d).

Record shared := mkshared { sh_reg : dict; sh_cur : option nat; sh_heap : list dict }.

Inductive dref := DReg | DCache (i : nat).
Definition deref (sh : shared) (r : dref) : dict :=
  match r with DReg => sh_reg sh | DCache i => nth i (sh_heap sh) d_empty end.

Record iter := mkiter { it_pos : nat; it_size : nat; it_ver : nat }.

Fixpoint set_nth {A} (i : nat) (x : A) (l : list A) : list A :=
  match l with [] => [] | y :: r => match i with O => x :: r | S j => y :: set_nth j x r end end.

(* ------------------------------------------------------------------ thread code *)
Inductive task :=
(* labelled hits *)
| HIter (l : Z) (d : dref) (it : option iter)
| HPacNone (t : name) | HPacIn (t : name) | HPacGet (t : name) | HPacAll1 (t : name) (i : nat) | HPacAll2
| HGplNotin (t : name) | HGplNew (t : name)
| HPtcNone (t : name) (c : Z) | HPtcInit (t : name) (c : Z) | HPtcNotin (t : name) (c : Z)
| HPtcSet (t : name) (c : Z)
| HRfcGet (t : name)
| HRegGet (t : name) (c : Z) | HRegSet (t : name) (c : Z) (old : option Z)
| HRegGet2 (t : name) (o : Z) | HRegDel (t : name)
| HKfIn (t : name) | HKfGet (t : name)
| HSnap | HLoop (rest : list name) | HDel (k : name) (rest : list name)
| HRead (l : Z) (t : name)
(* macros: thread-local glue, expanded when they reach the top of the stack *)
| MGetPlugin (t : name) | MGetPluginBranch (t : name)
| MGetPlugins (ts : list name) | MGPLoop (pending acc : list name)
| MKeyFor (t : name) | MKeyForBranch (t : name)
| MRfcAfter (t : name) (i : nat) | MKfAfter (t : name) (i : nat)
| MEstimate (ts : list name) (nsf : nat) | MEstLoop (nsf : nat) | MMark.

(* crash kinds *)
Definition K_ITER : Z := 1.     (* RuntimeError: dictionary changed size during iteration *)
Definition K_KEY : Z := 2.      (* KeyError: missing key *)
Definition K_HAZARD : Z := 3.   (* dict structurally changed during an iteration, size restored *)
Definition K_MODEL : Z := 4.    (* model out of fuel / ill-formed program (never on validated inputs) *)

Inductive status := Running | Done | Crashed (kind : Z) (lbl : Z).

Record thread := mkthread {
  th_stack : list task;
  th_status : status;
  th_rb : bool;                 (* return value of the last _plugins_are_cached *)
  th_names : list name;         (* keys of the dict returned by the last _get_plugins *)
  th_trace : list Z;            (* labels executed, most recent first *)
  th_got : list (list name) }.  (* results of the _get_plugins calls, most recent first *)

Record cfgm := mkcfgm {
  c_deps : list (name * list name);                  (* depends_on per data type *)
  c_setorder : list (list name * list name);         (* list(set(xs)) as observed on CPython *)
  c_fuel : nat }.

Fixpoint list_eqb (a b : list Z) : bool :=
  match a, b with
  | [], [] => true
  | x :: a', y :: b' => (x =? y) && list_eqb a' b'
  | _, _ => false
  end.
Fixpoint lookup_l {B} (k : list Z) (tbl : list (list Z * B)) : option B :=
  match tbl with [] => None | (k', v) :: r => if list_eqb k k' then Some v else lookup_l k r end.
Fixpoint lookup_z {B} (k : Z) (tbl : list (Z * B)) : option B :=
  match tbl with [] => None | (k', v) :: r => if k' =? k then Some v else lookup_z k r end.
Definition deps_of (c : cfgm) (t : name) : list name :=
  match lookup_z t (c_deps c) with Some l => l | None => [] end.
Fixpoint memz (x : Z) (l : list Z) : bool :=
  match l with [] => false | y :: r => (x =? y) || memz x r end.
Fixpoint dedupe (l : list Z) : list Z :=
  match l with [] => [] | x :: r => if memz x r then dedupe r else x :: dedupe r end.
(* list(set(xs)): the observed order if the harness recorded it, else some deduplicated order *)
Definition set_order (c : cfgm) (l : list name) : list name :=
  match lookup_l l (c_setorder c) with Some o => o | None => dedupe l end.

Definition L_GP : Z := 1.   Definition L_PAC_NONE : Z := 2.  Definition L_CH : Z := 3.
Definition L_PAC_IN : Z := 4.  Definition L_PAC_GET : Z := 5.  Definition L_PAC_ALL : Z := 6.
Definition L_GPL_NOTIN : Z := 7.  Definition L_GPL_NEW : Z := 8.
Definition L_PTC_NONE : Z := 9.  Definition L_PTC_INIT : Z := 10.  Definition L_PTC_NOTIN : Z := 11.
Definition L_PTC_SET : Z := 13.  Definition L_RFC_GET : Z := 14.  Definition L_RFC_ITER : Z := 15.
Definition L_REG_GET : Z := 16.  Definition L_REG_SET : Z := 17.  Definition L_REG_GET2 : Z := 18.
Definition L_REG_DEL : Z := 19.  Definition L_REG_ITER : Z := 20.
Definition L_KF_IN : Z := 21.  Definition L_KF_GET : Z := 22.
Definition L_GI_LOOP : Z := 23.  Definition L_GI_DEL : Z := 24.

Definition ctx_hash : list task := [HIter L_CH DReg None].

Definition label_of (h : task) : Z :=
  match h with
  | HIter l _ _ => l
  | HPacNone _ => L_PAC_NONE | HPacIn _ => L_PAC_IN | HPacGet _ => L_PAC_GET
  | HPacAll1 _ _ => L_PAC_ALL | HPacAll2 => L_PAC_ALL
  | HGplNotin _ => L_GPL_NOTIN | HGplNew _ => L_GPL_NEW
  | HPtcNone _ _ => L_PTC_NONE | HPtcInit _ _ => L_PTC_INIT | HPtcNotin _ _ => L_PTC_NOTIN
  | HPtcSet _ _ => L_PTC_SET
  | HRfcGet _ => L_RFC_GET
  | HRegGet _ _ => L_REG_GET | HRegSet _ _ _ => L_REG_SET | HRegGet2 _ _ => L_REG_GET2
  | HRegDel _ => L_REG_DEL
  | HKfIn _ => L_KF_IN | HKfGet _ => L_KF_GET
  | HSnap => L_GI_LOOP | HLoop _ => L_GI_LOOP | HDel _ _ => L_GI_DEL
  | HRead l _ => l
  | _ => 0
  end.

(* the hits that write to a shared map *)
Definition is_write (h : task) : bool :=
  match h with
  | HPtcInit _ _ | HPtcSet _ _ | HRegSet _ _ _ | HRegDel _ | HDel _ _ => true
  | _ => false
  end.

(* result of executing one hit *)
Inductive hres :=
| HOk (sh : shared) (push : list task) (rb : option bool)
| HCrash (kind : Z).

Definition loop_tasks (ks : list name) : list task :=
  match ks with
  | [] => []
  | k :: rest => if is_temp k then [HDel k rest] else [HLoop rest]
  end.

Definition exec_hit (c : cfgm) (sh : shared) (h : task) : hres :=
  match h with
  | HIter l d None =>
      let dd := deref sh d in
      match d_items dd with
      | [] => HOk sh [] None                                   (* created and exhausted at once *)
      | _ => HOk sh [HIter l d (Some (mkiter 1 (d_size dd) (d_ver dd)))] None
      end
  | HIter l d (Some it) =>
      let dd := deref sh d in
      if negb (Nat.eqb (d_size dd) (it_size it)) then HCrash K_ITER
      else if negb (Nat.eqb (d_ver dd) (it_ver it)) then HCrash K_HAZARD
      else if Nat.ltb (it_pos it) (d_size dd)
           then HOk sh [HIter l d (Some (mkiter (S (it_pos it)) (it_size it) (it_ver it)))] None
           else HOk sh [] None
  | HPacNone t =>
      match sh_cur sh with
      | None => HOk sh [] (Some false)
      | Some _ => HOk sh (ctx_hash ++ [HPacIn t; HPacGet t]) None
      end
  | HPacIn t => HOk sh [] None
  | HPacGet t =>
      match sh_cur sh with
      | None => HCrash K_MODEL
      | Some i => HOk sh [HPacAll1 t i; HPacAll2] None
      end
  | HPacAll1 t i => HOk sh [] (Some (d_mem t (deref sh (DCache i))))
  | HPacAll2 => HOk sh [] None
  | HGplNotin t => if d_mem t (sh_reg sh) then HOk sh [] None else HCrash K_KEY
  | HGplNew t =>
      match d_get t (sh_reg sh) with
      | None => HCrash K_KEY
      | Some cl => HOk sh (map MGetPlugin (deps_of c t) ++ ctx_hash ++ [HPtcNone t cl]) None
      end
  | HPtcNone t cl =>
      match sh_cur sh with
      | None => HOk sh [HPtcInit t cl] None
      | Some _ => HOk sh [HPtcNotin t cl] None
      end
  | HPtcInit t cl =>
      HOk (mkshared (sh_reg sh) (Some (length (sh_heap sh))) (sh_heap sh ++ [d_empty])) [HPtcSet t cl] None
  | HPtcNotin t cl => HOk sh [HPtcSet t cl] None
  | HPtcSet t cl =>
      match sh_cur sh with
      | None => HCrash K_MODEL
      | Some i =>
          HOk (mkshared (sh_reg sh) (sh_cur sh)
                        (set_nth i (d_set t cl (nth i (sh_heap sh) d_empty)) (sh_heap sh))) [] None
      end
  | HRfcGet t =>
      match sh_cur sh with
      | None => HCrash K_MODEL
      | Some i => HOk sh (ctx_hash ++ [HIter L_RFC_ITER (DCache i) None; MRfcAfter t i]) None
      end
  | HRegGet t cl => HOk sh [HRegSet t cl (d_get t (sh_reg sh))] None
  | HRegSet t cl old =>
      let sh' := mkshared (d_set t cl (sh_reg sh)) (sh_cur sh) (sh_heap sh) in
      let dereg := match old with
                   | Some o => if o =? cl then [] else [HRegGet2 t o]
                   | None => []
                   end in
      HOk sh' (dereg ++ [HIter L_REG_ITER DReg None]) None
  | HRegGet2 t o =>
      match d_get t (sh_reg sh) with
      | Some cur => if cur =? o then HOk sh [HRegDel t] None else HOk sh [] None
      | None => HOk sh [] None
      end
  | HRegDel t =>
      match d_del t (sh_reg sh) with
      | None => HCrash K_KEY
      | Some r => HOk (mkshared r (sh_cur sh) (sh_heap sh)) [] None
      end
  | HKfIn t => HOk sh [] None
  | HKfGet t =>
      match sh_cur sh with
      | None => HCrash K_MODEL
      | Some i => HOk sh (ctx_hash ++ [MKfAfter t i]) None
      end
  | HSnap => HOk sh (loop_tasks (d_keys (sh_reg sh))) None
  | HLoop rest => HOk sh (loop_tasks rest) None
  | HDel k rest =>
      match d_del k (sh_reg sh) with
      | None => HCrash K_KEY
      | Some r => HOk (mkshared r (sh_cur sh) (sh_heap sh)) [HLoop rest] None
      end
  | HRead l t => if d_mem t (sh_reg sh) then HOk sh [] None else HCrash K_KEY
  | _ => HCrash K_MODEL
  end.

(* a KeyError inside estimate_run_start_and_end is swallowed by _make_progress_bar *)
Fixpoint pop_to_mark (st : list task) : option (list task) :=
  match st with
  | [] => None
  | MMark :: r => Some r
  | _ :: r => pop_to_mark r
  end.

Definition crash (th : thread) (kind lbl : Z) : thread :=
  match (if kind =? K_KEY then pop_to_mark (th_stack th) else None) with
  | Some r => mkthread r Running (th_rb th) (th_names th) (th_trace th) (th_got th)
  | None => mkthread (th_stack th) (Crashed kind lbl) (th_rb th) (th_names th) (th_trace th) (th_got th)
  end.

Definition is_hit (h : task) : bool := negb (label_of h =? 0).

(* expand macros until a hit is on top (or the stack is empty: the thread is done) *)
Fixpoint normalise (c : cfgm) (fuel : nat) (sh : shared) (lbl : Z) (th : thread) : thread :=
  match th_status th with
  | Running =>
    match th_stack th with
    | [] => mkthread [] Done (th_rb th) (th_names th) (th_trace th) (th_got th)
    | h :: rest =>
      if is_hit h then th else
      match fuel with
      | O => mkthread (th_stack th) (Crashed K_MODEL lbl) (th_rb th) (th_names th) (th_trace th) (th_got th)
      | S f =>
        let set_stack s := mkthread s Running (th_rb th) (th_names th) (th_trace th) (th_got th) in
        match h with
        | MGetPlugin t => normalise c f sh lbl (set_stack (HPacNone t :: MGetPluginBranch t :: rest))
        | MGetPluginBranch t =>
            normalise c f sh lbl
              (set_stack ((if th_rb th then [HRfcGet t] else [HGplNotin t; HGplNew t]) ++ rest))
        | MGetPlugins ts => normalise c f sh lbl (set_stack (HIter L_GP DReg None :: MGPLoop ts [] :: rest))
        | MGPLoop pending acc =>
            match set_order c pending with
            | [] => normalise c f sh lbl
                      (mkthread rest Running (th_rb th) acc (th_trace th) (acc :: th_got th))
            | t :: more =>
                if memz t acc then normalise c f sh lbl (set_stack (MGPLoop more acc :: rest))
                else normalise c f sh lbl
                       (set_stack (MGetPlugin t :: MGPLoop (more ++ deps_of c t) (acc ++ [t]) :: rest))
            end
        | MKeyFor t => normalise c f sh lbl (set_stack (HPacNone t :: MKeyForBranch t :: rest))
        | MKeyForBranch t =>
            normalise c f sh lbl
              (set_stack ((if th_rb th then ctx_hash ++ [HKfIn t; HKfGet t] else [MGetPlugins [t]]) ++ rest))
        | MRfcAfter t i =>
            if d_mem t (deref sh (DCache i)) then normalise c f sh lbl (set_stack rest)
            else normalise c f sh lbl (crash (set_stack rest) K_KEY lbl)
        | MKfAfter t i =>
            if d_mem t (deref sh (DCache i)) then normalise c f sh lbl (set_stack rest)
            else normalise c f sh lbl (crash (set_stack rest) K_KEY lbl)
        | MEstimate ts nsf => normalise c f sh lbl (set_stack (MGetPlugins ts :: MEstLoop nsf :: MMark :: rest))
        | MEstLoop nsf =>
            normalise c f sh lbl
              (set_stack (flat_map (fun t => repeat (MKeyFor t) nsf ++ [HRead 25 t]) (th_names th) ++ rest))
        | MMark => normalise c f sh lbl (set_stack rest)
        | _ => th
        end
      end
    end
  | _ => th
  end.

(* one transition of a thread: execute the hit on top of its stack, then run on to the next hit *)
Definition step_thread (c : cfgm) (sh : shared) (th : thread) : shared * thread :=
  match th_status th with
  | Running =>
    match th_stack th with
    | [] => (sh, mkthread [] Done (th_rb th) (th_names th) (th_trace th) (th_got th))
    | h :: rest =>
        let lbl := label_of h in
        let tr := lbl :: th_trace th in
        match exec_hit c sh h with
        | HOk sh' push rb =>
            let th' := mkthread (push ++ rest) Running
                                (match rb with Some b => b | None => th_rb th end)
                                (th_names th) tr (th_got th) in
            (sh', normalise c (c_fuel c) sh' lbl th')
        | HCrash kind =>
            let th' := mkthread rest Running (th_rb th) (th_names th) tr (th_got th) in
            (sh, normalise c (c_fuel c) sh lbl (crash th' kind lbl))
        end
    end
  | _ => (sh, th)
  end.

Record sys := mksys { s_sh : shared; s_ths : list thread }.

Definition th_dummy : thread := mkthread [] Done false [] [] [].

Definition sys_step (c : cfgm) (s : sys) (tid : nat) : sys :=
  match nth_error (s_ths s) tid with
  | None => s
  | Some th =>
      let '(sh', th') := step_thread c (s_sh s) th in
      mksys sh' (set_nth tid th' (s_ths s))
  end.

Fixpoint run_sched (c : cfgm) (s : sys) (sched : list nat) : sys :=
  match sched with [] => s | t :: r => run_sched c (sys_step c s t) r end.

(* let thread tid run alone for at most n steps *)
Fixpoint run_alone (c : cfgm) (n : nat) (s : sys) (tid : nat) : sys :=
  match n with O => s | S m => run_alone c m (sys_step c s tid) tid end.

(* after the schedule, every thread runs to completion, in thread order *)
Fixpoint drain (c : cfgm) (n : nat) (s : sys) (tids : list nat) : sys :=
  match tids with [] => s | t :: r => drain c n (run_alone c n s t) r end.

(* initial thread from a skeleton (list of top-level tasks) *)
Definition init_thread (c : cfgm) (sh : shared) (prog : list task) : thread :=
  normalise c (c_fuel c) sh 0 (mkthread prog Running false [] [] []).

Definition init_sys (c : cfgm) (sh : shared) (progs : list (list task)) : sys :=
  mksys sh (map (init_thread c sh) progs).

Definition run_all (c : cfgm) (sh : shared) (progs : list (list task)) (sched : list nat) (n : nat) : sys :=
  drain c n (run_sched c (init_sys c sh progs) sched) (seq 0 (length progs)).

Definition th_crashed (th : thread) : bool :=
  match th_status th with Crashed _ _ => true | _ => false end.
Definition th_done (th : thread) : bool :=
  match th_status th with Done => true | _ => false end.

(* run-length encoded schedules *)
Fixpoint rle (l : list (nat * nat)) : list nat :=
  match l with [] => [] | (t, n) :: r => repeat t n ++ rle r end.
