(* Property C16 — copying, stand-alone rechunking, rechunk-on-load and per-chunk processing + merge.

   Storage is modelled abstractly: one stored data type ("directory") is the metadata record with its
   per-chunk infos; the content of a chunk file hangs directly on the info that names it.  A file system is
   a finite map from paths to such directories; `rmtree`, `rename`/`move` of a directory and one metadata
   flush are atomic steps (the write protocol inside one directory is property C04's business).

   Mirrors (read for every branch):
     strax/storage/common.py   Saver.save_from / save / close, StorageBackend.loader,
                               _read_format_split_chunk, _read_and_format_chunk
     strax/storage/files.py    FileSaver.__init__ / _save_chunk_metadata / _close,
                               FileSytemBackend._read_and_format_chunk (set_target_chunk_mb)
     strax/storage/file_rechunker.py   rechunker, _get_meta_data_and_compressor, _move_directories
     strax/context.py          copy_to_frontend, merge_per_chunk_storage, _check_chunk_number,
                               __assign_chunk_number_to_plugin (lineage tag)
     strax/utils.py            hashablize / deterministic_hash (canonical serialisation of the lineage)

   The compressor + numpy buffer is the abstract codec `enc`/`dec` (Section variables); compressors are
   numbered.  Error codes continue the list of Model/Chunk.v and Model/Rechunker.v. *)
From SV Require Export Model.Rechunker.

Definition E_NO_CHUNKS     : Z := 50.  (* ValueError: Cannot load data ..., it has no chunks! *)
Definition E_CORRUPTED     : Z := 51.  (* strax.DataCorrupted: undecodable file or row count <> chunk_info['n'] *)
Definition E_NOT_AVAILABLE : Z := 52.  (* FileNotFoundError / DataNotAvailable: nothing (valid) under the path *)
Definition E_EXISTS        : Z := 53.  (* ValueError: No frontend to copy to / Data ... already exists *)
Definition E_BAD_GROUPS    : Z := 54.  (* ValueError: Duplicate chunk numbers / not consecutive integers *)
Definition E_NOT_STORED    : Z := 55.  (* AssertionError in merge_per_chunk_storage: a per-chunk result is missing *)
Definition E_EMPTY_INPUT   : Z := 56.  (* ValueError: Cannot work with empty input buffer *)
Definition E_SAME_DIR      : Z := 57.  (* ValueError: The destination ... is the source directory itself *)

Definition retarget (t : Z) (c : chunk) : chunk :=
  mkchunk (cstart c) (cend c) (crows c) (cdtype c) (ckind c) (crun c) t.

(* ------------------------------------------------------------------ chunk_number groups *)
Fixpoint consecutive (l : list nat) : bool :=
  match l with
  | a :: ((b :: _) as r) => Nat.eqb b (S a) && consecutive r
  | _ => true
  end.
Fixpoint nodupb (l : list nat) : bool :=
  match l with [] => true | a :: r => negb (existsb (Nat.eqb a) r) && nodupb r end.
Definition list_min (l : list nat) : nat := fold_right Nat.min (hd 0%nat l) l.
Definition list_max (l : list nat) : nat := fold_right Nat.max 0%nat l.

(* merge_per_chunk_storage: the lineage tag of the merged data; None = the ordinary key *)
Definition merge_tag (ndep : nat) (groups : list (list nat)) : res (option (list nat)) :=
  let all := concat groups in
  if negb (nodupb all) then Err E_BAD_GROUPS
  else match all with
       | [] => Err E_BAD_GROUPS
       | _ => if Nat.eqb (list_min all) 0 && Nat.eqb (list_max all) (ndep - 1) then Ok None else Ok (Some all)
       end.

(* ... and where the merged data goes: key_for with that tag runs _check_chunk_number (consecutive integers) *)
Definition merge_where (ndep : nat) (groups : list (list nat)) : res (option (list nat)) :=
  do t <- merge_tag ndep groups;
  match t with
  | Some l => if negb (consecutive l) then Err E_BAD_GROUPS
              (* a single job merged on its own would be written onto its own key: DataExistsError *)
              else if existsb (fun g => if list_eq_dec Nat.eq_dec g l then true else false) groups then Err E_EXISTS
              else Ok t
  | None => Ok None
  end.

Section Store.
Variable bytes : Type.
Variable enc : Z -> list row -> bytes.            (* compressor id -> rows -> file content *)
Variable dec : Z -> bytes -> option (list row).   (* None: the decompressor / np.frombuffer raises *)

(* one entry of metadata['chunks'] together with the content of the file it names *)
Record cinfo := mkcinfo {
  ci_n : Z; ci_start : Z; ci_end : Z; ci_run : option Z;
  ci_first : option (Z * Z);      (* first_time, first_endtime *)
  ci_last  : option (Z * Z);      (* last_time, last_endtime *)
  ci_file  : option bytes         (* None: no 'filename' (empty chunks are not written) *)
}.

(* metadata.json of one stored data type (the fields the data path reads) *)
Record stored := mkstored {
  md_dtype : Z; md_kind : Z; md_comp : Z; md_target : Z;
  md_chunks : list cinfo; md_start : Z; md_end : Z;
  md_ended : bool;                (* 'writing_ended' present *)
  md_exc : bool                   (* 'exception' present *)
}.

Definition set_comp (s : stored) (k : Z) : stored :=
  mkstored (md_dtype s) (md_kind s) k (md_target s) (md_chunks s) (md_start s) (md_end s) (md_ended s) (md_exc s).
Definition set_target (s : stored) (t : Z) : stored :=
  mkstored (md_dtype s) (md_kind s) (md_comp s) t (md_chunks s) (md_start s) (md_end s) (md_ended s) (md_exc s).

(* ------------------------------------------------------------------ Saver *)
Definition first_of (rs : list row) : option (Z * Z) :=
  match rs with [] => None | r :: _ => Some (rt r, re r) end.
Definition last_of (rs : list row) : option (Z * Z) :=
  match rs with [] => None | r :: _ => let l := last rs r in Some (rt l, re l) end.

(* Saver.save: chunk_info; the file is written only for a non-empty chunk *)
Definition info_of (comp : Z) (c : chunk) : cinfo :=
  mkcinfo (Z.of_nat (length (crows c))) (cstart c) (cend c) (crun c)
          (first_of (crows c)) (last_of (crows c))
          (match crows c with [] => None | _ => Some (enc comp (crows c)) end).

(* metadata while the saver is open: 'start' is set with the first chunk, 'end' is whatever the
   template carried, no 'writing_ended' *)
Definition open_md (md : stored) (infos : list cinfo) : stored :=
  mkstored (md_dtype md) (md_kind md) (md_comp md) (md_target md) infos
           (match infos with [] => md_start md | i :: _ => ci_start i end) (md_end md) false false.

(* Saver.close: precise start / end from the first / last chunk, writing_ended, exception *)
Definition close_md (md : stored) (infos : list cinfo) (exc : bool) : stored :=
  mkstored (md_dtype md) (md_kind md) (md_comp md) (md_target md) infos
           (match infos with [] => md_start md | i :: _ => ci_start i end)
           (match infos with [] => md_end md | i :: _ => ci_end (last infos i) end) true exc.

(* Saver.save_from on a finite source; Rechunker(rechunk and allow_rechunk) *)
Definition save_chunks (cs : list chunk) (rechunk : bool) : res (list chunk) :=
  if rechunk then rechunk_stream cs else Ok cs.
Definition save_stream (md : stored) (cs : list chunk) (rechunk : bool) : res stored :=
  do outs <- save_chunks cs rechunk;
  Ok (close_md md (map (info_of (md_comp md)) outs) false).
(* what an exception during save_from leaves behind (partial content is not modelled; the directory
   carries 'exception' and is therefore never visible) *)
Definition failed_md (md : stored) : stored := close_md md [] true.

(* ------------------------------------------------------------------ Loader *)
(* _read_and_format_chunk (+ FileSytemBackend's target override) *)
Definition read_chunk (s : stored) (ovr : option Z) (ci : cinfo) : res chunk :=
  do rows <- (if ci_n ci =? 0 then Ok []
              else match ci_file ci with
                   | None => Err E_NOT_AVAILABLE
                   | Some b => match dec (md_comp s) b with None => Err E_CORRUPTED | Some rs => Ok rs end
                   end);
  if negb (Z.of_nat (length rows) =? ci_n ci) then Err E_CORRUPTED
  else
    do c <- mk_chunk (ci_start ci) (ci_end ci) rows (md_dtype s) (md_kind s) (ci_run ci) (md_target s);
    Ok (match ovr with Some t => retarget t c | None => c end).

(* _read_format_split_chunk with rechunk=True: every stored chunk is cut on its own *)
Definition split_on_load (c : chunk) (tgt : Z) : res (list chunk) :=
  do splits <- get_splits (crows c) tgt DEFAULT_CHUNK_SPLIT_NS;
  do '(out, c') <- split_off c (nat_diffs splits);
  Ok (out ++ [c']).

Definition selected (sel : option (list nat)) (i : nat) : bool :=
  match sel with None => true | Some l => existsb (Nat.eqb i) l end.

Fixpoint load_from (s : stored) (sel : option (list nat)) (ovr onload : option Z) (i : nat)
         (cis : list cinfo) : res (list chunk) :=
  match cis with
  | [] => Ok []
  | ci :: rest =>
      if selected sel i then
        do c <- read_chunk s ovr ci;
        do pieces <- (match onload with None => Ok [c] | Some t => split_on_load c t end);
        do more <- load_from s sel ovr onload (S i) rest;
        Ok (pieces ++ more)
      else load_from s sel ovr onload (S i) rest
  end.

(* StorageBackend.loader(backend_key, chunk_number=sel, rechunk=onload<>None, source_size_mb=onload) *)
Definition load (s : stored) (sel : option (list nat)) (ovr onload : option Z) : res (list chunk) :=
  match md_chunks s with
  | [] => Err E_NO_CHUNKS
  | cis => load_from s sel ovr onload 0 cis
  end.

Definition is_valid (s : stored) : bool := md_ended s && negb (md_exc s).

(* ------------------------------------------------------------------ file system of directories *)
Definition fsys := list (Z * stored).
Fixpoint lookup (k : Z) (fs : fsys) : option stored :=
  match fs with [] => None | (k', s) :: r => if k =? k' then Some s else lookup k r end.
Fixpoint remove (k : Z) (fs : fsys) : fsys :=
  match fs with [] => [] | (k', s) :: r => if k =? k' then remove k r else (k', s) :: remove k r end.
Definition put (k : Z) (s : stored) (fs : fsys) : fsys := (k, s) :: remove k fs.
Definition move (a b : Z) (fs : fsys) : fsys :=
  match lookup a fs with Some s => put b s (remove a fs) | None => fs end.
(* StorageFrontend.find with check_broken: exact directory, writing_ended, no exception *)
Definition visible (fs : fsys) (k : Z) : bool :=
  match lookup k fs with Some s => is_valid s | None => false end.

(* FileSaver: __init__ (two rmtrees, makedirs + first flush), one flush per chunk, close (final flush,
   rename of the temp directory).  Every element is the file system after one atomic step. *)
Definition saver_trace (fs : fsys) (dst tmp : Z) (md : stored) (infos : list cinfo) (final : stored)
  : list fsys :=
  let fs1 := remove dst fs in
  let fs2 := remove tmp fs1 in
  [fs1; fs2]
  ++ map (fun k => put tmp (open_md md (firstn k infos)) fs2) (seq 0 (S (length infos)))
  ++ [put tmp final fs2; put dst final fs2].

(* load -> (retarget) -> save_from, as both copy_to_frontend and the rechunker do *)
Definition transfer (s : stored) (ovr : option Z) (retgt : option Z) (rechunk : bool)
  : res (list chunk) :=
  do cs <- load s None ovr None;
  save_chunks (match retgt with Some t => map (retarget t) cs | None => cs end) rechunk.

Definition run_saver (fs : fsys) (dst tmp : Z) (md : stored) (r : res (list chunk)) : list fsys * res unit :=
  match r with
  | Ok outs =>
      let infos := map (info_of (md_comp md)) outs in
      (saver_trace fs dst tmp md infos (close_md md infos false), Ok tt)
  | Err e => (saver_trace fs dst tmp md [] (failed_md md), Err e)
  end.

(* strax.rechunker(source_directory, dest_directory, replace, compressor, target_size_mb, rechunk):
   src = source directory, dst = <dest_directory>/<backend_key>, tmp = dst + '_temp'.
   comp / tgt = None: keep the source's. *)
Definition opt_set_comp (s : stored) (k : option Z) := match k with Some k => set_comp s k | None => s end.
Definition opt_set_target (s : stored) (t : option Z) := match t with Some t => set_target s t | None => s end.

(* the body of rechunker() after the argument checks (= the whole function before the repair
   "fix: rechunker refuses a destination that is the source directory") *)
Definition rechunker_unguarded (fs : fsys) (src dst tmp : Z) (replace : bool) (comp tgt : option Z) (rechunk : bool)
  : list fsys * res unit :=
  match lookup src fs with
  | None => ([], Err E_NOT_AVAILABLE)
  | Some s =>
      let md := opt_set_target (opt_set_comp s comp) tgt in
      (* backend.loader is a generator: it reads the source's metadata at its first next(), i.e. after
         FileSaver.__init__ has removed whatever sat at dst / tmp and created the temp directory.
         _get_metadata falls back to <dir>_temp, which is tmp exactly when src = dst (no unrelated
         <src>_temp directory is assumed to exist otherwise). *)
      let fs_init := put tmp (open_md md []) (remove tmp (remove dst fs)) in
      let src_now := match lookup src fs_init with
                     | Some s1 => Some s1
                     | None => if src =? dst then lookup tmp fs_init else None
                     end in
      let data := match src_now with
                  | Some s1 => transfer s1 tgt None rechunk
                  | None => Err E_NOT_AVAILABLE
                  end in
      let '(tr, r) := run_saver fs dst tmp md data in
      match r with
      | Ok _ =>
          if replace then
            let fs1 := last tr fs in
            let fs2 := remove src fs1 in               (* shutil.rmtree(source_directory) *)
            (tr ++ [fs2; move dst src fs2], Ok tt)       (* shutil.move(dest_directory, source_directory) *)
          else (tr, Ok tt)
      | Err e => (tr, Err e)
      end
  end.

(* _check_arguments (source must exist), then the destination must not resolve to the source directory
   (ValueError before anything is removed) *)
Definition rechunker_run (fs : fsys) (src dst tmp : Z) (replace : bool) (comp tgt : option Z) (rechunk : bool)
  : list fsys * res unit :=
  match lookup src fs with
  | None => ([], Err E_NOT_AVAILABLE)
  | Some _ => if src =? dst then ([], Err E_SAME_DIR)
              else rechunker_unguarded fs src dst tmp replace comp tgt rechunk
  end.

(* Context.copy_to_frontend(run_id, target, target_frontend_id, target_compressor, rechunk, rechunk_to_mb):
   src / dst = the directory of the key in the source / target frontend *)
Definition copy_run (fs : fsys) (src dst tmp : Z) (comp : option Z) (rechunk : bool) (rechunk_to : Z)
  : list fsys * res unit :=
  match lookup src fs with
  | None => ([], Err E_NOT_AVAILABLE)
  | Some s =>
      if negb (is_valid s) then ([], Err E_NOT_AVAILABLE)
      else if visible fs dst then ([], Err E_EXISTS)
      else
        let md0 := opt_set_comp s comp in
        let md := if rechunk && negb (md_target md0 =? rechunk_to) then set_target md0 rechunk_to else md0 in
        run_saver fs dst tmp md (transfer s None (Some (md_target md)) rechunk)
  end.

(* ------------------------------------------------------------------ per-chunk processing and merge *)
Section PerChunk.
Variable f : list row -> list row.     (* the plugin's compute on the rows of one dependency chunk *)

Fixpoint mapM {A B} (g : A -> res B) (l : list A) : res (list B) :=
  match l with
  | [] => Ok []
  | a :: r => do b <- g a; do bs <- mapM g r; Ok (b :: bs)
  end.

(* do_compute + _fix_output + Plugin.chunk: the result covers the input's range *)
Definition compute_chunk (md_t : stored) (c : chunk) : res chunk :=
  mk_chunk (cstart c) (cend c) (f (crows c)) (md_dtype md_t) (md_kind md_t) (crun c) (md_target md_t).

(* Context.make(run_id, target, chunk_number={dep: sel}) for a one-dependency plugin; sel = None is the
   ordinary make.  md_t = Plugin.metadata: dtype, kind, compressor, chunk_target_size_mb *)
Definition make_from (dep : stored) (sel : option (list nat)) (md_t : stored) (rechunk_save : bool) : res stored :=
  if negb (match sel with Some g => consecutive g | None => true end) then Err E_BAD_GROUPS else
  do cs <- load dep sel None None;
  match cs with
  | [] => Err E_EMPTY_INPUT
  | _ => do outs <- mapM (compute_chunk md_t) cs; save_stream md_t outs rechunk_save
  end.

(* wrapped_loader of merge_per_chunk_storage for one per-chunk result *)
Definition merge_source (rechunk : bool) (rechunk_to : Z) (j : option stored) : res (list chunk) :=
  match j with
  | None => Err E_NOT_STORED
  | Some s =>
      if negb (is_valid s) then Err E_NOT_STORED
      else
        do cs <- load s None None None;
        let t := if rechunk && negb (md_target s =? rechunk_to) then rechunk_to else md_target s in
        Ok (map (retarget t) cs)
  end.

Definition merge_run (jobs : list (option stored)) (md_t : stored) (rechunk : bool) (rechunk_to : Z) : res stored :=
  do css <- mapM (merge_source rechunk rechunk_to) jobs;
  save_stream md_t (concat css) rechunk.
End PerChunk.
End Store.

Arguments mkcinfo {bytes}.   Arguments ci_n {bytes}.      Arguments ci_start {bytes}.  Arguments ci_end {bytes}.
Arguments ci_run {bytes}.    Arguments ci_first {bytes}.  Arguments ci_last {bytes}.   Arguments ci_file {bytes}.
Arguments mkstored {bytes}.  Arguments md_dtype {bytes}.  Arguments md_kind {bytes}.   Arguments md_comp {bytes}.
Arguments md_target {bytes}. Arguments md_chunks {bytes}. Arguments md_start {bytes}.  Arguments md_end {bytes}.
Arguments md_ended {bytes}.  Arguments md_exc {bytes}.
Arguments set_comp {bytes}.  Arguments set_target {bytes}. Arguments opt_set_comp {bytes}. Arguments opt_set_target {bytes}.
Arguments info_of {bytes}.   Arguments open_md {bytes}.   Arguments close_md {bytes}.  Arguments failed_md {bytes}.
Arguments save_stream {bytes}. Arguments read_chunk {bytes}. Arguments load_from {bytes}. Arguments load {bytes}.
Arguments is_valid {bytes}.  Arguments lookup {bytes}.    Arguments remove {bytes}.    Arguments put {bytes}.
Arguments move {bytes}.      Arguments visible {bytes}.   Arguments saver_trace {bytes}. Arguments transfer {bytes}.
Arguments run_saver {bytes}. Arguments rechunker_run {bytes}. Arguments rechunker_unguarded {bytes}. Arguments copy_run {bytes}.
Arguments compute_chunk {bytes}. Arguments make_from {bytes}. Arguments merge_source {bytes}. Arguments merge_run {bytes}.

(* ------------------------------------------------------------------ lineage serialisation
   hashablize + json.dumps: a tree of numbers (strings are numbered) and arrays; a dict is the array of its
   [key, value] pairs sorted by key.  The tokens are the characters of the JSON text at the level that
   matters: '[' , ']' and atoms. *)
Inductive jv := JNum (n : Z) | JArr (l : list jv).
Inductive tok := TOpen | TClose | TNum (n : Z).

Fixpoint ser (v : jv) : list tok :=
  match v with
  | JNum n => [TNum n]
  | JArr l => TOpen :: (fix sers (l : list jv) : list tok :=
                          match l with [] => [] | x :: r => ser x ++ sers r end) l ++ [TClose]
  end.

Definition CHUNK_NUMBER_KEY : Z := 0.    (* the option name "chunk_number"; real option names are numbered from 1 *)

(* configs.setdefault("chunk_number", {})[dep] = chunk_number[dep]  as a sorted-dict entry *)
Definition tag_entry (dep : Z) (tag : option (list nat)) : list jv :=
  match tag with
  | None => []
  | Some g => [JArr [JNum CHUNK_NUMBER_KEY; JArr [JArr [JNum dep; JArr (map (fun i => JNum (Z.of_nat i)) g)]]]]
  end.

(* lineage of the target: other data types before / after, the target's (class, version, configs) with the
   configs before / after the place where "chunk_number" sorts *)
Definition lineage_tree (lin_pre lin_post : list jv) (tgt cls ver : Z) (cfg_pre cfg_post : list jv)
           (dep : Z) (tag : option (list nat)) : jv :=
  JArr (lin_pre ++ [JArr [JNum tgt; JArr [JNum cls; JNum ver; JArr (cfg_pre ++ tag_entry dep tag ++ cfg_post)]]]
        ++ lin_post).
