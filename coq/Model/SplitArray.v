(* Model of strax.chunk.split_array (chunk.py, numba function `split_array`).
   Mirrors the Python loop statement by statement: latest_end_seen, splittable_i,
   i_first_beyond and the three exits (break on first row at/after t, break on
   latest_end_seen > t, for..else). *)
From SV Require Export Model.Rows.

Inductive sa_exit := ExBeyond (i : nat) | ExLate | ExEnd.

(* the for-loop; i = current index, les = latest_end_seen, spl = splittable_i *)
Fixpoint sa_scan (rs : list row) (i : nat) (t les : Z) (spl : nat) : sa_exit * Z * nat :=
  match rs with
  | [] => (ExEnd, les, spl)
  | d :: rest =>
      let spl' := if rt d >=? les then i else spl in
      if rt d >=? t then (ExBeyond i, les, spl')
      else
        let les' := Z.max les (re d) in
        if les' >? t then (ExLate, les', spl')
        else sa_scan rest (S i) t les' spl'
  end.

Definition row0 : row := mkrow 0 0 0 0.

(* None = raise CannotSplit *)
Definition split_array (rs : list row) (t : Z) (early : bool)
  : option (list row * list row * Z) :=
  match rs with
  | [] => Some ([], [], t)
  | d0 :: _ =>
      if rt d0 >=? t then Some ([], rs, t)
      else
        match sa_scan rs 0 t (-1) 0 with
        | (ExEnd, _, _) => Some (rs, [], t)      (* for..else: les <= t always holds here *)
        | (ex, les, spl) =>
            let ifb_eq := match ex with ExBeyond i => Nat.eqb spl i | _ => false end in
            if negb ifb_eq || (les >? t) then
              if early
              then Some (firstn spl rs, skipn spl rs, Z.min (rt (nth spl rs row0)) t)
              else None
            else Some (firstn spl rs, skipn spl rs, t)
        end
  end.
