(* Runner-side views of the C15 models used by the extraction cross-check: the token sequence the
   OCaml driver prints, as a list of Z (OK=0 RAISE=1 VALUEERR=2 FUEL=3 T=-1 R=-2 F=-3 S=-4 M=-5). *)
From SV Require Import Base.Prelude Model.MultiRun Model.CtxRace.

Definition c15_zlen {A} (l : list A) : Z := Z.of_nat (length l).

Definition c15_arr (a : list mrow) : list Z :=
  c15_zlen a :: flat_map (fun rp => [match fst rp with Some r => r | None => -1 end; snd rp]) a.

Definition c15_mr_str (tbl : list (Z * option (list Z))) (cfg : mr_cfg) (ids : list Z)
           (sched : list (list nat)) : list Z :=
  match multi_run_tbl tbl cfg ids sched with
  | MROk res fl sub mw =>
      [0] ++ (match res with
              | None => [-1]
              | Some arrs => [-2; c15_zlen arrs] ++ flat_map c15_arr arrs
              end)
          ++ [-3; c15_zlen fl] ++ fl ++ [-4; c15_zlen sub] ++ sub ++ [-5; Z.of_nat mw]
  | MRRaise r sub => [1; r; -4; c15_zlen sub] ++ sub
  | MRValueErr => [2]
  | MRFuel => [3]
  end.

(* Context model: per thread (status code, labelled lines executed) after a schedule and the final drain *)
Definition c15_status_z (s : status) : list Z :=
  match s with Running => [0] | Done => [1] | Crashed k l => [2; k; l] end.
Definition c15_ctx_str (c : cfgm) (sh : shared) (progs : list (list item)) (sched : list nat) (n : nat)
  : list (list Z * list Z) :=
  map (fun th => (c15_status_z (th_status th), th_trace th)) (s_ths (run_all c sh progs sched n)).
