(* Model of strax.mailbox.divide_outputs (mailbox.py 474-530): one thread that takes dicts from a source
   and sends component j to mailbox j, for several mailboxes, each with its own subscribers.

   The state is a list of single-mailbox states (Model/Mailbox.v).  The `sender` fields of component j
   (s_pc, s_woken, src) hold the divider's position *as seen from mailbox j*: what the divider does to
   mailbox j is exactly a sequence of sender steps of the single-mailbox LTS on component j
   (gate region, send, close), and the divider's own program counter only decides WHICH mailbox it works
   on next.  Hence every run of this system projects, mailbox by mailbox, onto a run of the
   single-mailbox LTS (Proof/MailboxDividerProof.v), and the single-mailbox theorems carry over.

   divide_outputs, per round:  lazy: for every output that does not flow freely, the gate region of that
   mailbox (in order);  result = next(source) (lock-free: merged into the preceding step);  for every
   output in order: mailboxes[d].send(x_d);  at the end: close() on every mailbox in order.
   A mailbox that flows freely is never gated: for the sender's purposes it is an eager mailbox (the
   notifications its readers send to _fetch_new_condition never find a waiter).

   Failure paths (an exception in send -> kill_from_exception on all mailboxes) are not modelled here:
   without a kill they are unreachable (C06 owns them).  No proofs in this file. *)
From SV Require Import Base.Prelude Model.Mailbox.
Local Open Scope nat_scope.

Inductive dpc : Type :=
| DGate (j : nat)        (* about to enter / waiting in the gate region of mailbox j *)
| DSend (j : nat)        (* about to enter / waiting in send() of mailbox j *)
| DClose (j : nat)       (* about to enter / waiting in close() of mailbox j *)
| DDone.

Record dstate : Type := mkD {
  d_mbs : list state;     (* the mailboxes with their subscribers (and the divider's view of them) *)
  d_pc : dpc;
  d_left : nat;           (* dicts the source has not yet produced *)
}.

Record dconfig : Type := mkDC {
  dc_cap : option nat;    (* max_messages of every mailbox *)
  dc_lazy : bool;
  dc_ff : list bool;      (* flow_freely, per mailbox *)
}.

Inductive dtid : Type := DT | DR (j i : nat).

Definition gated (dc : dconfig) (j : nat) : bool := dc_lazy dc && negb (nth j (dc_ff dc) false).
Definition cfg_of (dc : dconfig) (j : nat) : config := mkConfig (dc_cap dc) (gated dc j).

(* first gated mailbox among j, j+1, ..., j+fuel-1 *)
Fixpoint first_gated (dc : dconfig) (fuel j : nat) : option nat :=
  match fuel with
  | O => None
  | S f => if gated dc j then Some j else first_gated dc f (S j)
  end.

(* all gates from j on have been passed (or there are none): fetch the next dict, or start closing *)
Definition after_gates (dc : dconfig) (n : nat) (j : nat) (lft : nat) : dpc * nat :=
  match first_gated dc (n - j) j with
  | Some j' => (DGate j', lft)
  | None => match lft with O => (DClose 0, 0) | S l => (DSend 0, l) end
  end.

Definition comp_waiting (c : state) : bool :=
  match s_pc c with SGateWait | SSendWait _ _ _ => true | _ => false end.

Definition div_enabled (ds : dstate) : bool :=
  match d_pc ds with
  | DGate j | DSend j | DClose j =>
      match nth_error (d_mbs ds) j with Some c => sender_enabled c | None => false end
  | DDone => false
  end.

Definition div_step (dc : dconfig) (ds : dstate) : dstate :=
  let n := length (d_mbs ds) in
  match d_pc ds with
  | DDone => ds
  | DGate j =>
      match nth_error (d_mbs ds) j with
      | None => ds
      | Some c =>
          let c' := sender_step (cfg_of dc j) c in
          let mbs' := upd j c' (d_mbs ds) in
          if comp_waiting c' then mkD mbs' (DGate j) (d_left ds)
          else let '(pc', left') := after_gates dc n (S j) (d_left ds) in mkD mbs' pc' left'
      end
  | DSend j =>
      match nth_error (d_mbs ds) j with
      | None => ds
      | Some c =>
          let c' := sender_step (cfg_of dc j) c in
          let mbs' := upd j c' (d_mbs ds) in
          if comp_waiting c' then mkD mbs' (DSend j) (d_left ds)
          else if S j <? n then mkD mbs' (DSend (S j)) (d_left ds)
          else let '(pc', left') := after_gates dc n 0 (d_left ds) in mkD mbs' pc' left'
      end
  | DClose j =>
      match nth_error (d_mbs ds) j with
      | None => ds
      | Some c =>
          let c' := sender_step (cfg_of dc j) c in
          let mbs' := upd j c' (d_mbs ds) in
          if comp_waiting c' then mkD mbs' (DClose j) (d_left ds)
          else if S j <? n then mkD mbs' (DClose (S j)) (d_left ds)
          else mkD mbs' DDone (d_left ds)
      end
  end.

Definition denabled (ds : dstate) (t : dtid) : bool :=
  match t with
  | DT => div_enabled ds
  | DR j i => match nth_error (d_mbs ds) j with Some c => enabled c (TR i) | None => false end
  end.

Definition dstep (dc : dconfig) (ds : dstate) (t : dtid) : option dstate :=
  if denabled ds t then
    match t with
    | DT => Some (div_step dc ds)
    | DR j i =>
        match nth_error (d_mbs ds) j with
        | Some c => match step (cfg_of dc j) c (TR i) with
                    | Some c' => Some (mkD (upd j c' (d_mbs ds)) (d_pc ds) (d_left ds))
                    | None => None
                    end
        | None => None
        end
    end
  else None.

Fixpoint drun (dc : dconfig) (ds : dstate) (sched : list dtid) : option dstate :=
  match sched with
  | [] => Some ds
  | t :: rest => match dstep dc ds t with Some ds' => drun dc ds' rest | None => None end
  end.

Fixpoint dtrace (dc : dconfig) (ds : dstate) (sched : list dtid) : list dstate :=
  match sched with
  | [] => []
  | t :: rest => match dstep dc ds t with Some ds' => ds' :: dtrace dc ds' rest | None => [] end
  end.

(* the source produces `length (hd [] comps)` dicts; comps j = the list of j-th components *)
Fixpoint init_mbs (dc : dconfig) (j : nat) (subs : list (list bool)) (comps : list (list msg)) : list state :=
  match subs, comps with
  | dr :: subs', ms :: comps' =>
      init (cfg_of dc j) dr (map (fun m => (@None nat, m)) ms) None 0 :: init_mbs dc (S j) subs' comps'
  | _, _ => []
  end.

Definition dinit (dc : dconfig) (subs : list (list bool)) (comps : list (list msg)) (ndicts : nat) : dstate :=
  let mbs := init_mbs dc 0 subs comps in
  let '(pc, lft) := after_gates dc (length mbs) 0 ndicts in
  mkD mbs pc lft.

Definition d_all_terminal (ds : dstate) : bool :=
  match d_pc ds with DDone => true | _ => false end
  && forallb (fun c => forallb (fun r => match r_pc r with RDone | RRaised => true | _ => false end) (rds c))
             (d_mbs ds).
