(* Model of the saving / loading path of strax (property C03; imported by C04 and C16):
     strax/storage/common.py : Saver.__init__, Saver.save_from, Saver.save, Saver.close,
                               StorageBackend.saver, StorageBackend.loader,
                               StorageBackend._read_and_format_chunk, StorageFrontend.find (read side),
                               StorageFrontend.loader
     strax/storage/files.py  : FileSaver.__init__, _chunk_filename, _save_chunk, _save_chunk_metadata,
                               _close, FileSytemBackend._get_metadata / _read_chunk, DataDirectory._find
     strax/io.py             : save_file / load_file  (the byte codec is abstract, see below)
   Executable definitions only; the proofs are in Proof/SaverLoaderProof.v.

   The byte codec (numpy buffer layout, `dtype.descr` text round trip, the compressor libraries) is
   NOT modelled: it is a `Section` variable `encode`/`decode` indexed by the compressor id.  The
   content of a chunk file is the row list of the chunk passed through that codec.  The proofs
   assume `decode k (encode k rs) = Some rs` as a Section hypothesis; the correspondence harness
   exercises the real codec on every run.

   Names: data types, data kinds, row dtypes (the `dtype.descr` text), run ids and compressors are
   integer ids (the harness keeps the tables).  A chunk file is named by its chunk number
   (`<prefix>-%06d`). *)
From SV Require Export Model.Chunk Model.Rechunker.

Definition E_NOT_AVAILABLE : Z := 40.  (* strax.DataNotAvailable (find / required metadata fields) *)
Definition E_NO_CHUNKS     : Z := 41.  (* ValueError: Cannot load data ..., it has no chunks! *)
Definition E_CHUNK_FIELDS  : Z := 42.  (* chunk-level metadata lacks start / end / run_id / filename *)
Definition E_CORRUPTED     : Z := 43.  (* strax.DataCorrupted: undecodable file or row-count mismatch *)
Definition E_NO_FILE       : Z := 44.  (* FileNotFoundError: chunk file missing *)
Definition E_SAVER_CLOSED  : Z := 45.  (* RuntimeError: saver already closed / temp dir already renamed *)
Definition E_MD_KEY        : Z := 46.  (* KeyError: metadata given to save_from has no run_id *)

Definition COMP_BLOSC : Z := 0.
Definition COMP_ZSTD  : Z := 1.
Definition COMP_LZ4   : Z := 2.
Definition COMP_BZ2   : Z := 3.

(* one entry of metadata["chunks"] *)
Record chunk_info := mk_ci {
  ci_i : Z;                      (* chunk_i *)
  ci_n : Z;                      (* n *)
  ci_start : option Z;           (* start; None = field absent (only after tampering) *)
  ci_end : option Z;             (* end *)
  ci_run : option Z;             (* run_id; None = absent / null *)
  ci_nbytes : Z;                 (* nbytes = n * itemsize *)
  ci_first_time : option Z;      (* first_time .. last_endtime: present iff the chunk has rows *)
  ci_first_endtime : option Z;
  ci_last_time : option Z;
  ci_last_endtime : option Z;
  ci_filename : option Z;        (* chunk number naming the file; absent for an empty chunk *)
  ci_filesize : option Z         (* bytes written; present only for a synchronous write *)
}.

(* the metadata dictionary, restricted to the fields the saving / loading logic reads or writes *)
Record metadata := mk_md {
  md_run : option Z;             (* run_id *)
  md_dtype : option Z;           (* data_type *)
  md_kind : option Z;            (* data_kind *)
  md_rowtype : option Z;         (* dtype (descr text) *)
  md_compressor : option Z;      (* compressor *)
  md_target : option Z;          (* chunk_target_size_mb, in rows *)
  md_chunks : list chunk_info;   (* chunks *)
  md_start : option Z;           (* start *)
  md_end : option Z;             (* end *)
  md_ended : bool;               (* "writing_ended" present *)
  md_exception : bool            (* "exception" present *)
}.

Definition md_set_chunks (m : metadata) (l : list chunk_info) : metadata :=
  mk_md (md_run m) (md_dtype m) (md_kind m) (md_rowtype m) (md_compressor m) (md_target m)
        l (md_start m) (md_end m) (md_ended m) (md_exception m).
Definition md_set_start (m : metadata) (s : option Z) : metadata :=
  mk_md (md_run m) (md_dtype m) (md_kind m) (md_rowtype m) (md_compressor m) (md_target m)
        (md_chunks m) s (md_end m) (md_ended m) (md_exception m).
Definition md_set_end (m : metadata) (e : option Z) : metadata :=
  mk_md (md_run m) (md_dtype m) (md_kind m) (md_rowtype m) (md_compressor m) (md_target m)
        (md_chunks m) (md_start m) e (md_ended m) (md_exception m).
Definition md_set_ended (m : metadata) (b : bool) : metadata :=
  mk_md (md_run m) (md_dtype m) (md_kind m) (md_rowtype m) (md_compressor m) (md_target m)
        (md_chunks m) (md_start m) (md_end m) b (md_exception m).
Definition md_set_exception (m : metadata) (b : bool) : metadata :=
  mk_md (md_run m) (md_dtype m) (md_kind m) (md_rowtype m) (md_compressor m) (md_target m)
        (md_chunks m) (md_start m) (md_end m) (md_ended m) b.
Definition md_set_compressor (m : metadata) (c : option Z) : metadata :=
  mk_md (md_run m) (md_dtype m) (md_kind m) (md_rowtype m) c (md_target m)
        (md_chunks m) (md_start m) (md_end m) (md_ended m) (md_exception m).

(* "complete" as StorageFrontend.find / _can_overwrite understand it *)
Definition md_complete (m : metadata) : bool := md_ended m && negb (md_exception m).

(* how the saver is driven *)
Record save_cfg := mk_cfg {
  sc_rechunk : bool;        (* the `rechunk` argument of save_from *)
  sc_allow_rechunk : bool;  (* Saver.allow_rechunk *)
  sc_executor : bool;       (* an executor is passed: chunk files are written asynchronously *)
  sc_forked : bool;         (* Saver.is_forked *)
  sc_itemsize : Z           (* dtype.itemsize *)
}.

Fixpoint lookup {B} (k : Z) (l : list (Z * B)) : option B :=
  match l with
  | [] => None
  | (k', b) :: rest => if k' =? k then Some b else lookup k rest
  end.

Fixpoint remove_key {B} (k : Z) (l : list (Z * B)) : list (Z * B) :=
  match l with
  | [] => []
  | (k', b) :: rest => if k' =? k then remove_key k rest else (k', b) :: remove_key k rest
  end.

(* writing a file: os.rename over an existing name replaces it *)
Definition write_file {B} (k : Z) (b : B) (l : list (Z * B)) : list (Z * B) := remove_key k l ++ [(k, b)].

(* insertion sort by key: sorted(glob(...metadata_*.json)) for chunk numbers below 10^6 *)
Fixpoint insert_by_key {B} (x : Z * B) (l : list (Z * B)) : list (Z * B) :=
  match l with
  | [] => [x]
  | y :: rest => if fst x <=? fst y then x :: l else y :: insert_by_key x rest
  end.
Fixpoint sort_by_key {B} (l : list (Z * B)) : list (Z * B) :=
  match l with [] => [] | x :: rest => insert_by_key x (sort_by_key rest) end.

Section Codec.
  Variable blob : Type.
  Variable encode : Z -> list row -> blob.           (* compressor id, rows -> file content *)
  Variable decode : Z -> blob -> option (list row).  (* None: load_file raises DataCorrupted *)
  Variable bsize : blob -> Z.                        (* number of bytes of the file *)

  (* the saver object together with the directory it writes *)
  Record saver := mk_saver {
    sv_md : metadata;                      (* self.md (in memory) *)
    sv_disk : metadata;                    (* content of the metadata json after the last flush *)
    sv_files : list (Z * blob);            (* chunk files by chunk number *)
    sv_meta_files : list (Z * chunk_info); (* metadata_<chunk>.json files of a forked saver *)
    sv_closed : bool;                      (* self.closed *)
    sv_final : bool                        (* directory renamed from <key>_temp to <key> *)
  }.

  (* StorageBackend.saver + Saver.__init__ + FileSaver.__init__ : default compressor, empty chunk
     list, fresh temp dir, first metadata flush *)
  Definition init_saver (md0 : metadata) : saver :=
    let m := md_set_chunks
               (md_set_compressor md0 (match md_compressor md0 with None => Some COMP_BLOSC | c => c end)) [] in
    mk_saver m m [] [] false false.

  Definition flush_metadata (s : saver) : saver :=
    mk_saver (sv_md s) (sv_md s) (sv_files s) (sv_meta_files s) (sv_closed s) (sv_final s).

  Definition opt_map {A B} (f : A -> B) (o : option A) : option B :=
    match o with Some a => Some (f a) | None => None end.

  (* the chunk_info dictionary built by Saver.save (+ the bonus info of FileSaver._save_chunk) *)
  Definition make_info (cfg : save_cfg) (comp : Z) (c : chunk) (i : Z) : chunk_info :=
    let rows := crows c in
    let n := Z.of_nat (length rows) in
    let first := hd_error rows in
    let lst := match rows with [] => None | r0 :: _ => Some (last rows r0) end in
    let sync := negb (sc_executor cfg) || sc_forked cfg in
    mk_ci i n (Some (cstart c)) (Some (cend c)) (crun c) (n * sc_itemsize cfg)
          (opt_map rt first) (opt_map re first) (opt_map rt lst) (opt_map re lst)
          (match rows with [] => None | _ => Some i end)
          (match rows with [] => None | _ => if sync then Some (bsize (encode comp rows)) else None end).

  Definition comp_of (m : metadata) : Z := match md_compressor m with Some k => k | None => COMP_BLOSC end.

  (* Saver.save in the saver's own process (not forked): write the file unless the chunk is empty,
     then FileSaver._save_chunk_metadata *)
  Definition save (cfg : save_cfg) (s : saver) (c : chunk) (i : Z) : res saver :=
    if sv_closed s then Err E_SAVER_CLOSED
    else
      let comp := comp_of (sv_md s) in
      let info := make_info cfg comp c i in
      let files := match crows c with [] => sv_files s | rows => write_file i (encode comp rows) (sv_files s) end in
      let m1 := if i =? 0 then md_set_start (sv_md s) (Some (cstart c)) else sv_md s in
      if sc_forked cfg then
        (* forked saver used inside one process: per-chunk json; the first chunk is ALSO appended *)
        let metas := write_file i info (sv_meta_files s) in
        if i =? 0 then
          let m2 := md_set_chunks m1 (md_chunks m1 ++ [info]) in
          Ok (mk_saver m2 m2 files metas false (sv_final s))
        else Ok (mk_saver m1 (sv_disk s) files metas false (sv_final s))
      else
        let m2 := md_set_chunks m1 (md_chunks m1 ++ [info]) in
        Ok (mk_saver m2 m2 files (sv_meta_files s) false (sv_final s)).

  (* Saver.save of a forked saver executed in a child process on a pickled copy of the saver: the
     parent's in-memory metadata does not change; the child writes the chunk file, the per-chunk
     json, and - for the first chunk - flushes its own copy of the metadata *)
  Definition save_in_child (cfg : save_cfg) (s : saver) (c : chunk) (i : Z) : res saver :=
    if sv_closed s then Err E_SAVER_CLOSED
    else
      let comp := comp_of (sv_md s) in
      let info := make_info cfg comp c i in
      let files := match crows c with [] => sv_files s | rows => write_file i (encode comp rows) (sv_files s) end in
      let metas := write_file i info (sv_meta_files s) in
      let disk := if i =? 0
                  then md_set_chunks (md_set_start (sv_md s) (Some (cstart c))) (md_chunks (sv_md s) ++ [info])
                  else sv_disk s in
      Ok (mk_saver (sv_md s) disk files metas false (sv_final s)).

  (* the chunks of a forked saver are saved by child processes in some order of chunk numbers *)
  Fixpoint save_children (cfg : save_cfg) (s : saver) (jobs : list (Z * chunk)) : res saver :=
    match jobs with
    | [] => Ok s
    | (i, c) :: rest => do s' <- save_in_child cfg s c i; save_children cfg s' rest
    end.

  Definition ci_start_of (l : list chunk_info) : option Z :=
    match l with [] => None | ci :: _ => ci_start ci end.
  Definition ci_end_of (l : list chunk_info) : option Z :=
    match l with [] => None | ci :: _ => ci_end (last l ci) end.

  (* Saver.close + FileSaver._close.  exc: an exception is being handled (sys.exc_info) *)
  Definition close (s : saver) (exc : bool) : res saver :=
    if sv_closed s then Err E_SAVER_CLOSED
    else if sv_final s then Err E_SAVER_CLOSED
    else
      let m1 := if exc then md_set_exception (sv_md s) true else sv_md s in
      let m2 := match md_chunks m1 with
                | [] => m1
                | l => md_set_end (md_set_start m1 (ci_start_of l)) (ci_end_of l)
                end in
      let m3 := md_set_ended m2 true in
      (* _close: collect the per-chunk json files in sorted order, flush, rename the directory *)
      let m4 := md_set_chunks m3 (md_chunks m3 ++ map snd (sort_by_key (sv_meta_files s))) in
      Ok (mk_saver m4 m4 (sv_files s) [] true true).

  Fixpoint save_all (cfg : save_cfg) (s : saver) (cs : list chunk) (i : Z) : res (saver * Z) :=
    match cs with
    | [] => Ok (s, i)
    | c :: rest => do s' <- save cfg s c i; save_all cfg s' rest (i + 1)
    end.

  (* the while loop of save_from; cache = Rechunker.cache; returns the saver and whether an
     exception escaped the loop *)
  Fixpoint save_loop (cfg : save_cfg) (rechunk : bool) (cache : option chunk) (s : saver) (i : Z)
           (cs : list chunk) : saver * res unit :=
    match cs with
    | [] =>
        match save_all cfg s (if rechunk then flush cache else []) i with
        | Ok (s', _) => (s', Ok tt)
        | Err e => (s, Err e)
        end
    | c :: rest =>
        match (if rechunk then receive cache c else Ok ([c], None)) with
        | Err e => (s, Err e)
        | Ok (out, cache') =>
            match save_all cfg s out i with
            | Ok (s', i') => save_loop cfg rechunk cache' s' i' rest
            | Err e => (s, Err e)
            end
        end
    end.

  (* Saver.save_from.  With an executor the chunk writes are futures: finished ones are dropped
     only after reading their outcome (Saver._drop_finished), the rest is awaited before the
     normal exit and by close.  Without I/O faults (property C04's topic) every write succeeds, so
     here the executor only decides whether `filesize` is recorded (make_info). *)
  Definition save_from (cfg : save_cfg) (s : saver) (cs : list chunk) : saver * res unit :=
    match md_run (sv_md s) with
    | None => (s, Err E_MD_KEY)          (* Rechunker(run_id=self.md["run_id"]) before the try *)
    | Some _ =>
        let rechunk := sc_rechunk cfg && sc_allow_rechunk cfg in
        let '(s1, r) := save_loop cfg rechunk None s 0 cs in
        let exc := match r with Ok _ => false | Err _ => true end in
        (* finally: if not self.closed: self.close(wait_for=pending) *)
        if sv_closed s1 then (s1, r)
        else match close s1 exc with
             | Ok s2 => (s2, r)
             | Err e => (s1, match r with Ok _ => Err e | Err e0 => Err e0 end)
             end
    end.

  (* ---- loading ---- *)

  (* DataDirectory._find (exact key, no fuzziness) + StorageFrontend.find(check_broken=True) +
     FileSytemBackend._get_metadata: the metadata of the final directory, or of <key>_temp when
     incomplete data is allowed *)
  Definition find (s : saver) (allow_incomplete : bool) : res metadata :=
    if sv_final s || allow_incomplete then
      let m := sv_disk s in
      if md_exception m then Err E_NOT_AVAILABLE
      else if negb (md_ended m) && negb allow_incomplete then Err E_NOT_AVAILABLE
      else Ok m
    else Err E_NOT_AVAILABLE.

  (* StorageBackend._read_and_format_chunk (time_range = None) after the chunk-level field check *)
  Definition read_chunk (files : list (Z * blob)) (comp dt kind tgt : Z) (ci : chunk_info) : res chunk :=
    match ci_start ci, ci_end ci, ci_run ci with
    | Some s, Some e, Some r =>
        do rows <- (if ci_n ci =? 0 then Ok []
                    else match ci_filename ci with
                         | None => Err E_CHUNK_FIELDS
                         | Some f =>
                             match lookup f files with
                             | None => Err E_NO_FILE
                             | Some b => match decode comp b with None => Err E_CORRUPTED | Some rows => Ok rows end
                             end
                         end);
        if negb (Z.of_nat (length rows) =? ci_n ci) then Err E_CORRUPTED
        else mk_chunk s e rows dt kind (Some r) tgt
    | _, _, _ => Err E_CHUNK_FIELDS
    end.

  Fixpoint read_chunks (files : list (Z * blob)) (comp dt kind tgt : Z) (l : list chunk_info) : res (list chunk) :=
    match l with
    | [] => Ok []
    | ci :: rest =>
        do c <- read_chunk files comp dt kind tgt ci;
        do cs <- read_chunks files comp dt kind tgt rest;
        Ok (c :: cs)
    end.

  (* StorageBackend.loader without time range, chunk number or rechunking.  default_target stands
     for DEFAULT_CHUNK_SIZE_MB expressed in rows *)
  Definition backend_loader (files : list (Z * blob)) (m : metadata) (default_target : Z) : res (list chunk) :=
    match md_run m, md_dtype m, md_kind m, md_rowtype m, md_compressor m with
    | Some _, Some dt, Some kind, Some _, Some comp =>
        match md_chunks m with
        | [] => Err E_NO_CHUNKS
        | l => read_chunks files comp dt kind (match md_target m with Some t => t | None => default_target end) l
        end
    | _, _, _, _, _ => Err E_NOT_AVAILABLE
    end.

  (* StorageFrontend.loader *)
  Definition load (s : saver) (allow_incomplete : bool) (default_target : Z) : res (list chunk) :=
    do m <- find s allow_incomplete;
    backend_loader (sv_files s) m default_target.

  (* ---- editing the stored data behind strax's back (used for the loader's verdicts) ---- *)
  Inductive tamper :=
  | T_none
  | T_set_n (k : nat) (n : Z)        (* overwrite "n" of chunk entry k *)
  | T_del_file (f : Z)               (* remove chunk file f *)
  | T_put_file (f : Z) (b : blob)    (* replace the content of chunk file f *)
  | T_swap_files (f g : Z)           (* exchange the contents of two chunk files *)
  | T_md_drop (j : Z)                (* delete a metadata field: 0 run_id 1 data_type 2 data_kind 3 dtype 4 compressor 5 chunk_target_size_mb *)
  | T_ci_drop (k : nat) (j : Z)      (* delete a field of chunk entry k: 0 start 1 end 2 run_id 3 filename *)
  | T_no_chunks                      (* chunks := [] *)
  | T_unend                          (* delete writing_ended *)
  | T_exc                            (* add an exception field *)
  | T_compressor (c : Z).            (* change the compressor named in the metadata *)

  Fixpoint update_nth {A} (k : nat) (f : A -> A) (l : list A) : list A :=
    match l, k with
    | [], _ => []
    | x :: r, O => f x :: r
    | x :: r, S k' => x :: update_nth k' f r
    end.

  Definition ci_set_n (n : Z) (c : chunk_info) : chunk_info :=
    mk_ci (ci_i c) n (ci_start c) (ci_end c) (ci_run c) (ci_nbytes c) (ci_first_time c)
          (ci_first_endtime c) (ci_last_time c) (ci_last_endtime c) (ci_filename c) (ci_filesize c).
  Definition ci_drop (j : Z) (c : chunk_info) : chunk_info :=
    mk_ci (ci_i c) (ci_n c)
          (if j =? 0 then None else ci_start c) (if j =? 1 then None else ci_end c)
          (if j =? 2 then None else ci_run c) (ci_nbytes c) (ci_first_time c)
          (ci_first_endtime c) (ci_last_time c) (ci_last_endtime c)
          (if j =? 3 then None else ci_filename c) (ci_filesize c).

  Definition md_drop (j : Z) (m : metadata) : metadata :=
    mk_md (if j =? 0 then None else md_run m) (if j =? 1 then None else md_dtype m)
          (if j =? 2 then None else md_kind m) (if j =? 3 then None else md_rowtype m)
          (if j =? 4 then None else md_compressor m) (if j =? 5 then None else md_target m)
          (md_chunks m) (md_start m) (md_end m) (md_ended m) (md_exception m).

  Definition on_disk (f : metadata -> metadata) (s : saver) : saver :=
    mk_saver (sv_md s) (f (sv_disk s)) (sv_files s) (sv_meta_files s) (sv_closed s) (sv_final s).
  Definition on_files (f : list (Z * blob) -> list (Z * blob)) (s : saver) : saver :=
    mk_saver (sv_md s) (sv_disk s) (f (sv_files s)) (sv_meta_files s) (sv_closed s) (sv_final s).

  Definition apply_tamper (t : tamper) (s : saver) : saver :=
    match t with
    | T_none => s
    | T_set_n k n => on_disk (fun m => md_set_chunks m (update_nth k (ci_set_n n) (md_chunks m))) s
    | T_del_file f => on_files (remove_key f) s
    | T_put_file f b => on_files (fun l => match lookup f l with None => l | Some _ => write_file f b l end) s
    | T_swap_files f g =>
        on_files (fun l => match lookup f l, lookup g l with
                           | Some bf, Some bg => write_file g bf (write_file f bg l)
                           | _, _ => l
                           end) s
    | T_md_drop j => on_disk (md_drop j) s
    | T_ci_drop k j => on_disk (fun m => md_set_chunks m (update_nth k (ci_drop j) (md_chunks m))) s
    | T_no_chunks => on_disk (fun m => md_set_chunks m []) s
    | T_unend => on_disk (fun m => md_set_ended m false) s
    | T_exc => on_disk (fun m => md_set_exception m true) s
    | T_compressor c => on_disk (fun m => md_set_compressor m (Some c)) s
    end.
End Codec.

Arguments mk_saver {blob}.
Arguments sv_md {blob}.
Arguments sv_disk {blob}.
Arguments sv_files {blob}.
Arguments sv_meta_files {blob}.
Arguments sv_closed {blob}.
Arguments sv_final {blob}.
Arguments init_saver {blob}.
Arguments find {blob}.
Arguments close {blob}.
Arguments T_none {blob}.
Arguments T_set_n {blob}.
Arguments T_del_file {blob}.
Arguments T_put_file {blob}.
Arguments T_swap_files {blob}.
Arguments T_md_drop {blob}.
Arguments T_ci_drop {blob}.
Arguments T_no_chunks {blob}.
Arguments T_unend {blob}.
Arguments T_exc {blob}.
Arguments T_compressor {blob}.
Arguments apply_tamper {blob}.
