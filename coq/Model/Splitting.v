(* Model of strax/processing/peak_splitting.py: PeakSplitter._split_peaks (per peak) and
   LocalMinimumSplitter.find_split_points.  Executable definitions only.
   Waveform samples, min_height and min_ratio are integers (exact domain).  The float sentinels
   +-99999999999999.9 are modelled by +-BIG = +-10^14: every modelled sample lies far inside. *)
From SV Require Export Base.Prelude Model.PeakHelpers.

Definition BIG : Z := 100000000000000.

(* for i, x in enumerate(w): ... ; returns the yielded split indices and found_one *)
Fixpoint lms_loop (w : list Z) (i last_max msm msm_i : Z) (found : bool) (mh mr : Z) : list Z * bool :=
  match w with
  | [] => ([], found)
  | x :: w' =>
      let msm1 := if x <? msm then x else msm in
      let msmi1 := if x <? msm then i else msm_i in
      if Z.min last_max x >? Z.max (msm1 + mh) (msm1 * mr) then
        (* significant local minimum: yield it; last_max = x; reset the minimum finder.
           The following `if x > last_max` is then false. *)
        let '(r, f) := lms_loop w' (i + 1) x BIG i true mh mr in (msmi1 :: r, f)
      else if x >? last_max then lms_loop w' (i + 1) x BIG i found mh mr
      else lms_loop w' (i + 1) last_max msm1 msmi1 found mh mr
  end.

(* the yielded indices before NO_MORE_SPLITS: the minima, then len(w) if there was at least one *)
Definition lms_split_points (w : list Z) (mh mr : Z) : list Z :=
  let '(r, f) := lms_loop w 0 (- BIG) BIG 0 false mh mr in
  if f then r ++ [zlen w] else r.

(* children of one parent peak in _split_peaks: (time, length, dt) *)
Record child := mkchild { ct : Z; clen : Z; cdt : Z }.
Definition cend (c : child) : Z := ct c + clen c * cdt c.

(* Err 1 = ValueError("Attempt to create invalid peak!") *)
Fixpoint sp_children (t dt orig_dt prev : Z) (splits : list Z) : res (list child) :=
  match splits with
  | [] => Ok []
  | s :: r =>
      (* r["length"] = (split_i - prev_split_i) * p["dt"] / orig_dt  -> int32: truncation *)
      let len := Z.quot ((s - prev) * dt) orig_dt in
      if len <=? 0 then Err 1
      else do cs <- sp_children t dt orig_dt s r;
           Ok (mkchild (t + prev * dt) len orig_dt :: cs)
  end.

(* one iteration of `for p_i, p in enumerate(peaks)`: (is_split[p_i], new peaks of p) *)
Definition split_peak (t dt area min_area orig_dt : Z) (splits : list Z) : res (bool * list child) :=
  if area <? min_area then Ok (false, [])
  else do cs <- sp_children t dt orig_dt 0 splits;
       Ok (negb (zlen splits =? 0), cs).

Definition split_peak_local_minimum (t dt area min_area orig_dt : Z) (w : list Z) (mh mr : Z)
  : res (bool * list child) :=
  split_peak t dt area min_area orig_dt (lms_split_points w mh mr).

(* NaturalBreaksSplitter.find_split_points (repaired, /repo commit 8263a29: closes with len(w)).
   The goodness-of-split floats are not modelled: max_i = argmax(gofs) and
   accept = (gofs[max_i] > threshold[peak_i]) are inputs. *)
Definition nbs_split_points (w : list Z) (max_i : Z) (accept : bool) : list Z :=
  if accept then [max_i; zlen w] else [].
Definition split_peak_natural_breaks (t dt area min_area orig_dt : Z) (w : list Z) (max_i : Z)
           (accept : bool) : res (bool * list child) :=
  split_peak t dt area min_area orig_dt (nbs_split_points w max_i accept).
