(* Model of the strax.Context code shared by the worker threads of a multi-run call, AS REPAIRED by
   /repo commit d202a14 (strax/context.py).  (The transition system of the code before that commit is
   kept in Model/CtxRacePinned.v together with the interleavings that crash it.)

   The repaired code has three kinds of statements touching the shared maps:
     * `_get_plugins` and `key_for` run under the module-level re-entrant lock _PLUGIN_RESOLUTION_LOCK.
       Every access to `_fixed_plugin_cache` happens inside one of these two functions.  They are
       modelled as ATOMIC SECTIONS: big-step functions from (registry in effect, plugin cache) to
       (new cache, outcome), mirroring the Python functions `_plugins_are_cached`, `_plugins_to_cache`,
       `__get_requested_plugins_from_cache`, `__get_plugin`, `_get_plugins`, `key_for` recursion by
       recursion, and producing the sequence of labelled source lines they execute (for the
       correspondence with the line-level interleaver).
     * get_iter, for several same-kind targets, does
           self = copy(self); self._plugin_class_registry = self._plugin_class_registry.copy()
       before `self.register(temporary merge plugin)`: from there to the end of the call the registry is
       PRIVATE to the calling thread (register, the cleanup loop, is_stored / stored_dependencies reads
       and every iteration over the registry act on the copy).
     * everything else only READS the context's own registry, which no load ever writes.
   One transition of a thread = one item of its call skeleton: an atomic section, or a group of
   statements acting on private / never-written data.  The harness checks on the real code, at every
   labelled line, that cache statements run with the lock held and registry writes hit a private copy.

   Labels are those of Model/CtxRacePinned.v plus
     27 get_iter  `self._plugin_class_registry = self._plugin_class_registry.copy()`.
   Errors: K_KEY (KeyError; swallowed inside estimate_run_start_and_end by _make_progress_bar),
   K_MODEL (fuel of the model exhausted / a statement the repaired code cannot execute). *)
From SV Require Import Base.Prelude.

Definition name := Z.
Definition is_temp (n : name) : bool := 1000 <=? n.
Definition reg := list (name * Z).            (* _plugin_class_registry: data type -> class id *)
Definition cache := option (list name).       (* _fixed_plugin_cache: None | keys of the inner dict *)

Definition L_GP : Z := 1.   Definition L_PAC_NONE : Z := 2.  Definition L_CH : Z := 3.
Definition L_PAC_IN : Z := 4.  Definition L_PAC_GET : Z := 5.  Definition L_PAC_ALL : Z := 6.
Definition L_GPL_NOTIN : Z := 7.  Definition L_GPL_NEW : Z := 8.
Definition L_PTC_NONE : Z := 9.  Definition L_PTC_INIT : Z := 10.  Definition L_PTC_NOTIN : Z := 11.
Definition L_PTC_SET : Z := 13.  Definition L_RFC_GET : Z := 14.  Definition L_RFC_ITER : Z := 15.
Definition L_REG_GET : Z := 16.  Definition L_REG_SET : Z := 17.  Definition L_REG_GET2 : Z := 18.
Definition L_REG_ITER : Z := 20.
Definition L_KF_IN : Z := 21.  Definition L_KF_GET : Z := 22.
Definition L_GI_LOOP : Z := 23.  Definition L_GI_DEL : Z := 24.
Definition L_IS_READ : Z := 25.  Definition L_COPY : Z := 27.

Definition K_KEY : Z := 2.
Definition K_MODEL : Z := 4.

Record cfgm := mkcfgm {
  c_deps : list (name * list name);                  (* depends_on per data type *)
  c_setorder : list (list name * list name);         (* list(set(xs)) as observed on CPython *)
  c_fuel : nat }.                                    (* recursion depth / safety counter of the loops *)

Fixpoint memz (x : Z) (l : list Z) : bool :=
  match l with [] => false | y :: r => (x =? y) || memz x r end.
Fixpoint list_eqb (a b : list Z) : bool :=
  match a, b with
  | [], [] => true
  | x :: a', y :: b' => (x =? y) && list_eqb a' b'
  | _, _ => false
  end.
Fixpoint lookup_l {B} (k : list Z) (tbl : list (list Z * B)) : option B :=
  match tbl with [] => None | (k', v) :: r => if list_eqb k k' then Some v else lookup_l k r end.
Fixpoint lookup_z {B} (k : Z) (tbl : list (Z * B)) : option B :=
  match tbl with [] => None | (k', v) :: r => if k' =? k then Some v else lookup_z k r end.
Definition deps_of (c : cfgm) (t : name) : list name :=
  match lookup_z t (c_deps c) with Some l => l | None => [] end.
Fixpoint dedupe (l : list Z) : list Z :=
  match l with [] => [] | x :: r => if memz x r then dedupe r else x :: dedupe r end.
Definition set_order (c : cfgm) (l : list name) : list name :=
  match lookup_l l (c_setorder c) with Some o => o | None => dedupe l end.

Definition mem_reg (t : name) (R : reg) : bool := existsb (fun kv => fst kv =? t) R.
Fixpoint reg_set (t : name) (v : Z) (R : reg) : reg :=
  match R with
  | [] => [(t, v)]
  | (k, v') :: r => if k =? t then (k, v) :: r else (k, v') :: reg_set t v r
  end.
Definition reg_get (t : name) (R : reg) : option Z := lookup_z t R.

(* ------------------------------------------------------------------ atomic sections *)
(* N + 1 hits of the `for` line of an iteration over a dict with N entries *)
Definition iter_tr (l : Z) (n : nat) : list Z := repeat l (S n).
Definition hash_tr (R : reg) : list Z := iter_tr L_CH (length R).              (* _context_hash *)

Inductive sres :=
| SOk (C : cache) (tr : list Z)
| SKeyErr (C : cache) (tr : list Z)
| SFuel (tr : list Z).

Definition s_prepend (p : list Z) (r : sres) : sres :=
  match r with
  | SOk C tr => SOk C (p ++ tr)
  | SKeyErr C tr => SKeyErr C (p ++ tr)
  | SFuel tr => SFuel (p ++ tr)
  end.

(* run `step` over a list, threading the cache; stop at the first error *)
Fixpoint s_seq {A} (step : cache -> A -> sres) (C : cache) (l : list A) : sres :=
  match l with
  | [] => SOk C []
  | x :: r =>
      match step C x with
      | SOk C1 tr1 => s_prepend tr1 (s_seq step C1 r)
      | e => e
      end
  end.

(* _plugins_are_cached((t,)) *)
Definition pac (R : reg) (C : cache) (t : name) : bool * list Z :=
  match C with
  | None => (false, [L_PAC_NONE])
  | Some ks => (memz t ks, [L_PAC_NONE] ++ hash_tr R ++ [L_PAC_IN; L_PAC_GET; L_PAC_ALL; L_PAC_ALL])
  end.

(* __get_requested_plugins_from_cache(run_id, (t,)) when t is cached *)
Definition rfc_tr (R : reg) (C : cache) : list Z :=
  [L_RFC_GET] ++ hash_tr R ++ iter_tr L_RFC_ITER (match C with Some ks => length ks | None => O end).

(* _plugins_to_cache({t: plugin}) *)
Definition ptc (R : reg) (C : cache) (t : name) : cache * list Z :=
  match C with
  | None => (Some [t], hash_tr R ++ [L_PTC_NONE; L_PTC_INIT; L_PTC_SET])
  | Some ks => (Some (if memz t ks then ks else ks ++ [t]), hash_tr R ++ [L_PTC_NONE; L_PTC_NOTIN; L_PTC_SET])
  end.

(* __get_plugin(run_id, t) *)
Fixpoint get_plugin (f : nat) (c : cfgm) (R : reg) (C : cache) (t : name) : sres :=
  match f with
  | O => SFuel []
  | S f' =>
      let '(b, tr0) := pac R C t in
      if b then SOk C (tr0 ++ rfc_tr R C)
      else if negb (mem_reg t R) then SKeyErr C (tr0 ++ [L_GPL_NOTIN])
      else
        match s_seq (fun C' d => get_plugin f' c R C' d) C (deps_of c t) with
        | SOk C1 tr1 =>
            let '(C2, tr2) := ptc R C1 t in
            SOk C2 (tr0 ++ [L_GPL_NOTIN; L_GPL_NEW] ++ tr1 ++ tr2)
        | e => s_prepend (tr0 ++ [L_GPL_NOTIN; L_GPL_NEW]) e
        end
  end.

(* the control of the `while targets` loop of _get_plugins: the data types __get_plugin is called for,
   in order (= the keys of the returned dict).  It does not depend on the cache.  None = the safety
   counter ran out. *)
Fixpoint gp_order (f : nat) (c : cfgm) (pending acc : list name) : option (list name) :=
  match f with
  | O => None
  | S f' =>
      match set_order c pending with
      | [] => Some acc
      | t :: more =>
          if memz t acc then gp_order f' c more acc
          else gp_order f' c (more ++ deps_of c t) (acc ++ [t])
      end
  end.

(* _get_plugins(targets, run_id): (outcome, keys of the returned dict) *)
Definition get_plugins (c : cfgm) (R : reg) (C : cache) (ts : list name) : sres * list name :=
  match gp_order (c_fuel c) c ts [] with
  | None => (SFuel (iter_tr L_GP (length R)), [])
  | Some order =>
      (s_prepend (iter_tr L_GP (length R)) (s_seq (get_plugin (c_fuel c) c R) C order), order)
  end.

(* key_for(run_id, t) *)
Definition key_for (c : cfgm) (R : reg) (C : cache) (t : name) : sres :=
  let '(b, tr0) := pac R C t in
  if b then SOk C (tr0 ++ hash_tr R ++ [L_KF_IN; L_KF_GET] ++ hash_tr R)
  else s_prepend tr0 (fst (get_plugins c R C [t])).

(* ------------------------------------------------------------------ statements on the registry *)
(* register(temporary plugin class cl providing t) *)
Definition register_tr (t : name) (cl : Z) (P : reg) : list Z :=
  [L_REG_GET; L_REG_SET]
  ++ (match reg_get t P with Some o => if o =? cl then [] else [L_REG_GET2] | None => [] end)
  ++ iter_tr L_REG_ITER (length (reg_set t cl P)).

(* for k in list(registry.keys()): if k.startswith('_temp'): del registry[k] *)
Definition cleanup_tr (R : reg) : list Z :=
  L_GI_LOOP :: flat_map (fun kv => if is_temp (fst kv) then [L_GI_DEL; L_GI_LOOP] else [L_GI_LOOP]) R.
Definition cleanup_reg (R : reg) : reg := filter (fun kv => negb (is_temp (fst kv))) R.

(* ------------------------------------------------------------------ threads *)
Inductive item :=
| IGetPlugins (ts : list name)           (* a top-level _get_plugins call *)
| IKeyFor (t : name)                     (* a key_for call *)
| ICopyReg                               (* get_iter: private copy of the registry *)
| IRegister (t : name) (cl : Z)          (* self.register(temporary plugin) *)
| ICleanup                               (* get_iter: the '_temp*' cleanup loop *)
| IRegRead (l : Z) (t : name)            (* registry[t] in is_stored / stored_dependencies *)
| IEstimate (ts : list name) (nsf : nat) (* estimate_run_start_and_end via _make_progress_bar *)
| IMark                                  (* end of the scope in which a KeyError is swallowed *)
| IEndCall.                              (* get_iter returns: the private registry is gone *)

Inductive status := Running | Done | Crashed (kind : Z) (lbl : Z).

Record shared := mkshared { sh_reg : reg; sh_cache : cache }.

Record thread := mkthread {
  th_items : list item;
  th_reg : option reg;            (* the private registry, if this call made one *)
  th_status : status;
  th_trace : list Z;              (* labelled lines executed, in order *)
  th_got : list (list name);      (* keys returned by the _get_plugins calls outside swallowing scopes *)
  th_steps : list nat }.          (* number of labelled lines of every transition made *)

Definition is_mark (i : item) : bool := match i with IMark => true | _ => false end.
Definition in_scope (items : list item) : bool := existsb is_mark items.
Fixpoint pop_to_mark (items : list item) : list item :=
  match items with
  | [] => []
  | IMark :: r => r
  | _ :: r => pop_to_mark r
  end.

Definition cur_reg (sh : shared) (th : thread) : reg :=
  match th_reg th with Some p => p | None => sh_reg sh end.

Definition last_lbl (tr : list Z) : Z := last tr 0.

(* skip the silent items; an empty stack means the thread is done *)
Fixpoint settle_items (items : list item) (P : option reg) : list item * option reg :=
  match items with
  | IMark :: r => settle_items r P
  | IEndCall :: r => settle_items r None
  | _ => (items, P)
  end.

Definition settle (th : thread) : thread :=
  match th_status th with
  | Running =>
      let '(items, P) := settle_items (th_items th) (th_reg th) in
      mkthread items P (match items with [] => Done | _ => Running end)
               (th_trace th) (th_got th) (th_steps th)
  | _ => th
  end.

(* the thread continues after a step that executed the lines tr *)
Definition advance (th : thread) (items : list item) (P : option reg) (tr : list Z)
           (got : list (list name)) : thread :=
  settle (mkthread items P Running (th_trace th ++ tr) (th_got th ++ got) (th_steps th ++ [length tr])).

(* an error of kind k after the lines tr; rest = the items after the failing one *)
Definition fail (th : thread) (rest : list item) (k : Z) (tr : list Z) : thread :=
  if (k =? K_KEY) && in_scope rest
  then advance th (pop_to_mark rest) (th_reg th) tr []
  else mkthread rest (th_reg th) (Crashed k (last_lbl (th_trace th ++ tr))) (th_trace th ++ tr) (th_got th)
                (th_steps th ++ [length tr]).

Definition with_cache (sh : shared) (C : cache) : shared := mkshared (sh_reg sh) C.

Definition step_thread (c : cfgm) (sh : shared) (th : thread) : shared * thread :=
  match th_status th with
  | Running =>
      match th_items th with
      | [] => (sh, settle th)
      | it :: rest =>
          let R := cur_reg sh th in
          match it with
          | IGetPlugins ts =>
              match get_plugins c R (sh_cache sh) ts with
              | (SOk C tr, names) =>
                  (with_cache sh C, advance th rest (th_reg th) tr (if in_scope rest then [] else [names]))
              | (SKeyErr C tr, _) => (with_cache sh C, fail th rest K_KEY tr)
              | (SFuel tr, _) => (sh, fail th rest K_MODEL tr)
              end
          | IKeyFor t =>
              match key_for c R (sh_cache sh) t with
              | SOk C tr => (with_cache sh C, advance th rest (th_reg th) tr [])
              | SKeyErr C tr => (with_cache sh C, fail th rest K_KEY tr)
              | SFuel tr => (sh, fail th rest K_MODEL tr)
              end
          | ICopyReg => (sh, advance th rest (Some (sh_reg sh)) [L_COPY] [])
          | IRegister t cl =>
              match th_reg th with
              | None => (sh, fail th rest K_MODEL [L_REG_GET])       (* would write the shared registry *)
              | Some P => (sh, advance th rest (Some (reg_set t cl P)) (register_tr t cl P) [])
              end
          | ICleanup =>
              match th_reg th with
              | Some P => (sh, advance th rest (Some (cleanup_reg P)) (cleanup_tr P) [])
              | None =>
                  if existsb (fun kv => is_temp (fst kv)) (sh_reg sh)
                  then (sh, fail th rest K_MODEL [L_GI_LOOP])          (* would write the shared registry *)
                  else (sh, advance th rest None (cleanup_tr (sh_reg sh)) [])
              end
          | IRegRead l t =>
              if mem_reg t R then (sh, advance th rest (th_reg th) [l] [])
              else (sh, fail th rest K_KEY [l])
          | IEstimate ts nsf =>
              match get_plugins c R (sh_cache sh) ts with
              | (SOk C tr, names) =>
                  (with_cache sh C,
                   advance th (flat_map (fun t => repeat (IKeyFor t) nsf ++ [IRegRead L_IS_READ t]) names
                               ++ IMark :: rest) (th_reg th) tr [])
              | (SKeyErr C tr, _) => (with_cache sh C, advance th rest (th_reg th) tr [])   (* swallowed *)
              | (SFuel tr, _) => (sh, fail th rest K_MODEL tr)
              end
          | IMark => (sh, settle th)
          | IEndCall => (sh, settle th)
          end
      end
  | _ => (sh, th)
  end.

Record sys := mksys { s_sh : shared; s_ths : list thread }.

Fixpoint set_nth {A} (i : nat) (x : A) (l : list A) : list A :=
  match l with [] => [] | y :: r => match i with O => x :: r | S j => y :: set_nth j x r end end.

Definition sys_step (c : cfgm) (s : sys) (tid : nat) : sys :=
  match nth_error (s_ths s) tid with
  | None => s
  | Some th =>
      let '(sh', th') := step_thread c (s_sh s) th in
      mksys sh' (set_nth tid th' (s_ths s))
  end.

Fixpoint run_sched (c : cfgm) (s : sys) (sched : list nat) : sys :=
  match sched with [] => s | t :: r => run_sched c (sys_step c s t) r end.
Fixpoint run_alone (c : cfgm) (n : nat) (s : sys) (tid : nat) : sys :=
  match n with O => s | S m => run_alone c m (sys_step c s tid) tid end.
Fixpoint drain (c : cfgm) (n : nat) (s : sys) (tids : list nat) : sys :=
  match tids with [] => s | t :: r => drain c n (run_alone c n s t) r end.

Definition init_thread (prog : list item) : thread := settle (mkthread prog None Running [] [] []).
Definition init_sys (sh : shared) (progs : list (list item)) : sys := mksys sh (map init_thread progs).
Definition run_all (c : cfgm) (sh : shared) (progs : list (list item)) (sched : list nat) (n : nat) : sys :=
  drain c n (run_sched c (init_sys sh progs) sched) (seq 0 (length progs)).

Definition th_crashed (th : thread) : bool := match th_status th with Crashed _ _ => true | _ => false end.
Definition th_done (th : thread) : bool := match th_status th with Done => true | _ => false end.

(* ------------------------------------------------------------------ well-formed call skeletons *)
(* every data type reachable from t through depends_on (within the fuel) is registered in R *)
Fixpoint closed (f : nat) (c : cfgm) (R : reg) (t : name) : bool :=
  match f with
  | O => false
  | S f' => mem_reg t R && forallb (closed f' c R) (deps_of c t)
  end.
(* the dependency chains below t are shorter than the fuel *)
Fixpoint depth_ok (f : nat) (c : cfgm) (t : name) : bool :=
  match f with
  | O => false
  | S f' => forallb (depth_ok f' c) (deps_of c t)
  end.

Definition gp_closed (c : cfgm) (R : reg) (ts : list name) : bool :=
  match gp_order (c_fuel c) c ts [] with
  | None => false
  | Some o => forallb (closed (c_fuel c) c R) o
  end.
Definition gp_nofuel (c : cfgm) (ts : list name) : bool :=
  match gp_order (c_fuel c) c ts [] with
  | None => false
  | Some o => forallb (depth_ok (c_fuel c) c) o
  end.
Definition est_ok (c : cfgm) (ts : list name) : bool :=
  match gp_order (c_fuel c) c ts [] with
  | None => false
  | Some o => forallb (depth_ok (c_fuel c) c) o && forallb (fun t => gp_nofuel c [t]) o
  end.

(* symbolic execution of the registry statements of a skeleton: P = the private registry in effect.
   Outside a swallowing scope every name a section may have to build must be registered, every registry
   read must hit, registry writes need a private registry; inside a swallowing scope (the items before an
   IMark) there are only sections and registry reads. *)
Fixpoint wf_items (c : cfgm) (R0 : reg) (P : option reg) (items : list item) : bool :=
  match items with
  | [] => true
  | it :: rest =>
      let R := match P with Some p => p | None => R0 end in
      match it with
      | IGetPlugins ts => (if in_scope rest then gp_nofuel c ts else gp_closed c R ts) && wf_items c R0 P rest
      | IKeyFor t => (if in_scope rest then gp_nofuel c [t] else gp_closed c R [t]) && wf_items c R0 P rest
      | ICopyReg => negb (in_scope rest) && wf_items c R0 (Some R0) rest
      | IRegister t cl =>
          negb (in_scope rest) &&
          match P with None => false | Some p => wf_items c R0 (Some (reg_set t cl p)) rest end
      | ICleanup =>
          negb (in_scope rest) &&
          match P with
          | Some p => wf_items c R0 (Some (cleanup_reg p)) rest
          | None => negb (existsb (fun kv => is_temp (fst kv)) R0) && wf_items c R0 None rest
          end
      | IRegRead l t => (in_scope rest || mem_reg t R) && wf_items c R0 P rest
      | IEstimate ts nsf => est_ok c ts && wf_items c R0 P rest
      | IMark => wf_items c R0 P rest
      | IEndCall => negb (in_scope rest) && wf_items c R0 None rest
      end
  end.

(* what the _get_plugins calls of a skeleton return (outside swallowing scopes), whatever the cache *)
Fixpoint exp_got (c : cfgm) (items : list item) : list (list name) :=
  match items with
  | [] => []
  | IGetPlugins ts :: rest =>
      (if in_scope rest then [] else
         match gp_order (c_fuel c) c ts [] with Some o => [o] | None => [] end) ++ exp_got c rest
  | _ :: rest => exp_got c rest
  end.

(* an upper bound of the number of transitions a skeleton takes *)
Definition item_weight (c : cfgm) (i : item) : nat :=
  match i with
  | IEstimate ts nsf =>
      match gp_order (c_fuel c) c ts [] with
      | Some o => 2 + length o * S nsf
      | None => 2
      end
  | _ => 1
  end.
Definition prog_weight (c : cfgm) (items : list item) : nat :=
  fold_right (fun i a => item_weight c i + a)%nat O items.

Fixpoint rle (l : list (nat * nat)) : list nat :=
  match l with [] => [] | (t, n) :: r => repeat t n ++ rle r end.
