(* Executable models of the interval primitives of strax/processing/general.py and of
   strax/sort_enforcement.py.  Every definition mirrors the Python loop it is named after,
   statement by statement (two-pointer scans keep the remaining suffix of the scanned array
   together with the integer index).  No proofs in this file.

   Error codes (res): 1 = first array ("things" / data) unsorted or NoBreakFound (per function,
   see below), 2 = second array unsorted / NotImplementedError, 3 = things negative length /
   AssertionError, 4 = containers negative length, 5 = SortingError, 6 = ValueError of
   overlap_indices. *)
From SV Require Export Model.Rows.

Definition row0 : row := mkrow 0 0 0 0.

(* ------------------------------------------------------------------------------------- *)
(* the three numba checkers: _check_time_is_sorted, _check_objects_non_negative_length,
   _check_objects_are_not_overlapping *)

(* np.all((time[1:] - time[:-1]) >= 0) *)
Fixpoint zsorted_from (prev : Z) (l : list Z) : bool :=
  match l with
  | [] => true
  | x :: r => (x - prev >=? 0) && zsorted_from x r
  end.
Definition check_time_sorted (l : list Z) : bool :=
  match l with [] => true | x :: r => zsorted_from x r end.

(* np.all(endtime(objects) >= objects['time']) *)
Definition check_nonneg_length (rs : list row) : bool := forallb (fun r => re r >=? rt r) rs.

(* np.all(objects['time'][1:] - endtime(objects)[:-1] >= 0) *)
Fixpoint nonoverlap_from (prev_end : Z) (rs : list row) : bool :=
  match rs with
  | [] => true
  | r :: rest => (rt r - prev_end >=? 0) && nonoverlap_from (re r) rest
  end.
Definition check_not_overlapping (rs : list row) : bool :=
  match rs with [] => true | r :: rest => nonoverlap_from (re r) rest end.

(* ------------------------------------------------------------------------------------- *)
(* _fc_in (general.py:195-209) *)

(* while b_i < len(b) and b_ends[b_i] <= a_start: b_i += 1 *)
Fixpoint fc_skip (cs : list row) (bi : nat) (a : Z) : list row * nat :=
  match cs with
  | c :: rest => if re c <=? a then fc_skip rest (S bi) a else (cs, bi)
  | [] => ([], bi)
  end.

(* the for-loop over things; cs = containers[b_i:], result initialised to -1 *)
Fixpoint fc_in (things cs : list row) (bi : nat) : list Z :=
  match things with
  | [] => []
  | a :: rest =>
      let '(cs', bi') := fc_skip cs bi (rt a) in
      match cs' with
      | [] => map (fun _ => -1) things            (* if b_i == len(b_starts): break *)
      | c :: _ =>
          (if (rt c <=? rt a) && (re a <=? re c) then Z.of_nat bi' else -1)
            :: fc_in rest cs' bi'
      end
  end.

(* _fully_contained_in_sanity: Err 1/2 unsorted things/containers, Err 3/4 negative lengths;
   Ok w: w = true iff the "Overlapping of containers" warning is issued *)
Definition fc_sanity (things cs : list row) : res bool :=
  if negb (check_time_sorted (map rt things)) then Err 1
  else if negb (check_time_sorted (map rt cs)) then Err 2
  else
    let w := negb (check_not_overlapping cs) in
    if negb (check_nonneg_length things) then Err 3
    else if negb (check_nonneg_length cs) then Err 4
    else Ok w.

Definition fully_contained_in (things cs : list row) : res (bool * list Z) :=
  do w <- fc_sanity things cs; Ok (w, fc_in things cs 0).

(* ------------------------------------------------------------------------------------- *)
(* split_by_containment (general.py:212-307) *)

(* _split(things, split_indices) *)
Fixpoint split_go {A} (things : list A) (prev : nat) (sis : list nat) : list (list A) :=
  match sis with
  | [] => if (prev <? length things)%nat then [skipn prev things] else []
  | si :: rest => firstn (si - prev)%nat (skipn prev things) :: split_go things si rest
  end.
Definition split_at {A} (things : list A) (sis : list nat) : list (list A) :=
  match sis with
  | [] => [things]
  | _ => split_go things 0 sis
  end.

(* np.where(np.diff(which))[0] + 1 *)
Fixpoint change_points (prev : Z) (i : nat) (l : list Z) : list nat :=
  match l with
  | [] => []
  | x :: r => if x - prev =? 0 then change_points x (S i) r else i :: change_points x (S i) r
  end.
Definition split_indices (which : list Z) : list nat :=
  match which with [] => [] | x :: r => change_points x 1 r end.

(* np.unique: sorted distinct values (insertion into a strictly increasing list) *)
Fixpoint uniq_insert (x : Z) (l : list Z) : list Z :=
  match l with
  | [] => [x]
  | y :: r => if x <? y then x :: l else if x =? y then l else y :: uniq_insert x r
  end.
Definition np_unique (l : list Z) : list Z := fold_right uniq_insert [] l.

(* _get_empty_container_ids(n_containers, full_container_ids) *)
Definition zrange (a b : Z) : list Z := map (fun k => a + Z.of_nat k) (seq 0 (Z.to_nat (b - a))).
Fixpoint empty_ids_go (n : Z) (prev : Z) (full : list Z) : list Z :=
  match full with
  | [] => if prev <? n then zrange prev n else []
  | fid :: rest => zrange prev fid ++ empty_ids_go n (fid + 1) rest
  end.
Definition get_empty_container_ids (n : Z) (full : list Z) : list Z := empty_ids_go n 0 full.

(* list.insert(i, x) for i >= 0 *)
Definition insert_at {A} (i : nat) (x : A) (l : list A) : list A := firstn i l ++ x :: skipn i l.

Definition split_by_containment_core (things cs : list row) : list (list row) :=
  let which := fc_in things cs 0 in
  let kept := filter (fun p => negb (snd p =? -1)) (combine things which) in
  let things' := map fst kept in
  let which' := map snd kept in
  match things' with
  | [] => map (fun _ => []) cs
  | _ =>
      let sp := split_at things' (split_indices which') in
      let empties := get_empty_container_ids (Z.of_nat (length cs)) (np_unique which') in
      fold_left (fun acc ci => insert_at (Z.to_nat ci) [] acc) empties sp
  end.

Definition split_by_containment (things cs : list row) : res (bool * list (list row)) :=
  do w <- fc_sanity things cs;
  match cs with
  | [] => Ok (w, [])
  | _ => Ok (w, split_by_containment_core things cs)
  end.

(* ------------------------------------------------------------------------------------- *)
(* overlap_indices (general.py:310-339) *)

Definition overlap_indices (a1 na b1 nb : Z) : res ((Z * Z) * (Z * Z)) :=
  if (na <? 0) || (nb <? 0) then Err 6
  else if (na =? 0) || (nb =? 0) then Ok ((0, 0), (0, 0))
  else
    let s := a1 - b1 in
    if s <=? - na then Ok ((0, 0), (0, 0))
    else
      let b_start := Z.max 0 s in
      let b_end := Z.min nb (s + na) in
      if b_start >=? b_end then Ok ((0, 0), (0, 0))
      else
        let a_start := Z.max 0 (- s) in
        let a_end := Z.min na (- s + nb) in
        Ok ((a_start, a_end), (b_start, b_end)).

(* ------------------------------------------------------------------------------------- *)
(* sort_enforcement.stable_argsort / stable_sort: kind guard + stable sort.
   kind code 0 = "mergesort"; anything else is rejected with SortingError (Err 5). *)

(* stable insertion sort: fold_right inserts an earlier element in front of the later ones
   with an equal key *)
Fixpoint ins_by {A} (key : A -> Z) (x : A) (l : list A) : list A :=
  match l with
  | [] => [x]
  | y :: r => if key x <=? key y then x :: l else y :: ins_by key x r
  end.
Definition sort_by {A} (key : A -> Z) (l : list A) : list A := fold_right (ins_by key) [] l.

Definition index_list {A} (l : list A) : list (nat * A) := combine (seq 0 (length l)) l.

Definition argsort (keys : list Z) : list nat := map fst (sort_by snd (index_list keys)).

Definition stable_argsort (keys : list Z) (kind : Z) : res (list nat) :=
  if kind =? 0 then Ok (argsort keys) else Err 5.
Definition stable_sort (keys : list Z) (kind : Z) : res (list Z) :=
  if kind =? 0 then Ok (sort_by (fun x => x) keys) else Err 5.

(* ------------------------------------------------------------------------------------- *)
(* _touching_windows (general.py:425-455) and the touching_windows wrapper *)

(* while left_i <= n-1 and thing_end[left_i] <= bound: left_i += 1 *)
Fixpoint tw_adv_left (things : list row) (li : nat) (bound : Z) : list row * nat :=
  match things with
  | q :: rest => if re q <=? bound then tw_adv_left rest (S li) bound else (things, li)
  | [] => ([], li)
  end.
Fixpoint tw_left (things : list row) (li : nat) (w : Z) (cs : list row) : list nat :=
  match cs with
  | [] => []
  | c :: rest =>
      let '(th', li') := tw_adv_left things li (rt c - w) in
      li' :: tw_left th' li' w rest
  end.

(* while right_i <= n-1 and thing_start[right_i] < bound: right_i += 1 *)
Fixpoint tw_adv_right (things : list row) (ri : nat) (bound : Z) : list row * nat :=
  match things with
  | q :: rest => if rt q <? bound then tw_adv_right rest (S ri) bound else (things, ri)
  | [] => ([], ri)
  end.
(* second loop, over the containers in the order of container_end_argsort *)
Fixpoint tw_right (things : list row) (ri : nat) (w : Z) (order : list (nat * Z)) : list (nat * nat) :=
  match order with
  | [] => []
  | (i, t1) :: rest =>
      let '(th', ri') := tw_adv_right things ri (t1 + w) in
      (i, ri') :: tw_right th' ri' w rest
  end.

(* result[i, 1]: the array is initialised with zeros *)
Definition lookup_nat (i : nat) (l : list (nat * nat)) : nat :=
  match find (fun p => Nat.eqb (fst p) i) l with Some p => snd p | None => 0%nat end.

Definition touching_windows_core (things cs : list row) (w : Z) (kind : Z) : res (list (nat * nat)) :=
  if negb (kind =? 0) then Err 5
  else
    let lefts := tw_left things 0 w cs in
    let order := sort_by snd (index_list (map re cs)) in
    let rights := tw_right things 0 w order in
    Ok (map (fun p => (snd p, lookup_nat (fst p) rights)) (index_list lefts)).

(* Ok (warn, windows): warn = "endtime of things is not sorted" warning *)
Definition touching_windows (things cs : list row) (w : Z) : res (bool * list (nat * nat)) :=
  if negb (check_time_sorted (map rt things)) then Err 1
  else
    let warn := negb (check_time_sorted (map re things)) in
    if negb (check_time_sorted (map rt cs)) then Err 2
    else if negb (check_nonneg_length things) then Err 3
    else if negb (check_nonneg_length cs) then Err 4
    else
      match things, cs with
      | [], _ | _, [] => Ok (warn, map (fun _ => (0%nat, 0%nat)) cs)
      | _, _ => do r <- touching_windows_core things cs w 0; Ok (warn, r)
      end.

(* _split_by_window: r[w[0]:w[1]] *)
Definition slice {A} (l : list A) (lo hi : nat) : list A := firstn (hi - lo)%nat (skipn lo l).
Definition split_touching_windows (things cs : list row) (w : Z) : res (bool * list (list row)) :=
  do r <- touching_windows things cs w;
  Ok (fst r, map (fun p => slice things (fst p) (snd p)) (snd r)).

(* ------------------------------------------------------------------------------------- *)
(* diff (general.py:82-94) *)

(* loop over zip(time[1:], endtime[:-1]); pe = endtime of the previous element *)
Fixpoint diff_go (mx pe : Z) (rs : list row) : list Z :=
  match rs with
  | [] => []
  | d :: rest => let mx' := Z.max mx pe in (rt d - mx') :: diff_go mx' (re d) rest
  end.
Definition diff (rs : list row) : list Z :=
  match rs with [] => [] | d0 :: rest => diff_go (re d0) (re d0) rest end.

(* ------------------------------------------------------------------------------------- *)
(* _find_break_i / from_break (general.py:97-140).
   Err 1 = NoBreakFound, Err 2 = NotImplementedError, Err 3 = AssertionError *)

Fixpoint fb_go (les sb : Z) (i : nat) (rs : list row) : option nat :=
  match rs with
  | [] => None
  | d :: rest => if rt d >=? les + sb then Some i else fb_go (Z.max les (re d)) sb (S i) rest
  end.

Definition find_break_i (rs : list row) (sb nb : Z) : res nat :=
  match rs with
  | d0 :: ((_ :: _) as rest) =>
      match fb_go (Z.max nb (re d0)) sb 1 rest with
      | Some i => Ok i
      | None => Err 1
      end
  | _ => Err 3
  end.

Definition from_break (rs : list row) (sb nb : Z) (left tolerant : bool) : res (list row * Z) :=
  if tolerant then Err 2
  else match rs with
       | [] => Err 2
       | [_] => Err 1
       | _ =>
           do i <- find_break_i rs sb nb;
           Ok ((if left then firstn i rs else skipn i rs), rt (nth i rs row0))
       end.

(* ------------------------------------------------------------------------------------- *)
(* _abs_time_to_prev_next (general.py:518-555) and its wrapper *)

(* first inner loop over intervals[veto_intervals_seen:] *)
Fixpoint atp_loop1 (t : Z) (ivs : list row) (prev : Z) (seen : nat) : Z * nat :=
  match ivs with
  | [] => (prev, seen)
  | iv :: rest =>
      if rt iv >=? t then (prev, seen)
      else
        let dt := t - re iv in
        if dt >=? 0 then atp_loop1 t rest dt (S seen) else atp_loop1 t rest prev seen
  end.

(* second inner loop over intervals[veto_intervals_seen:] *)
Fixpoint atp_loop2 (e : Z) (ivs : list row) : Z :=
  match ivs with
  | [] => -1
  | iv :: rest => if rt iv <? e then atp_loop2 e rest else rt iv - e
  end.

Fixpoint atp_go (things ivs : list row) (seen : nat) : list (Z * Z) :=
  match things with
  | [] => []
  | th :: rest =>
      let '(prev, seen1) := atp_loop1 (rt th) (skipn seen ivs) (-1) seen in
      let next := atp_loop2 (re th) (skipn seen1 ivs) in
      (prev, next) :: atp_go rest ivs (Nat.pred seen1)
  end.

(* Ok (warn, [(to_prev, to_next)]) *)
Definition abs_time_to_prev_next_interval (things ivs : list row) : res (bool * list (Z * Z)) :=
  if negb (check_time_sorted (map rt things)) then Err 1
  else
    let warn := negb (check_time_sorted (map re things)) in
    if negb (check_time_sorted (map rt ivs)) then Err 2
    else
      match things, ivs with
      | [], _ | _, [] => Ok (warn, map (fun _ => (-1, -1)) things)
      | _, _ => Ok (warn, atp_go things ivs 0)
      end.

(* ------------------------------------------------------------------------------------- *)
(* sort_by_time (general.py:15-58), for arrays that have a 'channel' field.
   The comparison with max_time_difference is done in floating point by the code; the model
   uses the exact rational comparison (equivalent away from the rounding boundary). *)

Definition zmin_list (d : Z) (l : list Z) : Z := fold_left Z.min l d.
Definition zmax_list (d : Z) (l : list Z) : Z := fold_left Z.max l d.

Definition INT64_MAX : Z := 9223372036854775807.

(* lexicographic order on (time, channel, endtime, id): np.sort(order=('time','channel')) breaks
   remaining ties by the other fields in dtype order *)
Definition lex4_leb (a b : row) : bool :=
  if rt a <? rt b then true else if rt b <? rt a then false else
  if rch a <? rch b then true else if rch b <? rch a then false else
  if re a <? re b then true else if re b <? re a then false else
  rid a <=? rid b.
Fixpoint ins_le {A} (leb : A -> A -> bool) (x : A) (l : list A) : list A :=
  match l with
  | [] => [x]
  | y :: r => if leb x y then x :: l else y :: ins_le leb x r
  end.
Definition sort_le {A} (leb : A -> A -> bool) (l : list A) : list A := fold_right (ins_le leb) [] l.

Definition sbt_shift (rs : list row) : Z :=
  match rs with
  | [] => 0
  | r :: rest => let mn := zmin_list (rch r) (map rch rest) in if mn <? 0 then - mn else 0
  end.
Definition sbt_cm1 (rs : list row) : Z :=
  match rs with
  | [] => 1
  | r :: rest => zmax_list (rch r) (map rch rest) + sbt_shift rs + 1
  end.
Definition sbt_tmin (rs : list row) : Z :=
  match rs with [] => 0 | r :: rest => zmin_list (rt r) (map rt rest) end.
Definition sbt_tmax (rs : list row) : Z :=
  match rs with [] => 0 | r :: rest => zmax_list (rt r) (map rt rest) end.
Definition sbt_key (rs : list row) (r : row) : Z :=
  (rt r - sbt_tmin rs) * sbt_cm1 rs + (rch r + sbt_shift rs).
Definition sbt_range_too_large (rs : list row) : bool :=
  (sbt_tmax rs - sbt_tmin rs) * sbt_cm1 rs >? INT64_MAX - 10.

Definition sort_by_time (rs : list row) : list row :=
  match rs with
  | [] => []
  | _ =>
      if sbt_range_too_large rs then sort_le lex4_leb rs
      else sort_by (sbt_key rs) rs
  end.
