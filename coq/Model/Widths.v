(* Model of strax/processing/peak_properties.py::index_of_fraction (the loop over the peaks),
   compute_widths and compute_center_time.  Executable definitions only.
   compute_widths over exact rationals (it divides); compute_center_time over integers
   (integer samples; the float -> int64 store truncates toward zero: Z.quot). *)
From SV Require Export Model.PeakProps Model.Merging.
Open Scope Z_scope.

(* index_of_fraction: `if p["area"] <= 0: continue` leaves the zeros of np.zeros *)
Definition iof_peak (A : Q) (len : Z) (data fs : list Q) : list Q :=
  if Qle_bool A 0 then map (fun _ => 0%Q) fs else index_of_fraction A len data fs.

(* desired_fr of compute_widths for K = len(peaks[0]["width"]):
     w = np.linspace(0, 1, K)[1:];  sort(unique(concat(0.5 - w/2, 0.5 + w/2, [0.5])))
   = m / (2 (K - 1)) for m = 0 .. 2K - 2  (K = 1: just [0.5]) *)
Definition width_fractions (K : nat) : list Q :=
  match K with
  | 1%nat => [(1 # 2)%Q]
  | _ => map (fun m => (m # Pos.of_nat (2 * (K - 1)))%Q) (zseqn 0 (2 * K - 1))
  end.

(* fr_times = index_of_fraction(peaks, desired_fr) * dt;  i = len(desired_fr) // 2
   median_time = fr_times[i]
   width = fr_times[i:] - fr_times[::-1][i:]
   area_decile_from_midpoint = fr_times[::2] - fr_times[i] *)
Definition compute_widths (K : nat) (A : Q) (len dt : Z) (data : list Q) : Q * list Q * list Q :=
  let fr := width_fractions K in
  let t := map (fun x => x * inject_Z dt)%Q (iof_peak A len data fr) in
  let n := zlen fr in
  let i := n / 2 in
  (qget t i,
   map (fun k => qget t (i + k) - qget t (n - 1 - (i + k)))%Q (zseqn 0 (Z.to_nat (n - i))),
   map (fun k => qget t (2 * k) - qget t i)%Q (zseqn 0 (Z.to_nat ((n + 1) / 2)))).

(* compute_center_time for one peak (endtime = time + length * dt: no endtime field) *)
Fixpoint wsum (i : Z) (d : list Z) : Z :=
  match d with [] => 0 | x :: r => i * x + wsum (i + 1) r end.

Definition clip (x lo hi : Z) : Z := Z.min (Z.max x lo) hi.

Definition center_time (time len dt : Z) (data : list Z) : Z :=
  let d := firstn (Z.to_nat len) data in
  let s := zsum d in
  let c := if s =? 0 then time
           else (* t = sum(i x_i) / s;  int((t + 1/2) * dt) + time *)
                Z.quot (dt * (2 * wsum 0 d + s)) (2 * s) + time in
  clip c time (time + len * dt).
