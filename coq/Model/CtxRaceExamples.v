(* GENERATED with harness.props.c15_ctx.build_mc / coq_terms from traced sequential runs of the repaired strax code (call skeletons of
   Context.get_array); the check re-derives these terms from the real code on every run (unit ctx_race/
   sequential: same skeleton, same label trace).  Used as Examples: the hypothesis of ctx_race_free holds. *)
From SV Require Import Base.Prelude Model.CtxRace.

(* ex_multi: graph [('src', ()), ('aa', ('src',))], targets ('src', 'aa'), storage none, cold cache, calls per worker thread [1, 1] *)
Definition ex_multi_cfg : cfgm := (mkcfgm [(1, []); (2, [(1)]); (1000, [(1); (2)])] [([(1); (2)], [(1); (2)]); ([(2)], [(2)]); ([(1)], [(1)]); ([(1000)], [(1000)])] 40%nat).
Definition ex_multi_sh : shared := (mkshared [(1, 101); (2, 102)] None).
Definition ex_multi_progs : list (list item) :=
  [[IGetPlugins [(1); (2)]; ICopyReg; IRegister 1000 5000; IRegRead 25 1000; IRegRead 26 1000; IRegRead 25 1; IRegRead 26 1; IGetPlugins [(1000)]; IKeyFor 1000; IKeyFor 1; IKeyFor 1; IKeyFor 2; IKeyFor 2; ICleanup; IEstimate [(1000)] 0%nat; IEndCall];
   [IGetPlugins [(1); (2)]; ICopyReg; IRegister 1000 5010; IRegRead 25 1000; IRegRead 26 1000; IRegRead 25 1; IRegRead 26 1; IGetPlugins [(1000)]; IKeyFor 1000; IKeyFor 1; IKeyFor 1; IKeyFor 2; IKeyFor 2; ICleanup; IEstimate [(1000)] 0%nat; IEndCall]].

(* ex_single: graph [('src', ()), ('aa', ('src',)), ('bb', ('aa',))], targets ('bb',), storage none, cold cache, calls per worker thread [1, 2] *)
Definition ex_single_cfg : cfgm := (mkcfgm [(1, []); (2, [(1)]); (3, [(2)])] [([(3)], [(3)]); ([(2)], [(2)]); ([(1)], [(1)])] 40%nat).
Definition ex_single_sh : shared := (mkshared [(1, 101); (2, 102); (3, 103)] None).
Definition ex_single_progs : list (list item) :=
  [[IRegRead 25 3; IRegRead 26 3; IRegRead 25 2; IRegRead 26 2; IRegRead 25 1; IRegRead 26 1; IGetPlugins [(3)]; IKeyFor 3; IKeyFor 2; IKeyFor 1; IKeyFor 1; IKeyFor 2; IKeyFor 3; ICleanup; IEstimate [(3)] 0%nat; IEndCall];
   [IRegRead 25 3; IRegRead 26 3; IRegRead 25 2; IRegRead 26 2; IRegRead 25 1; IRegRead 26 1; IGetPlugins [(3)]; IKeyFor 3; IKeyFor 2; IKeyFor 1; IKeyFor 1; IKeyFor 2; IKeyFor 3; ICleanup; IEstimate [(3)] 0%nat; IEndCall; IRegRead 25 3; IRegRead 26 3; IRegRead 25 2; IRegRead 26 2; IRegRead 25 1; IRegRead 26 1; IGetPlugins [(3)]; IKeyFor 3; IKeyFor 2; IKeyFor 1; IKeyFor 1; IKeyFor 2; IKeyFor 3; ICleanup; IEstimate [(3)] 0%nat; IEndCall]].

(* ex_three: graph [('src', ()), ('aa', ('src',)), ('bb', ('src',)), ('cc', ('aa', 'bb'))], targets ('aa', 'bb', 'cc'), storage meta, warm cache, calls per worker thread [1, 1, 1] *)
Definition ex_three_cfg : cfgm := (mkcfgm [(1, []); (2, [(1)]); (3, [(1)]); (4, [(2); (3)]); (1000, [(2); (3); (4)])] [([(2); (3); (4)], [(3); (4); (2)]); ([(4); (2); (1)], [(1); (4); (2)]); ([(4); (2)], [(4); (2)]); ([(2); (2); (3)], [(3); (2)]); ([(2)], [(2)]); ([(1)], [(1)]); ([(3)], [(3)]); ([(4)], [(4)]); ([(2); (3)], [(3); (2)]); ([(2); (1)], [(1); (2)]); ([(1000)], [(1000)])] 40%nat).
Definition ex_three_sh : shared := (mkshared [(1, 101); (2, 102); (3, 103); (4, 104)] (Some [(1); (3); (2); (4); (1000)])).
Definition ex_three_progs : list (list item) :=
  [[IGetPlugins [(2); (3); (4)]; ICopyReg; IRegister 1000 5000; IKeyFor 1000; IRegRead 25 1000; IRegRead 26 1000; IKeyFor 2; IRegRead 25 2; IRegRead 26 2; IKeyFor 1; IRegRead 25 1; IRegRead 26 1; IGetPlugins [(1000)]; IKeyFor 1000; IKeyFor 2; IKeyFor 1; IKeyFor 1; IKeyFor 2; IKeyFor 3; IKeyFor 3; IKeyFor 4; IKeyFor 4; ICleanup; IEstimate [(1000)] 1%nat; IEndCall];
   [IGetPlugins [(2); (3); (4)]; ICopyReg; IRegister 1000 5010; IKeyFor 1000; IRegRead 25 1000; IRegRead 26 1000; IKeyFor 2; IRegRead 25 2; IRegRead 26 2; IKeyFor 1; IRegRead 25 1; IRegRead 26 1; IGetPlugins [(1000)]; IKeyFor 1000; IKeyFor 2; IKeyFor 1; IKeyFor 1; IKeyFor 2; IKeyFor 3; IKeyFor 3; IKeyFor 4; IKeyFor 4; ICleanup; IEstimate [(1000)] 1%nat; IEndCall];
   [IGetPlugins [(2); (3); (4)]; ICopyReg; IRegister 1000 5020; IKeyFor 1000; IRegRead 25 1000; IRegRead 26 1000; IKeyFor 2; IRegRead 25 2; IRegRead 26 2; IKeyFor 1; IRegRead 25 1; IRegRead 26 1; IGetPlugins [(1000)]; IKeyFor 1000; IKeyFor 2; IKeyFor 1; IKeyFor 1; IKeyFor 2; IKeyFor 3; IKeyFor 3; IKeyFor 4; IKeyFor 4; ICleanup; IEstimate [(1000)] 1%nat; IEndCall]].

