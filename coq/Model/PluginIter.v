(* Model of strax.plugins.plugin.Plugin.iter (plugin.py, `iter`, `_fetch_chunk`, the time-range /
   superrun consistency checks of `do_compute`) and of ExhaustPlugin._fetch_chunk, for ordinary runs
   (allow_superrun = False), offline inputs (is_ready = True) and in-thread computation.

   A dependency is (data kind, finite list of chunks its iterator will yield).  Dependencies are
   listed in `depends_on` order; `iters` is assumed to be keyed in the same order (that is how the
   processors build it).  The model returns the compute calls made so far together with the final
   outcome (None = the generator finished normally, Some e = it raised error e after those calls).

   Executable definitions only (no proofs). *)
From SV Require Export Model.Rows Model.SplitArray Model.Chunk Model.SourceConstants.

Definition E_EMPTY_INPUT   : Z := 40.  (* ValueError: Cannot work with empty input buffer *)
Definition E_PREMATURE     : Z := 41.  (* RuntimeError: Tried to get data until .. ended prematurely *)
Definition E_TOO_MANY_PASSES : Z := 42.  (* RuntimeError: unable to get time-consistent inputs after ten passes *)
Definition E_NOT_EXHAUSTED : Z := 43.  (* RuntimeError: terminated without fetching last *)
Definition E_LEFTOVER      : Z := 44.  (* RuntimeError: terminated with leftover *)
Definition E_MERGE_KIND    : Z := 45.  (* ValueError: Cannot merge chunks .. of different data kinds *)
Definition E_MERGE_RUN     : Z := 46.  (* ValueError: Cannot merge chunks of different run_ids *)
Definition E_MERGE_LEN     : Z := 47.  (* ValueError: Cannot merge chunks with different number of items *)
Definition E_MERGE_RANGE   : Z := 48.  (* ValueError: Cannot merge chunks with different time ranges *)
Definition E_RANGES        : Z := 49.  (* ValueError: got inconsistent time ranges of inputs *)
Definition E_SUPERRUN      : Z := 50.  (* ValueError: Computing inputs' superruns or subrunses .. are different *)
Definition E_NO_DEPS       : Z := 51.  (* model only: a plugin without dependencies is outside the model *)
Definition E_ITER_FUEL     : Z := 98.  (* model only: excluded by the theorems *)

(* One dependency while iterating: its data kind, its input buffer (never None after the initial
   fetch) and the chunks its iterator has not yielded yet. *)
Record slot := mkslot { skind : Z; sbuf : chunk; siter : list chunk }.

(* One computation: the time range handed to compute and, per dependency (depends_on order), the
   chunk that went into the by-kind merge. *)
Record call := mkcall { call_start : Z; call_end : Z; call_inputs : list chunk }.

Definition dummy_chunk : chunk := mkchunk 0 0 [] 0 0 None 0.
Definition dummy_slot : slot := mkslot 0 dummy_chunk [].

(* ---- initial fetch of every dependency; "Cannot work with empty input buffer" ---- *)
Fixpoint init_slots (deps : list (Z * list chunk)) : res (list slot) :=
  match deps with
  | [] => Ok []
  | (k, []) :: _ => Err E_EMPTY_INPUT
  | (k, c :: it) :: rest => do ss <- init_slots rest; Ok (mkslot k c it :: ss)
  end.

(* pacemaker: `if buffer.end < _end` with _end = inf initially: smallest first end, first wins ties *)
Fixpoint choose_pm (ss : list slot) (i : nat) (best : option (nat * Z)) : option (nat * Z) :=
  match ss with
  | [] => best
  | s :: r =>
      let e := cend (sbuf s) in
      match best with
      | None => choose_pm r (S i) (Some (i, e))
      | Some (_, be) => if e <? be then choose_pm r (S i) (Some (i, e)) else choose_pm r (S i) best
      end
  end.

(* `while buffer.end < this_chunk_end: _fetch_chunk(d, check_end_not_before=this_chunk_end)` *)
Fixpoint fetch_until (buf : chunk) (it : list chunk) (tend : Z) {struct it} : res (chunk * list chunk) :=
  if cend buf <? tend then
    match it with
    | [] => Err E_PREMATURE
    | c :: it' => do b <- concatenate [Some buf; Some c] false; fetch_until b it' tend
    end
  else Ok (buf, it).

(* one dependency of the `for d in depends_on` loop: fetch (unless pacemaker), early split *)
Definition gather_one (is_pm : bool) (s : slot) (tce : Z) : res (chunk * slot) :=
  do bi <- (if is_pm then Ok (sbuf s, siter s) else fetch_until (sbuf s) (siter s) tce);
  do sp <- chunk_split (fst bi) tce true;
  Ok (fst sp, mkslot (skind s) (snd sp) (snd bi)).

Fixpoint gather (ss : list slot) (i pm : nat) (tce : Z) : res (list chunk * list slot) :=
  match ss with
  | [] => Ok ([], [])
  | s :: r =>
      do one <- gather_one (Nat.eqb i pm) s tce;
      do more <- gather r (S i) pm tce;
      Ok (fst one :: fst more, snd one :: snd more)
  end.

Fixpoint zminl (d : Z) (l : list Z) : Z :=
  match l with [] => d | x :: r => zminl (Z.min d x) r end.

(* len(set(l)) <= 1 *)
Definition all_equal (l : list Z) : bool :=
  match l with [] => true | x :: r => forallb (Z.eqb x) r end.

(* one pass of the re-trim loop over all dependencies *)
Fixpoint retrim_split (inps : list chunk) (ss : list slot) (t : Z) : res (list chunk * list slot) :=
  match inps, ss with
  | inp :: ir, s :: sr =>
      do sp <- chunk_split inp t true;
      do b <- concatenate [Some (snd sp); Some (sbuf s)] false;
      do more <- retrim_split ir sr t;
      Ok (fst sp :: fst more, mkslot (skind s) b (siter s) :: snd more)
  | _, _ => Ok ([], [])
  end.

(* `max_passes_left = N; while max_passes_left > 0: ...break... else: raise` *)
Fixpoint retrim (passes : nat) (tce : Z) (inps : list chunk) (ss : list slot) : res (list chunk * list slot) :=
  match passes with
  | O => Err E_TOO_MANY_PASSES
  | S p =>
      let ends := map cend inps in
      let tce' := zminl tce ends in
      if all_equal ends then Ok (inps, ss)
      else do r <- retrim_split inps ss tce'; retrim p tce' (fst r) (snd r)
  end.

(* ---- Chunk.merge: the acceptance checks, in the order the code performs them ---- *)
Definition merge_check (cs : list chunk) : res (Z * Z * option Z) :=
  match cs with
  | [] => Err E_NO_DEPS
  | [c] => Ok (cstart c, cend c, crun c)
  | c0 :: rest =>
      if negb (forallb (fun c => ckind c =? ckind c0) rest) then Err E_MERGE_KIND
      else if negb (forallb (fun c => opt_eqb (crun c) (crun c0)) rest) then Err E_MERGE_RUN
      else if negb (forallb (fun c => Nat.eqb (length (crows c)) (length (crows c0))) rest) then Err E_MERGE_LEN
      else if negb (forallb (fun c => (cstart c =? cstart c0) && (cend c =? cend c0)) rest) then Err E_MERGE_RANGE
      else Ok (cstart c0, cend c0, crun c0)
  end.

(* group_by_kind: kinds in order of first appearance *)
Fixpoint distinct_kinds (ks : list Z) (seen : list Z) : list Z :=
  match ks with
  | [] => []
  | k :: r => if existsb (Z.eqb k) seen then distinct_kinds r seen else k :: distinct_kinds r (k :: seen)
  end.

Fixpoint group_of (k : Z) (ss : list slot) (inps : list chunk) : list chunk :=
  match ss, inps with
  | s :: sr, c :: cr => if skind s =? k then c :: group_of k sr cr else group_of k sr cr
  | _, _ => []
  end.

Fixpoint merge_all (ks : list Z) (ss : list slot) (inps : list chunk) : res (list (Z * Z * option Z)) :=
  match ks with
  | [] => Ok []
  | k :: r => do m <- merge_check (group_of k ss inps); do ms <- merge_all r ss inps; Ok (m :: ms)
  end.

(* do_compute: time ranges of the merged inputs must agree (strictly so above SaveWhen.EXPLICIT;
   at or below it the code only warns, but the superrun annotations {run: (start, end)} of the
   inputs are then compared by _check_subruns_uniqueness and differ whenever the ranges differ) *)
Definition compute_check (sw : Z) (ms : list (Z * Z * option Z)) : res (Z * Z) :=
  match ms with
  | [] => Err E_NO_DEPS
  | (s, e, r) :: rest =>
      if forallb (fun m => (fst (fst m) =? s) && (snd (fst m) =? e)) rest then
        if forallb (fun m => opt_eqb (snd m) r) rest then Ok (s, e) else Err E_SUPERRUN
      else if sw <=? SAVEWHEN_EXPLICIT then Err E_SUPERRUN
      else Err E_RANGES
  end.

Definition max_passes : nat := Z.to_nat ITER_MAX_PASSES.

(* one iteration of the `for chunk_i` loop after the pacemaker has been fetched *)
Definition round_body (sw : Z) (pm : nat) (ss : list slot) : res (call * list slot) :=
  let tce := cend (sbuf (nth pm ss dummy_slot)) in
  do g <- gather ss 0 pm tce;
  do t <- retrim max_passes tce (fst g) (snd g);
  do ms <- merge_all (distinct_kinds (map skind ss) []) ss (fst t);
  do se <- compute_check sw ms;
  Ok (mkcall (fst se) (snd se) (fst t), snd t).

Fixpoint set_nth {A} (n : nat) (x : A) (l : list A) : list A :=
  match l, n with
  | [], _ => []
  | _ :: r, O => x :: r
  | y :: r, S m => y :: set_nth m x r
  end.

(* `if not self._fetch_chunk(pacemaker, iters): raise IterDone()`;  None = exhausted *)
Definition fetch_pm (pm : nat) (ss : list slot) : res (option (list slot)) :=
  let s := nth pm ss dummy_slot in
  match siter s with
  | [] => Ok None
  | c :: it => do b <- concatenate [Some (sbuf s); Some c] false;
               Ok (Some (set_nth pm (mkslot (skind s) b it) ss))
  end.

(* the IterDone epilogue: every source must be exhausted ... *)
Fixpoint drain (ss : list slot) : res unit :=
  match ss with
  | [] => Ok tt
  | s :: r =>
      match siter s with
      | [] => drain r
      | c :: _ => do b <- concatenate [Some (sbuf s); Some c] false; Err E_NOT_EXHAUSTED
      end
  end.

(* ... and, for plugins saved by default, no rows may be left in a buffer *)
Definition has_rows (c : chunk) : bool := match crows c with [] => false | _ => true end.
Definition saves_by_default (sw : Z) : bool := sw >? SAVEWHEN_EXPLICIT.
Definition leftover_check (sw : Z) (ss : list slot) : res unit :=
  if saves_by_default sw then
    if existsb (fun s => has_rows (sbuf s)) ss then Err E_LEFTOVER else Ok tt
  else Ok tt.

Definition epilogue (sw : Z) (ss : list slot) : option Z :=
  match drain ss with
  | Err e => Some e
  | Ok _ => match leftover_check sw ss with Err e => Some e | Ok _ => None end
  end.

(* the `for chunk_i in itertools.count()` loop; one unit of fuel per round *)
Fixpoint iter_loop (fuel : nat) (sw : Z) (pm : nat) (ss : list slot) : list call * option Z :=
  match fuel with
  | O => ([], Some E_ITER_FUEL)
  | S f =>
      match round_body sw pm ss with
      | Err e => ([], Some e)
      | Ok (c, ss2) =>
          match fetch_pm pm ss2 with
          | Err e => ([c], Some e)
          | Ok None => ([c], epilogue sw ss2)
          | Ok (Some ss3) => let r := iter_loop f sw pm ss3 in (c :: fst r, snd r)
          end
      end
  end.

(* Plugin.iter.  sw = max over the provided data types of int(save_when). *)
Definition plugin_iter (sw : Z) (deps : list (Z * list chunk)) : list call * option Z :=
  match init_slots deps with
  | Err e => ([], Some e)
  | Ok ss =>
      match choose_pm ss 0 None with
      | None => ([], Some E_NO_DEPS)
      | Some (pm, _) => iter_loop (S (length (siter (nth pm ss dummy_slot)))) sw pm ss
      end
  end.

(* ---- ExhaustPlugin: _fetch_chunk keeps fetching until the source is exhausted, so the initial
   fetch concatenates every dependency completely and later fetches find nothing ---- *)
Fixpoint concat_all (buf : chunk) (it : list chunk) : res chunk :=
  match it with
  | [] => Ok buf
  | c :: r => do b <- concatenate [Some buf; Some c] false; concat_all b r
  end.

Fixpoint exhaust_deps (deps : list (Z * list chunk)) : res (list (Z * list chunk)) :=
  match deps with
  | [] => Ok []
  | (k, []) :: _ => Err E_EMPTY_INPUT
  | (k, c :: it) :: rest => do b <- concat_all c it; do ds <- exhaust_deps rest; Ok ((k, [b]) :: ds)
  end.

Definition exhaust_iter (sw : Z) (deps : list (Z * list chunk)) : list call * option Z :=
  match exhaust_deps deps with
  | Err e => ([], Some e)
  | Ok ds => plugin_iter sw ds
  end.
