(* C01 -- chunk-stream semantics of a plugin graph (executable definitions only; proofs are in
   Proof/NetworkProof.v).

   Mirrors, on top of Model/Chunk.v (Chunk.__init__, split, concatenate) and Model/Rechunker.v:
     strax/plugins/plugin.py   Plugin.iter for one dependency (iter1), do_compute/_fix_output/chunk (out_chunk)
     strax/plugins/exhaust_plugin.py  ExhaustPlugin._fetch_chunk / do_compute (run_exhaust)
     strax/plugins/loop_plugin.py     LoopPlugin.compute with time_selection = fully_contained (h_loop)
     strax/plugins/down_chunking_plugin.py  (run_down: several sub-chunks per call)
     strax/context.py get_components: a data type that is stored is not computed, its stream is the loader's
     strax/storage/common.py Saver.save_from: what is written is rechunk_stream of the stream (rechunking on)
                             or the stream itself (off)
   A stream is the finite list of chunks one data type carries in one run.  Sources and loaders are
   "given" streams: arbitrary chunkings the model does not choose.

   For nodes with two dependencies the alignment performed by Plugin.iter (model of property C08) enters as
   a parameter `align2`: every function here that needs it takes it as an argument; the theorems assume
   its specification as a Section hypothesis, the extracted driver instantiates it with align_by_bounds
   (calls cut at the boundaries observed on the real run, validated by the constructor checks). *)
From SV Require Export Model.Chunk Model.Rechunker.

Definition E_EMPTY_INPUT : Z := 50.  (* ValueError: Cannot work with empty input buffer *)
Definition E_MERGE_LEN   : Z := 43.  (* ValueError: Cannot merge chunks with different number of items *)
Definition E_MERGE_RANGE : Z := 44.  (* ValueError: different time ranges *)
Definition E_NO_INPUT    : Z := 52.  (* model: a dependency has no stream (graph not topologically ordered) *)
Definition E_NOT_GIVEN   : Z := 53.  (* model: a source without a given stream *)
Definition E_BOUNDS      : Z := 54.  (* model: supplied call boundaries do not end at the end of the run *)

Definition stream := list chunk.

(* what do_compute / _fix_output / Plugin.chunk put on every output chunk of a data type *)
Record ometa := mkometa { o_dtype : Z; o_kind : Z; o_run : option Z; o_target : Z }.

Definition out_chunk (m : ometa) (s e : Z) (rows : list row) : res chunk :=
  mk_chunk s e rows (o_dtype m) (o_kind m) (o_run m) (o_target m).

Fixpoint map_res {A B} (f : A -> res B) (l : list A) : res (list B) :=
  match l with
  | [] => Ok []
  | x :: r => do y <- f x; do ys <- map_res f r; Ok (y :: ys)
  end.

(* ---------------------------------------------------------------------------------------------- *)
(* Plugin.iter with ONE dependency: per round  _fetch_chunk = concatenate [buffer; next],          *)
(* this_chunk_end = buffer.end, inputs = buffer.split(this_chunk_end, allow_early_split=True)       *)
(* ---------------------------------------------------------------------------------------------- *)
Fixpoint iter1 (buf : option chunk) (cs : list chunk) : res (list chunk) :=
  match cs with
  | [] => Ok []
  | c :: rest =>
      do b <- concatenate [buf; Some c] false;
      do '(inp, rem) <- chunk_split b (cend b) true;
      do more <- iter1 (Some rem) rest;
      Ok (inp :: more)
  end.

Definition iter_single (cs : stream) : res (list chunk) :=
  match cs with [] => Err E_EMPTY_INPUT | _ => iter1 None cs end.

(* one output chunk per do_compute call *)
Definition run_local (m : ometa) (h : list row -> list row) (cs : stream) : res stream :=
  do calls <- iter_single cs;
  map_res (fun c => out_chunk m (cstart c) (cend c) (h (crows c))) calls.

(* ExhaustPlugin: _fetch_chunk keeps concatenating until the source is exhausted, then one call *)
Fixpoint concat_all (buf : option chunk) (cs : list chunk) : res (option chunk) :=
  match cs with
  | [] => Ok buf
  | c :: rest => do b <- concatenate [buf; Some c] false; concat_all (Some b) rest
  end.

Definition run_exhaust (m : ometa) (f : list row -> list row) (cs : stream) : res stream :=
  do ob <- concat_all None cs;
  match ob with
  | None => Err E_EMPTY_INPUT
  | Some b =>
      do '(inp, _) <- chunk_split b (cend b) true;
      do c <- out_chunk m (cstart inp) (cend inp) (f (crows inp));
      Ok [c]
  end.

(* DownChunkingPlugin: compute yields several chunks per call; `cut` is the plugin's own rule that
   turns the computed rows of one call into (start, end, rows) pieces; strax only runs the Chunk
   constructor on each piece *)
Definition pieces := list (Z * Z * list row).
Definition run_down (m : ometa) (h : list row -> list row) (cut : Z -> Z -> list row -> pieces) (cs : stream) : res stream :=
  do calls <- iter_single cs;
  do outs <- map_res (fun c => map_res (fun p => out_chunk m (fst (fst p)) (snd (fst p)) (snd p))
                                       (cut (cstart c) (cend c) (h (crows c)))) calls;
  Ok (concat outs).

(* two dependencies: calls = pairs of equally ranged chunks; Chunk.merge's checks for same-kind inputs *)
Definition calls2 := list (chunk * chunk).

Definition run_pair (m : ometa) (same_kind : bool) (h : list row -> list row -> list row)
           (align2 : stream -> stream -> res calls2) (s1 s2 : stream) : res stream :=
  do calls <- align2 s1 s2;
  map_res (fun p : chunk * chunk =>
             let (c1, c2) := p in
             if same_kind && negb (Nat.eqb (length (crows c1)) (length (crows c2))) then Err E_MERGE_LEN
             else if negb ((cstart c1 =? cstart c2) && (cend c1 =? cend c2)) then Err E_MERGE_RANGE
             else out_chunk m (cstart c1) (cend c1) (h (crows c1) (crows c2))) calls.

(* executable alignment used by the driver: cut both (concatenated) inputs at the given call ends *)
Fixpoint split_many (c1 c2 : chunk) (bs : list Z) : res calls2 :=
  match bs with
  | [] => Err E_BOUNDS
  | [b] => if (b =? cend c1) && (b =? cend c2) then
             do '(a1, _) <- chunk_split c1 b true; do '(a2, _) <- chunk_split c2 b true; Ok [(a1, a2)]
           else Err E_BOUNDS
  | b :: rest =>
      do '(a1, r1) <- chunk_split c1 b false;
      do '(a2, r2) <- chunk_split c2 b false;
      do more <- split_many r1 r2 rest;
      Ok ((a1, a2) :: more)
  end.

Definition align_by_bounds (bs : list Z) (s1 s2 : stream) : res calls2 :=
  do o1 <- concat_all None s1;
  do o2 <- concat_all None s2;
  match o1, o2 with
  | Some c1, Some c2 => split_many c1 c2 bs
  | _, _ => Err E_EMPTY_INPUT
  end.

(* ---------------------------------------------------------------------------------------------- *)
(* The harness plugin library, mirrored one-to-one (harness/props/c01_plugins.py)                  *)
(* a row's value column is rch                                                                     *)
(* ---------------------------------------------------------------------------------------------- *)
Definition VMOD : Z := 1000003.

Definition set_val (r : row) (v : Z) : row := mkrow (rt r) (re r) (rid r) v.

(* f_rowwise with one value column: v := (a * v + b) mod M *)
Definition affine (a b : Z) (r : row) : row := set_val r ((a * rch r + b) mod VMOD).
Definition h_rowwise (a b : Z) (rows : list row) : list row := map (affine a b) rows.

(* f_filter: keep the rows whose new value is congruent to rem modulo md *)
Definition h_filter (a b md rem : Z) (rows : list row) : list row :=
  filter (fun r => (rch r) mod md =? rem) (map (affine a b) rows).

(* f_exhaust: v := (a * v + b + n * nmul + index) mod M with n the number of rows of the whole input *)
Fixpoint exh_from (i : Z) (a b k : Z) (rows : list row) : list row :=
  match rows with
  | [] => []
  | r :: rest => set_val r (((a * rch r + b) mod VMOD + k + i) mod VMOD) :: exh_from (i + 1) a b k rest
  end.
Definition f_exhaust (a b nmul : Z) (rows : list row) : list row :=
  exh_from 0 a b (Z.of_nat (length rows) * nmul) rows.

(* same-kind merge consumer: v := (a1 * v1 + a2 * v2 + b) mod M row by row *)
Fixpoint map2 {A B C} (f : A -> B -> C) (l1 : list A) (l2 : list B) : list C :=
  match l1, l2 with
  | x :: r1, y :: r2 => f x y :: map2 f r1 r2
  | _, _ => []
  end.
Definition merge_row (a1 a2 b : Z) (r1 r2 : row) : row :=
  set_val r1 (((a1 * rch r1) mod VMOD + a2 * rch r2 + b) mod VMOD).
Definition h_merge2 (a1 a2 b : Z) (rows1 rows2 : list row) : list row := map2 (merge_row a1 a2 b) rows1 rows2.
Definition h_merge2_filter (a1 a2 b md rem : Z) (rows1 rows2 : list row) : list row :=
  filter (fun r => (rch r) mod md =? rem) (h_merge2 a1 a2 b rows1 rows2).

(* LoopPlugin, fully_contained: a thing belongs to the first base row whose exclusive end lies beyond the
   thing's start, provided that base row holds it entirely (strax.processing.general._fc_in) *)
Fixpoint container_of (th : row) (i : nat) (base : list row) : option nat :=
  match base with
  | [] => None
  | b :: rest =>
      if re b >? rt th then (if (rt b <=? rt th) && (re th <=? re b) then Some i else None)
      else container_of th (S i) rest
  end.

Definition things_in (j : nat) (base things : list row) : list row :=
  filter (fun th => match container_of th 0 base with Some i => Nat.eqb i j | None => false end) things.

Fixpoint loop_from (j : nat) (a b : Z) (allbase base things : list row) : list row :=
  match base with
  | [] => []
  | bb :: rest =>
      let sel := things_in j allbase things in
      set_val bb ((a * rch bb + zsum (map rch sel) + b * Z.of_nat (length sel)) mod VMOD)
      :: loop_from (S j) a b allbase rest things
  end.
Definition h_loop (a b : Z) (base things : list row) : list row := loop_from 0 a b base base things.

(* the down-chunking rule of the harness plugin: a new piece starts at row i when at least k rows were
   collected, no earlier row reaches beyond rt(row i) and the previous row starts strictly earlier *)
Fixpoint down_from (k : nat) (s e : Z) (acc : list row) (mx prev : Z) (rows : list row) : pieces :=
  match rows with
  | [] => [(s, e, rev acc)]
  | r :: rest =>
      if (Nat.leb k (length acc)) && negb (Nat.eqb (length acc) 0) && (mx <=? rt r) && (prev <? rt r)
      then (s, rt r, rev acc) :: down_from k (rt r) e [r] (Z.max mx (re r)) (rt r) rest
      else down_from k s e (r :: acc) (Z.max mx (re r)) (rt r) rest
  end.
Definition down_cut (k : nat) (s e : Z) (rows : list row) : pieces := down_from k s e [] (-1) (-1) rows.

(* ---------------------------------------------------------------------------------------------- *)
(* graphs                                                                                           *)
(* ---------------------------------------------------------------------------------------------- *)
Inductive comp :=
| CSrc                                                         (* depends on nothing: the stream must be given *)
| CLocal (h : list row -> list row)                            (* row-wise / filter: one chunk per call *)
| CExhaust (f : list row -> list row)
| CDown (h : list row -> list row) (cut : Z -> Z -> list row -> pieces)
| CPair (same_kind : bool) (h : list row -> list row -> list row) (bounds : list Z)
   (* bounds: only read by the driver's align_by_bounds; the theorems use an abstract alignment *)
| COverlap (f : list row -> list row) (wtuple : bool) (wl wr sw : Z).
   (* OverlapWindowPlugin: user computation, get_window_size as tuple?, window, numeric save_when; its stream
      semantics is the parameter `ovl` of run_node_x (instantiated with C09's ow_iter in Model/NetworkIter.v) *)

Definition E_NO_OVERLAP : Z := 55.  (* model: an overlap-window node evaluated without an overlap semantics *)
Definition ovl_t := ometa -> (list row -> list row) -> bool -> Z -> Z -> Z -> stream -> res stream.
Definition no_ovl : ovl_t := fun _ _ _ _ _ _ _ => Err E_NO_OVERLAP.

Record node := mknode { n_id : Z; n_deps : list Z; n_comp : comp; n_meta : ometa }.
(* a multi-output plugin is one node per output with the same dependencies: every output is built from the
   same calls, so each output stream is the local computation of its own rows *)

Fixpoint lookup {A} (d : Z) (env : list (Z * A)) : option A :=
  match env with
  | [] => None
  | (k, v) :: rest => if k =? d then Some v else lookup d rest
  end.

Definition run_node_x (ovl : ovl_t) (align : list Z -> stream -> stream -> res calls2) (env : list (Z * stream)) (n : node) : res stream :=
  match n_comp n, n_deps n with
  | COverlap f wt wl wr sw, [d] =>
      match lookup d env with Some cs => ovl (n_meta n) f wt wl wr sw cs | None => Err E_NO_INPUT end
  | CSrc, _ => Err E_NOT_GIVEN
  | CLocal h, [d] => match lookup d env with Some cs => run_local (n_meta n) h cs | None => Err E_NO_INPUT end
  | CExhaust f, [d] => match lookup d env with Some cs => run_exhaust (n_meta n) f cs | None => Err E_NO_INPUT end
  | CDown h cut, [d] => match lookup d env with Some cs => run_down (n_meta n) h cut cs | None => Err E_NO_INPUT end
  | CPair sk h bs, [d1; d2] =>
      match lookup d1 env, lookup d2 env with
      | Some s1, Some s2 => run_pair (n_meta n) sk h (align bs) s1 s2
      | _, _ => Err E_NO_INPUT
      end
  | _, _ => Err E_NO_INPUT
  end.

Definition run_node := run_node_x no_ovl.

(* the stream every data type carries: given (source plugin or loader of a stored type) or computed *)
Fixpoint eval_graph_x (ovl : ovl_t) (align : list Z -> stream -> stream -> res calls2) (given : Z -> option stream)
         (env : list (Z * stream)) (g : list node) : res (list (Z * stream)) :=
  match g with
  | [] => Ok env
  | n :: rest =>
      do s <- match given (n_id n) with Some cs => Ok cs | None => run_node_x ovl align env n end;
      eval_graph_x ovl align given ((n_id n, s) :: env) rest
  end.
(* graphs without overlap-window nodes (the extracted driver) *)
Definition eval_graph := eval_graph_x no_ovl.

(* the oracle: every computation applied once to the whole, unchunked run *)
Definition whole_node (src : Z -> list row) (env : list (Z * list row)) (n : node) : list row :=
  match n_comp n, n_deps n with
  | CSrc, _ => src (n_id n)
  | CLocal h, [d] => h (match lookup d env with Some R => R | None => [] end)
  | CExhaust f, [d] => f (match lookup d env with Some R => R | None => [] end)
  | CDown h _, [d] => h (match lookup d env with Some R => R | None => [] end)
  | COverlap f _ _ _ _, [d] => f (match lookup d env with Some R => R | None => [] end)
  | CPair _ h _, [d1; d2] =>
      h (match lookup d1 env with Some R => R | None => [] end) (match lookup d2 env with Some R => R | None => [] end)
  | _, _ => []
  end.

Fixpoint eval_whole (src : Z -> list row) (env : list (Z * list row)) (g : list node) : list (Z * list row) :=
  match g with
  | [] => env
  | n :: rest => eval_whole src ((n_id n, whole_node src env n) :: env) rest
  end.

(* what a saver writes for a stream *)
Definition saved_stream (rechunk : bool) (cs : stream) : res stream :=
  if rechunk then rechunk_stream cs else Ok cs.
