"""Fail-closed translator: Python `ast` of a named strax function -> MiniPy term (Coq text).

Regenerates coq/Gen/<Name>.v from the working tree of lib.REPO on every run (called from
lib.ensure_build right after constants.regenerate()).  The mapping is purely syntactic: one MiniPy
constructor per Python node, no evaluation, no simplification.  Decorators, the docstring, type
annotations and default values of formals are dropped.  Anything outside the supported subset makes
the translator write NO file for that function (an existing one is deleted) and report drift; the
refinement proof Proof/Refine<Name>.v then fails to compile, which the checks report as a broken
proof obligation.

The only non-local checks (all of them reject, none rewrites):
  * the builtins the subset interprets (max, min, len, range, enumerate, zip) and the module names
    np / strax must not be rebound in the function or at module level (np must come from
    `import numpy as np`, strax from `import strax`);
  * `x[i] = e` is only allowed when MiniPy's value semantics (rebinding x to an updated copy)
    cannot be told apart from numpy's in-place update: x is a formal or every assignment to x is
    `np.zeros(...)`, x never occurs as a bare value except in `return x`, and x is not mentioned in
    the iterable of an enclosing loop;
  * `and` / `or` only in test position (MiniPy evaluates them to the truth value).
"""
import ast
import os

from harness import lib

GEN = os.path.join(lib.COQ, "Gen")

# (output module name, file relative to REPO, qualified function name, Coq identifier, owning properties)
KERNELS = [
    ("SplitArray", "strax/chunk.py", "split_array", "split_array_prog", "C07"),
    ("Diff", "strax/processing/general.py", "diff", "diff_prog", "C07,C17"),
    ("FindBreakI", "strax/processing/general.py", "_find_break_i", "find_break_i_prog", "C17"),
    ("FcIn", "strax/processing/general.py", "_fc_in", "fc_in_prog", "C17"),
    ("OverlapIndices", "strax/processing/general.py", "overlap_indices", "overlap_indices_prog", "C17"),
    ("TouchingWindows", "strax/processing/general.py", "_touching_windows", "touching_windows_prog", "C17"),
    ("RecordLinks", "strax/processing/pulse_processing.py", "record_links", "record_links_prog", "C18"),
]


def dependents(name, prop):
    """compiled files that must not survive when Gen/<name>.v cannot be produced"""
    out = ["Gen/%s" % name, "Proof/Refine%s" % name]
    for p in prop.split(","):
        out += ["Props/GenTie%s" % p, "Proof/Refine%s" % p, "Proof/Refine%sb" % p]
    return out + ["Props/GenTie"]


def _drop_compiled(stem):
    gone = False
    d, b = os.path.split(os.path.join(lib.COQ, stem))
    for f in (b + ".vo", b + ".vos", b + ".vok", b + ".glob", "." + b + ".aux"):
        q = os.path.join(d, f)
        if os.path.exists(q):
            os.remove(q)
            gone = True
    return gone

BUILTINS = ("max", "min", "len", "range", "enumerate", "zip")
_AST_INDEX = getattr(ast, "Index", ())  # python < 3.9 wraps subscripts in ast.Index


def _parse(rel):
    with open(os.path.join(lib.REPO, rel)) as f:
        return ast.parse(f.read())


class Unsupported(Exception):
    def __init__(self, node, why):
        self.lineno = getattr(node, "lineno", 0)
        self.why = why
        Exception.__init__(self, "line %s: %s" % (self.lineno, why))


def _s(x):
    """Coq string literal"""
    if not isinstance(x, str) or any(ord(c) < 32 or ord(c) > 126 for c in x):
        raise Unsupported(None, "non-printable name %r" % (x,))
    return '"%s"' % x.replace('"', '""')


def _z(n):
    return "(%d)" % n if n < 0 else "%d" % n


BINOPS = {ast.Add: "BAdd", ast.Sub: "BSub", ast.Mult: "BMul", ast.FloorDiv: "BFloorDiv", ast.Mod: "BMod"}
CMPOPS = {ast.Lt: "CLt", ast.LtE: "CLe", ast.Gt: "CGt", ast.GtE: "CGe", ast.Eq: "CEq", ast.NotEq: "CNe"}


def _is_name(n, ident):
    return isinstance(n, ast.Name) and n.id == ident


def _is_attr(n, mod, attr):
    return isinstance(n, ast.Attribute) and _is_name(n.value, mod) and n.attr == attr


def _int_const(n):
    return isinstance(n, ast.Constant) and isinstance(n.value, int) and not isinstance(n.value, bool)


def _plain_call(n, nargs):
    return len(n.args) == nargs and not n.keywords and not any(isinstance(a, ast.Starred) for a in n.args)


INT_DTYPES = ("int64", "int32")


def _is_int_dtype_kw(n):
    return (len(n.keywords) == 1 and n.keywords[0].arg == "dtype"
            and any(_is_attr(n.keywords[0].value, "np", d) for d in INT_DTYPES))


class Tr:
    def __init__(self, local_names=(), module_ints=None, module_bindings=None):
        self.loop_iters = []  # iterable expressions (ast) of the enclosing for loops
        self.local_names = set(local_names)   # formals and names assigned in the function
        self.module_ints = module_ints or {}  # module-level NAME = <int literal>, bound exactly once
        self.mb = module_bindings or {}

    # ------------------------------------------------------------------ expressions
    def expr(self, n, test=False):
        """test=True: n is in test position (if / while / assert test, operand of not/and/or there)"""
        if isinstance(n, ast.Constant):
            if isinstance(n.value, bool):
                return "(EBool %s)" % ("true" if n.value else "false")
            if isinstance(n.value, int):
                return "(EInt %s)" % _z(n.value)
            raise Unsupported(n, "constant %r" % (n.value,))
        if isinstance(n, ast.Name):
            if not isinstance(n.ctx, ast.Load):
                raise Unsupported(n, "name in non-load context")
            if n.id in BUILTINS or n.id in ("np", "strax"):
                raise Unsupported(n, "builtin/module %s used as a value" % n.id)
            if n.id not in self.local_names:
                # a global: only a module-level integer constant `NAME = <literal>` is accepted
                if n.id in self.module_ints:
                    return "(EInt %s)" % _z(self.module_ints[n.id])
                raise Unsupported(n, "global name %s is not a module-level integer literal" % n.id)
            return "(EVar %s)" % _s(n.id)
        if isinstance(n, ast.UnaryOp):
            if isinstance(n.op, ast.USub) and _int_const(n.operand):
                return "(EInt %s)" % _z(-n.operand.value)
            if isinstance(n.op, ast.Not):
                return "(ENot %s)" % self.expr(n.operand, test=True)
            if isinstance(n.op, ast.USub):
                return "(ENeg %s)" % self.expr(n.operand)
            raise Unsupported(n, "unary operator %s" % type(n.op).__name__)
        if isinstance(n, ast.BinOp):
            op = BINOPS.get(type(n.op))
            if op is None:
                raise Unsupported(n, "binary operator %s" % type(n.op).__name__)
            if isinstance(n.op, ast.Mult) and self._is_ones(n.left):
                # np.ones(k, dtype=np.int32) * c
                return "(EFull %s %s)" % (self.expr(n.left.args[0]), self.expr(n.right))
            return "(EBin %s %s %s)" % (op, self.expr(n.left), self.expr(n.right))
        if isinstance(n, ast.Compare):
            if len(n.ops) != 1 or len(n.comparators) != 1:
                raise Unsupported(n, "chained comparison")
            op = CMPOPS.get(type(n.ops[0]))
            if op is None:
                raise Unsupported(n, "comparison %s" % type(n.ops[0]).__name__)
            return "(ECmp %s %s %s)" % (op, self.expr(n.left), self.expr(n.comparators[0]))
        if isinstance(n, ast.BoolOp):
            if not test:
                raise Unsupported(n, "and/or outside test position")
            ctor = "EAnd" if isinstance(n.op, ast.And) else "EOr"
            vals = [self.expr(v, test=True) for v in n.values]
            out = vals[-1]
            for v in reversed(vals[:-1]):  # a and b and c = a and (b and c)
                out = "(%s %s %s)" % (ctor, v, out)
            return out
        if isinstance(n, ast.Call):
            f = n.func
            if (_is_name(f, "max") or _is_name(f, "min")) and _plain_call(n, 2):
                return "(%s %s %s)" % ("EMax" if f.id == "max" else "EMin", self.expr(n.args[0]), self.expr(n.args[1]))
            if _is_name(f, "len") and _plain_call(n, 1):
                return "(ELen %s)" % self.expr(n.args[0])
            if _is_attr(f, "strax", "endtime") and _plain_call(n, 1):
                return "(EEndtime %s)" % self.expr(n.args[0])
            if self._is_zeros(n):
                return "(EZeros %s)" % self.expr(n.args[0])
            if self._is_zeros2(n):
                return "(EZeros2 %s %s)" % (self.expr(n.args[0].elts[0]), self.expr(n.args[0].elts[1]))
            if isinstance(f, ast.Attribute) and f.attr == "max" and not n.args and not n.keywords:
                return "(EMaxOf %s)" % self.expr(f.value)
            if _is_name(f, "stable_argsort") and len(n.args) == 1 and not isinstance(n.args[0], ast.Starred) \
                    and len(n.keywords) == 1 and n.keywords[0].arg == "kind" \
                    and self.mb.get("stable_argsort") == ["from-import"] and "stable_argsort" not in self.local_names:
                return "(EArgsort %s %s)" % (self.expr(n.args[0]), self.expr(n.keywords[0].value))
            raise Unsupported(n, "call %s" % ast.dump(f)[:60])
        if isinstance(n, ast.Subscript):
            if not isinstance(n.ctx, ast.Load):
                raise Unsupported(n, "subscript in non-load context")
            sl = n.slice
            if isinstance(sl, _AST_INDEX):  # python < 3.9
                sl = sl.value
            if isinstance(sl, ast.Slice):
                if sl.step is not None:
                    raise Unsupported(n, "slice step")
                if sl.lower is None and sl.upper is not None:
                    return "(ESliceTo %s %s)" % (self.expr(n.value), self.expr(sl.upper))
                if sl.lower is not None and sl.upper is None:
                    return "(ESliceFrom %s %s)" % (self.expr(n.value), self.expr(sl.lower))
                raise Unsupported(n, "slice shape")
            if isinstance(sl, ast.Constant) and isinstance(sl.value, str):
                return "(EField %s %s)" % (self.expr(n.value), _s(sl.value))
            if isinstance(sl, ast.Tuple):
                raise Unsupported(n, "multi-dimensional index")
            return "(EIndex %s %s)" % (self.expr(n.value), self.expr(sl))
        raise Unsupported(n, "expression %s" % type(n).__name__)

    @staticmethod
    def _is_zeros(n):
        """np.zeros(<e>, dtype=np.int64 | np.int32), <e> not a tuple"""
        return (isinstance(n, ast.Call) and _is_attr(n.func, "np", "zeros") and len(n.args) == 1
                and not isinstance(n.args[0], (ast.Starred, ast.Tuple, ast.List)) and _is_int_dtype_kw(n))

    @staticmethod
    def _is_zeros2(n):
        """np.zeros((<e1>, <e2>), dtype=np.int64 | np.int32)"""
        return (isinstance(n, ast.Call) and _is_attr(n.func, "np", "zeros") and len(n.args) == 1
                and isinstance(n.args[0], ast.Tuple) and len(n.args[0].elts) == 2
                and not any(isinstance(e, ast.Starred) for e in n.args[0].elts) and _is_int_dtype_kw(n))

    @staticmethod
    def _is_ones(n):
        """np.ones(<e>, dtype=np.int64 | np.int32)"""
        return (isinstance(n, ast.Call) and _is_attr(n.func, "np", "ones") and len(n.args) == 1
                and not isinstance(n.args[0], (ast.Starred, ast.Tuple, ast.List)) and _is_int_dtype_kw(n))

    @classmethod
    def _is_fresh_array(cls, n):
        return (cls._is_zeros(n) or cls._is_zeros2(n)
                or (isinstance(n, ast.BinOp) and isinstance(n.op, ast.Mult) and cls._is_ones(n.left)))

    # ------------------------------------------------------------------ statements
    def block(self, stmts):
        if not stmts:
            return "SSkip"
        out = [self.stmt(s) for s in stmts]
        res = out[-1]
        for s in reversed(out[:-1]):
            res = "(SSeq %s\n %s)" % (s, res)
        return res

    def stmt(self, n):
        if isinstance(n, ast.Pass):
            return "SSkip"
        if isinstance(n, ast.Expr) and isinstance(n.value, ast.Call) and _is_name(n.value.func, "print") \
                and "print" not in self.local_names and "print" not in self.mb:
            for a in n.value.args:  # the arguments must still be expressions of the subset (no effects)
                if not (isinstance(a, ast.Constant) and isinstance(a.value, str)):
                    self.expr(a)
            if n.value.keywords:
                raise Unsupported(n, "print with keywords")
            return "SSkip"  # output is not modelled
        if isinstance(n, ast.Assign) and len(n.targets) > 1:
            # x = y = <literal>: the value is a constant, so the order of the assignments is immaterial
            if not all(isinstance(t, ast.Name) for t in n.targets) or not _int_const(n.value):
                raise Unsupported(n, "chained assignment of a non-literal / to a non-name")
            out = ["(SAssign %s %s)" % (_s(t.id), self.expr(n.value)) for t in n.targets]
            res = out[-1]
            for x in reversed(out[:-1]):
                res = "(SSeq %s\n %s)" % (x, res)
            return res
        if isinstance(n, ast.Assign):
            if len(n.targets) != 1 or getattr(n, "type_comment", None):
                raise Unsupported(n, "multiple assignment targets")
            t = n.targets[0]
            if isinstance(t, ast.Name):
                return "(SAssign %s %s)" % (_s(t.id), self.expr(n.value))
            if isinstance(t, ast.Subscript) and isinstance(t.value, ast.Name):
                sl = t.slice
                if isinstance(sl, _AST_INDEX):
                    sl = sl.value
                if isinstance(sl, ast.Slice) or (isinstance(sl, ast.Constant) and isinstance(sl.value, str)):
                    raise Unsupported(n, "assignment to a slice / field")
                for it in self.loop_iters:
                    if any(_is_name(m, t.value.id) for m in ast.walk(it)):
                        raise Unsupported(n, "write to an array that an enclosing loop iterates over")
                if isinstance(sl, ast.Tuple):
                    if len(sl.elts) != 2 or any(isinstance(e, (ast.Slice, ast.Starred)) for e in sl.elts):
                        raise Unsupported(n, "index shape")
                    return "(SSetIndex2 %s %s %s %s)" % (_s(t.value.id), self.expr(sl.elts[0]),
                                                         self.expr(sl.elts[1]), self.expr(n.value))
                return "(SSetIndex %s %s %s)" % (_s(t.value.id), self.expr(sl), self.expr(n.value))
            raise Unsupported(n, "assignment target %s" % type(t).__name__)
        if isinstance(n, ast.AugAssign):
            op = BINOPS.get(type(n.op))
            if op is None or not isinstance(n.target, ast.Name):
                raise Unsupported(n, "augmented assignment")
            return "(SAssign %s (EBin %s (EVar %s) %s))" % (_s(n.target.id), op, _s(n.target.id), self.expr(n.value))
        if isinstance(n, ast.If):
            return "(SIf %s\n %s\n %s)" % (self.expr(n.test, test=True), self.block(n.body), self.block(n.orelse))
        if isinstance(n, ast.For):
            if getattr(n, "type_comment", None):
                raise Unsupported(n, "type comment")
            it, iter_asts = self.iterable(n)
            self.loop_iters.append(ast.Tuple(elts=iter_asts, ctx=ast.Load()))
            body = self.block(n.body)
            self.loop_iters.pop()
            return "(SFor %s\n %s\n %s)" % (it, body, self.block(n.orelse))
        if isinstance(n, ast.While):
            if n.orelse:
                raise Unsupported(n, "while ... else")
            return "(SWhile %s\n %s)" % (self.expr(n.test, test=True), self.block(n.body))
        if isinstance(n, ast.Break):
            return "SBreak"
        if isinstance(n, ast.Continue):
            return "SContinue"
        if isinstance(n, ast.Return):
            if n.value is None:
                raise Unsupported(n, "bare return")
            return "(SReturn %s)" % self.ret_expr(n.value)
        if isinstance(n, ast.Raise):
            if n.cause is not None or n.exc is None:
                raise Unsupported(n, "raise form")
            e = n.exc
            if isinstance(e, ast.Call) and not e.keywords and (
                    not e.args or (len(e.args) == 1 and isinstance(e.args[0], ast.Constant)
                                   and isinstance(e.args[0].value, str))):
                e = e.func  # the message of the exception is dropped, its class is kept
            if isinstance(e, ast.Name):
                return "(SRaise %s)" % _s(e.id)
            raise Unsupported(n, "raise of a non-name")
        if isinstance(n, ast.Assert):
            if n.msg is not None:
                raise Unsupported(n, "assert with message")
            return "(SIf %s\n SSkip\n (SRaise %s))" % (self.expr(n.test, test=True), _s("AssertionError"))
        raise Unsupported(n, "statement %s" % type(n).__name__)

    def ret_expr(self, v):
        """a returned value: tuples (possibly nested) of expressions"""
        if isinstance(v, ast.Tuple):
            if any(isinstance(e, ast.Starred) for e in v.elts):
                raise Unsupported(v, "starred tuple")
            return "(ETuple [%s])" % "; ".join(self.ret_expr(e) for e in v.elts)
        return self.expr(v)

    def iterable(self, n):
        t, it = n.target, n.iter
        if isinstance(it, ast.Call) and _is_name(it.func, "enumerate") and _plain_call(it, 1) \
                and isinstance(t, ast.Tuple) and len(t.elts) == 2 and isinstance(t.elts[0], ast.Name):
            inner = it.args[0]
            if isinstance(t.elts[1], ast.Name):
                return "(IEnum %s %s %s)" % (_s(t.elts[0].id), _s(t.elts[1].id), self.expr(inner)), [inner]
            u = t.elts[1]
            if isinstance(u, ast.Tuple) and len(u.elts) == 2 and all(isinstance(e, ast.Name) for e in u.elts) \
                    and isinstance(inner, ast.Call) and _is_name(inner.func, "zip") and _plain_call(inner, 2):
                return "(IEnumZip %s %s %s %s %s)" % (
                    _s(t.elts[0].id), _s(u.elts[0].id), _s(u.elts[1].id),
                    self.expr(inner.args[0]), self.expr(inner.args[1])), list(inner.args)
        if isinstance(it, ast.Call) and _is_name(it.func, "range") and _plain_call(it, 1) and isinstance(t, ast.Name):
            return "(IRange %s %s)" % (_s(t.id), self.expr(it.args[0])), [it.args[0]]
        if isinstance(it, ast.Name) and isinstance(t, ast.Name):
            return "(IIn %s %s)" % (_s(t.id), self.expr(it)), [it]
        raise Unsupported(n, "for-loop form")


# ---------------------------------------------------------------------------------------------
# whole-function checks

def _bound_names(fn):
    names = set(a.arg for a in fn.args.args)
    for m in ast.walk(fn):
        if isinstance(m, ast.Name) and isinstance(m.ctx, (ast.Store, ast.Del)):
            names.add(m.id)
        elif isinstance(m, (ast.FunctionDef, ast.ClassDef, ast.AsyncFunctionDef)) and m is not fn:
            names.add(m.name)
        elif isinstance(m, (ast.Import, ast.ImportFrom)):
            for a in m.names:
                names.add((a.asname or a.name).split(".")[0])
        elif isinstance(m, (ast.Global, ast.Nonlocal)):
            names.update(m.names)
    return names


def _module_bindings(tree):
    """name -> how it is bound at module level ('import numpy as np', 'other')"""
    out = {}
    for m in tree.body:
        if isinstance(m, ast.Import):
            for a in m.names:
                key = (a.asname or a.name).split(".")[0]
                out.setdefault(key, []).append("import %s%s" % (a.name, " as %s" % a.asname if a.asname else ""))
        elif isinstance(m, ast.ImportFrom):
            for a in m.names:
                out.setdefault(a.asname or a.name, []).append("from-import")
        elif isinstance(m, (ast.FunctionDef, ast.ClassDef, ast.AsyncFunctionDef)):
            out.setdefault(m.name, []).append("def")
        else:
            for k in ast.walk(m):
                if isinstance(k, ast.Name) and isinstance(k.ctx, ast.Store):
                    out.setdefault(k.id, []).append("assign")
    return out


def _check_setindex_discipline(fn):
    params = set(a.arg for a in fn.args.args)
    written = set()
    for m in ast.walk(fn):
        if isinstance(m, ast.Assign):
            for tg in m.targets:
                if isinstance(tg, ast.Subscript) and isinstance(tg.value, ast.Name):
                    written.add(tg.value.id)
    if not written:
        return
    # allowed occurrences of a written array x: x[...] (load or store), len(x), `return x`, `x = np.zeros(..)`
    allowed = set()
    for m in ast.walk(fn):
        if isinstance(m, ast.Subscript) and isinstance(m.value, ast.Name) and not isinstance(m.slice, ast.Slice):
            allowed.add(id(m.value))
        elif isinstance(m, ast.Call) and _is_name(m.func, "len") and len(m.args) == 1 and isinstance(m.args[0], ast.Name):
            allowed.add(id(m.args[0]))
        elif isinstance(m, ast.Return) and isinstance(m.value, ast.Name):
            allowed.add(id(m.value))
        elif isinstance(m, ast.Return) and isinstance(m.value, ast.Tuple):
            for e in m.value.elts:  # returning the arrays ends the function: no alias can be observed
                if isinstance(e, ast.Name):
                    allowed.add(id(e))
        elif isinstance(m, ast.Assign) and len(m.targets) == 1 and isinstance(m.targets[0], ast.Name) \
                and m.targets[0].id in written:
            if not Tr._is_fresh_array(m.value):
                raise Unsupported(m, "array %s is written by index but assigned from something else than a fresh np.zeros / np.ones * c" % m.targets[0].id)
            allowed.add(id(m.targets[0]))
    for m in ast.walk(fn):
        if isinstance(m, ast.Name) and m.id in written and id(m) not in allowed:
            raise Unsupported(m, "array %s is written by index and also used as a bare value (aliasing)" % m.id)
    for x in written:
        if x not in params and not any(
                isinstance(m, ast.Assign) and _is_name(m.targets[0], x) for m in ast.walk(fn)):
            raise Unsupported(fn, "array %s is written by index but never created" % x)


def translate_function(tree, qual, ident):
    fn = lib._find_def(tree, qual)
    if fn is None or not isinstance(fn, ast.FunctionDef):
        raise Unsupported(None, "function %s not found" % qual)
    a = fn.args
    if a.vararg or a.kwarg or a.kwonlyargs or getattr(a, "posonlyargs", []):
        raise Unsupported(fn, "formal kinds")
    for d in list(a.defaults) + [d for d in a.kw_defaults if d is not None]:
        if not isinstance(d, ast.Constant):
            raise Unsupported(fn, "non-constant default")
    bound = _bound_names(fn)
    for b in BUILTINS + ("np", "strax", "numba"):
        if b in bound:
            raise Unsupported(fn, "%s is rebound inside the function" % b)
    mb = _module_bindings(tree)
    for b in BUILTINS:
        if b in mb:
            raise Unsupported(fn, "%s is rebound at module level" % b)
    for mod, how in (("np", "import numpy as np"), ("strax", "import strax")):
        if mod in mb and mb[mod] != [how]:
            raise Unsupported(fn, "%s is bound at module level by %s" % (mod, mb[mod]))
    for m in ast.walk(fn):
        if isinstance(m, (ast.Lambda, ast.FunctionDef, ast.AsyncFunctionDef, ast.ClassDef)) and m is not fn:
            raise Unsupported(m, "nested definition")
    _check_setindex_discipline(fn)
    body = list(fn.body)
    if body and isinstance(body[0], ast.Expr) and isinstance(body[0].value, ast.Constant) \
            and isinstance(body[0].value.value, str):
        body = body[1:]  # docstring
    params = "[%s]" % "; ".join(_s(x.arg) for x in a.args)
    module_ints = {}
    for m in tree.body:
        if isinstance(m, ast.Assign) and len(m.targets) == 1 and isinstance(m.targets[0], ast.Name) \
                and mb.get(m.targets[0].id) == ["assign"]:
            v = m.value
            if _int_const(v):
                module_ints[m.targets[0].id] = v.value
            elif isinstance(v, ast.UnaryOp) and isinstance(v.op, ast.USub) and _int_const(v.operand):
                module_ints[m.targets[0].id] = -v.operand.value
    term = Tr(local_names=bound, module_ints=module_ints, module_bindings=mb).block(body)
    return "Definition %s : func :=\n mkfunc %s %s\n %s." % (ident, _s(fn.name), params, term)


def render(name, rel, qual, ident, tree):
    body = translate_function(tree, qual, ident)
    return ("(* GENERATED by harness/translate.py from %s::%s in the working tree of the strax checkout,\n"
            "   on every check run. Do not edit. *)\n"
            "From Coq Require Import String.\n"
            "From SV Require Import Lang.MiniPy.\n"
            "Local Open Scope string_scope.\n\n%s\n" % (rel, qual, body))


def regenerate(kernels=None):
    """-> (changed, drift_list); drift entries are '<Name>: <reason>'"""
    os.makedirs(GEN, exist_ok=True)
    changed, drift = False, []
    trees = {}
    for name, rel, qual, ident, prop in kernels or KERNELS:
        out = os.path.join(GEN, name + ".v")
        try:
            if rel not in trees:
                trees[rel] = _parse(rel)
            txt = render(name, rel, qual, ident, trees[rel])
        except Exception as e:  # Unsupported, SyntaxError, OSError, ...
            drift.append("%s: %s: %s" % (name, type(e).__name__, e))
            if os.path.exists(out):
                os.remove(out)
                changed = True
            # fail closed: no stale compiled program / refinement proof may survive
            for stem in dependents(name, prop):
                changed = _drop_compiled(stem) or changed
            continue
        old = None
        if os.path.exists(out):
            with open(out) as f:
                old = f.read()
        if old != txt:
            with open(out, "w") as f:
                f.write(txt)
            changed = True
    return changed, drift


def drifted_kernels():
    """names of the kernels that currently do not translate (without touching the files)"""
    bad = {}
    for name, rel, qual, ident, _prop in KERNELS:
        try:
            render(name, rel, qual, ident, _parse(rel))
        except Exception as e:
            bad[name] = "%s: %s" % (type(e).__name__, e)
    return bad


if __name__ == "__main__":
    print(regenerate())
    for k in KERNELS:
        p = os.path.join(GEN, k[0] + ".v")
        if os.path.exists(p):
            print(open(p).read())
