"""Fail-closed ast extractor: regenerates coq/Model/SourceConstants.v from /repo on every run.

Each site is located by an AST pattern.  A site that no longer matches is *not* guessed at: drift is
reported, the last good value (from the previous SourceConstants.v, or the value at model-writing
time) is kept, and the dependent checks escalate their correspondence budget.
"""
import ast
import os
import re

from harness import lib

OUT = os.path.join(lib.COQ, "Model", "SourceConstants.v")

# value at model-writing time (used only when the site drifted and there is no previous file)
DEFAULTS = {
    "DEFAULT_CHUNK_SIZE_MB": 200,
    "DEFAULT_CHUNK_SPLIT_NS": 1000,
    "CHUNK_END_WINDOW": 500,
    "RECHUNK_SPLIT_OFFSET_DIV": 2,
    "GET_SPLITS_ARGMIN_INIT": 0,
    "SAVEWHEN_NEVER": 0,
    "SAVEWHEN_EXPLICIT": 1,
    "SAVEWHEN_TARGET": 2,
    "SAVEWHEN_ALWAYS": 3,
    "ITER_MAX_PASSES": 10,
    "MAILBOX_DEFAULT_MAX_MESSAGES": 4,
    "OVERLAP_MAX_TRIALS": 10,
}


def _parse(rel):
    return ast.parse(open(os.path.join(lib.REPO, rel)).read())


def _module_int(tree, name):
    for n in tree.body:
        if isinstance(n, ast.Assign) and len(n.targets) == 1 and isinstance(n.targets[0], ast.Name) \
                and n.targets[0].id == name and isinstance(n.value, ast.Constant) and isinstance(n.value.value, int):
            return n.value.value
    return None


def _class_int(tree, cls, name):
    c = lib._find_def(tree, cls)
    if c is None:
        return None
    for n in c.body:
        if isinstance(n, ast.Assign) and len(n.targets) == 1 and isinstance(n.targets[0], ast.Name) \
                and n.targets[0].id == name and isinstance(n.value, ast.Constant) and isinstance(n.value.value, int):
            return n.value.value
    return None


def _chunk_window(tree):
    """self.data[-N:] inside Chunk.__init__ -> N"""
    f = lib._find_def(tree, "Chunk.__init__")
    if f is None:
        return None
    found = []
    for n in ast.walk(f):
        if isinstance(n, ast.Subscript) and isinstance(n.slice, ast.Slice) and n.slice.upper is None \
                and isinstance(n.slice.lower, ast.UnaryOp) and isinstance(n.slice.lower.op, ast.USub) \
                and isinstance(n.slice.lower.operand, ast.Constant):
            found.append(n.slice.lower.operand.value)
    return found[0] if len(found) == 1 else None


def _split_offset_div(tree):
    """int(DEFAULT_CHUNK_SPLIT_NS // K) inside Rechunker.receive -> K"""
    f = lib._find_def(tree, "Rechunker.receive")
    if f is None:
        return None
    found = []
    for n in ast.walk(f):
        if isinstance(n, ast.BinOp) and isinstance(n.op, ast.FloorDiv) and isinstance(n.left, ast.Name) \
                and n.left.id == "DEFAULT_CHUNK_SPLIT_NS" and isinstance(n.right, ast.Constant):
            found.append(n.right.value)
    return found[0] if len(found) == 1 else None


def _int_const(node):
    if isinstance(node, ast.Constant) and isinstance(node.value, int) and not isinstance(node.value, bool):
        return node.value
    if isinstance(node, ast.UnaryOp) and isinstance(node.op, ast.USub):
        v = _int_const(node.operand)
        return None if v is None else -v
    return None


def _argmin_init(tree):
    f = lib._find_def(tree, "Rechunker.get_splits")
    if f is None:
        return None
    for n in f.body:
        if isinstance(n, ast.Assign) and isinstance(n.targets[0], ast.Name) and n.targets[0].id == "argmin":
            return _int_const(n.value)
    return None


def _max_passes(tree):
    f = lib._find_def(tree, "Plugin.iter")
    if f is None:
        return None
    found = []
    for n in ast.walk(f):
        if isinstance(n, ast.Assign) and isinstance(n.targets[0], ast.Name) and n.targets[0].id == "max_passes_left" \
                and isinstance(n.value, ast.Constant):
            found.append(n.value.value)
    return found[0] if len(found) == 1 else None


def extract():
    vals, drift = {}, []

    def put(name, v):
        if isinstance(v, int) and not isinstance(v, bool):
            vals[name] = v
        else:
            drift.append(name)

    try:
        t = _parse("strax/chunk.py")
        put("DEFAULT_CHUNK_SIZE_MB", _module_int(t, "DEFAULT_CHUNK_SIZE_MB"))
        put("DEFAULT_CHUNK_SPLIT_NS", _module_int(t, "DEFAULT_CHUNK_SPLIT_NS"))
        put("CHUNK_END_WINDOW", _chunk_window(t))
        put("RECHUNK_SPLIT_OFFSET_DIV", _split_offset_div(t))
        put("GET_SPLITS_ARGMIN_INIT", _argmin_init(t))
    except Exception as e:  # syntax error etc.
        drift.append("strax/chunk.py:%s" % type(e).__name__)
    try:
        t = _parse("strax/plugins/plugin.py")
        for k in ("NEVER", "EXPLICIT", "TARGET", "ALWAYS"):
            put("SAVEWHEN_" + k, _class_int(t, "SaveWhen", k))
        put("ITER_MAX_PASSES", _max_passes(t))
    except Exception as e:
        drift.append("strax/plugins/plugin.py:%s" % type(e).__name__)
    try:
        t = _parse("strax/mailbox.py")
        put("MAILBOX_DEFAULT_MAX_MESSAGES", _class_int(t, "Mailbox", "DEFAULT_MAX_MESSAGES"))
    except Exception as e:
        drift.append("strax/mailbox.py:%s" % type(e).__name__)
    try:
        t = _parse("strax/plugins/overlap_window_plugin.py")
        put("OVERLAP_MAX_TRIALS", _class_int(t, "OverlapWindowPlugin", "max_trials"))
    except Exception as e:
        drift.append("strax/plugins/overlap_window_plugin.py:%s" % type(e).__name__)
    return vals, drift


def _previous():
    prev = {}
    if os.path.exists(OUT):
        for m in re.finditer(r"Definition (\w+) : Z := \(?(-?\d+)\)?\.", open(OUT).read()):
            prev[m.group(1)] = int(m.group(2))
    return prev


def render(vals):
    lines = ["(* GENERATED by harness/constants.py from /repo's working tree on every check run. Do not edit. *)",
             "From Coq Require Import ZArith.", "Open Scope Z_scope.", ""]
    for k in sorted(vals):
        v = vals[k]
        lines.append("Definition %s : Z := %s." % (k, "(%d)" % v if v < 0 else str(v)))
    return "\n".join(lines) + "\n"


def regenerate():
    vals, drift = extract()
    prev = _previous()
    for k in DEFAULTS:
        if k not in vals:
            vals[k] = prev.get(k, DEFAULTS[k])
    txt = render(vals)
    old = open(OUT).read() if os.path.exists(OUT) else None
    if old != txt:
        with open(OUT, "w") as f:
            f.write(txt)
        return True, drift
    return False, drift


if __name__ == "__main__":
    print(regenerate())
    print(open(OUT).read())
