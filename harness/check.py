"""Entry point: check <Cxx> [--tier quick|thorough] [--replay file]   (DESIGN.md section 2.2)"""
import argparse
import importlib
import json
import os
import sys
import traceback

sys.path.insert(0, os.path.dirname(os.path.dirname(os.path.abspath(__file__))))
from harness import lib  # noqa: E402


def main():
    ap = argparse.ArgumentParser()
    ap.add_argument("prop")
    ap.add_argument("--tier", default=os.environ.get("VERIF_TIER", "quick"))
    ap.add_argument("--replay", default=None)
    a = ap.parse_args()
    prop = a.prop.upper()
    seed = int(os.environ.get("VERIF_SEED", "0") or 0)
    tier = a.tier if a.tier in ("quick", "thorough") else "quick"
    ctx = lib.Ctx(prop, tier, seed)
    mod = importlib.import_module("harness.props.%s" % prop.lower())

    if a.replay:
        obj = json.load(open(a.replay))
        rc = mod.replay(ctx, obj)
        sys.exit(rc)

    # 1. regenerate + rebuild
    deps = getattr(mod, "MODEL_PROPS", [prop])
    ctx.build = lib.ensure_build(props=deps)
    bad_h = lib.hygiene()
    # 2. proof accounting
    ctx.acc = lib.proof_accounting(prop, ctx.build)
    # 3. anchor drift
    ctx.drift = lib.anchor_drift(prop)
    broken = []
    if ctx.acc["discharged"] != ctx.acc["obligations"] or ctx.acc["obligations"] == 0:
        broken.append("theorems of Props/%s.v no longer check (failed files: %s)" % (prop, ctx.build.failed_files))
    if ctx.acc["bad_axioms"]:
        broken.append("non-allowed axioms: %s" % ctx.acc["bad_axioms"])
    if bad_h:
        broken.append("hygiene gate: %s" % bad_h[:5])
    driver_ok = os.path.exists(lib.model_bin(deps[0])) if deps else True
    if not driver_ok:
        broken.append("extracted model driver for %s did not build" % prop)
    # regenerated-from-source tie (design_notes/GenTie.md): refinement proofs of the translated kernels
    from harness import gentie
    _gt = gentie.obligations(prop, ctx.build)
    broken += ["GenTie %s: %s" % (n, d) for n, ok, d in _gt if not ok]
    if _gt:
        ctx.coverage["gentie"] = [list(o) for o in _gt]
    ctx.broken_obligations = broken
    # 4./5. correspondence + search
    try:
        mod.run(ctx)
    except Exception:
        tb = traceback.format_exc()
        ctx.notes.append("harness exception: " + tb[-3000:])
        last = tb.strip().splitlines()[-1] if tb.strip() else ""
        sys.stderr.write(tb)
        ctx.violation("harness", "the correspondence harness crashed: " + last + " || " + tb[-500:],
                      {"input": "corr:%s/harness-crash" % prop, "traceback": tb[-3000:]}, no_failing_input=True)
    if broken and not ctx.violations:
        # a proof obligation broke and the search found no failing input on the real code
        ctx.violation("proof", "; ".join(broken),
                      {"input": "theorem:Props/%s.v" % prop, "broken": broken,
                       "build_log_tail": ctx.build.log[-3000:]}, no_failing_input=True)
    sys.exit(lib.finish(ctx, level=getattr(mod, "LEVEL", "proof")))


if __name__ == "__main__":
    main()
