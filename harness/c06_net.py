"""C06, threaded part: the real strax.ThreadedMailboxProcessor under the controlled scheduler, and the
derivation of the Coq network (coq/Model/MailboxFail.v) from the wiring the real processor built.

Two systems:

NetSystem      the processor wired from a hand-made strax.ProcessorComponents: the plugins are stand-ins
               whose `iter` fetches one chunk from every dependency in turn and yields one chunk (the fetch order
               of strax.Plugin.iter for equally chunked inputs); loaders are plain generators; savers are
               subclasses of strax.Saver keeping their chunks in memory, so the real Saver.save_from / close run;
               messages are real strax.Chunk objects.  The caller drives ThreadedMailboxProcessor.iter() directly.
ContextSystem  a real strax.Context with real strax.Plugin subclasses and a real DataDirectory; the caller
               iterates Context.get_iter(..., processor=<ThreadedMailboxProcessor>) (the relay of context.py).

A *case* (JSON-able dict):
  {"N": chunks per source, "cap": max_messages, "lazy": allow_lazy, "relay": False (NetSystem) / True (ContextSystem),
   "nodes": [{"name": "a", "kind": "source"|"loader"|"plugin"|"multi", "deps": [...], "provides": [...]}],
   "savers": {"a": 1, ...}        number of savers per data type (ContextSystem: 0 / 1)
   "rechunk": ["a", ...]          data types whose savers rechunk (everything is saved by the final flush)
   "target": "x",
   "fault": {"node": "b", "pos": k} | {"saver": ["a", 0], "pos": k} | None,
   "cfault": {"chunk": k, "close": bool} | None}
"""
import functools
import logging
import os

import numpy as np
import strax
import strax.mailbox

BIG_TIMEOUT = 10 ** 9       # real timeouts never fire; deadlocks are detected by the scheduler
CODE = {"runnable": 0, "blocked": 1, "done": 2, "dead": 3, "new": 1}

C_CLOSED, C_OUTSIDE, C_TYPEERR, C_MISMATCH, C_STOPITER, C_GENEXIT = 2, 3, 4, 5, 6, 7
C_CONSUMER, C_BOOM = 9, 11


class Boom(Exception):
    """the injected failure"""


class ConsumerError(Exception):
    """raised by the consumer into the iterator"""


class Mismatch(Exception):
    pass


_DTYPE = np.dtype(strax.time_fields)
_CHUNKS = {}


def mk_chunk(name, k):
    key = (name, k)
    c = _CHUNKS.get(key)
    if c is None:
        data = np.zeros(1, dtype=_DTYPE)
        data["time"] = 10 * k
        data["endtime"] = 10 * k + 1
        c = strax.Chunk(start=10 * k, end=10 * (k + 1), data=data, data_type=name, data_kind=name,
                        dtype=_DTYPE, run_id="0", target_size_mb=1)
        _CHUNKS[key] = c
    return c


def chunk_index(c):
    return int(c.start) // 10


# ---------------------------------------------------------------------------------------------
# recording which generator is which (mailbox, subscriber index)
# ---------------------------------------------------------------------------------------------
_SUBLOG = {}
_orig_subscribe = strax.Mailbox.subscribe


def _subscribe(self, can_drive=True):
    i = len(self._subscribers_have_read)
    g = _orig_subscribe(self, can_drive=can_drive)
    _SUBLOG[id(g)] = (self, i, g)
    return g


def install_subscribe_recorder():
    if strax.Mailbox.subscribe is not _subscribe:
        strax.Mailbox.subscribe = _subscribe


# ---------------------------------------------------------------------------------------------
# stand-in plugins, loaders, savers
# ---------------------------------------------------------------------------------------------
class DuckPlugin:
    parallel = False
    multi_output = False
    max_messages = None

    def __init__(self, name, depends_on, provides, n_src, fault_pos, system, rechunk=()):
        self.name = name
        self.depends_on = tuple(depends_on)
        self.provides = tuple(provides)
        self.n_src = n_src
        self.fault_pos = fault_pos
        self.system = system
        self._rechunk = set(rechunk)

    def can_rechunk(self, d):
        return d in self._rechunk

    def _out(self, k):
        if self.multi_output:
            return {d: mk_chunk(d, k) for d in self.provides}
        return mk_chunk(self.provides[0], k)

    def iter(self, iters, executor=None):
        k = 0
        deps = self.depends_on
        while True:
            if deps:
                nstop = 0
                first = None
                for i, d in enumerate(deps):
                    try:
                        x = next(iters[d])
                        if i == 0:
                            first = x
                    except StopIteration:
                        nstop += 1
                if nstop == len(deps):
                    if k == self.fault_pos:
                        raise self.system.boom("plugin %s at its end" % self.name)
                    return
                if nstop:
                    raise Mismatch("inputs of %s ended at different chunks" % self.name)
                idx = chunk_index(first)
            else:
                if k >= self.n_src:
                    if k == self.fault_pos:
                        raise self.system.boom("source %s at its end" % self.name)
                    return
                idx = k
            if k == self.fault_pos:
                raise self.system.boom("plugin %s at chunk %d" % (self.name, k))
            yield self._out(idx)
            k += 1


def make_loader(name, n, fault_pos, system):
    def loader(executor=None):
        for k in range(n + 1):
            if k == fault_pos:
                raise system.boom("loader %s at %d" % (name, k))
            if k < n:
                yield mk_chunk(name, k)
    return loader


class MemSaver(strax.Saver):
    def __init__(self, name, fault_pos, system, fail_always=False):
        super().__init__(metadata=dict(run_id="0", data_type=name))
        self.name = name
        self.fault_pos = fault_pos
        self.fail_always = fail_always
        self.system = system

    def _save_chunk(self, data, chunk_info, executor=None):
        if self.fail_always or chunk_info["chunk_i"] == self.fault_pos:
            raise self.system.boom("saver of %s at chunk %d" % (self.name, chunk_info["chunk_i"]))
        return dict(), None

    def _save_chunk_metadata(self, chunk_info):
        self.md["chunks"].append(chunk_info)

    def _close(self):
        pass


def _saver_of(target):
    if isinstance(target, functools.partial) and getattr(target.func, "__name__", "") == "save_from":
        return target.func.__self__
    return None


# ---------------------------------------------------------------------------------------------
# the system under the controlled scheduler
# ---------------------------------------------------------------------------------------------
class BaseSystem:
    """Common part: the caller's thread, warm-up, observation, derivation of the Coq network."""

    def __init__(self, sched, case):
        self.sched, self.case = sched, case
        logging.disable(logging.CRITICAL)
        install_subscribe_recorder()
        _SUBLOG.clear()
        sched.patch(strax.mailbox)
        self.boom_exc = None
        self.consumer_exc = None
        self.result = None
        self.rows = []
        self.proc = None
        # which variant of the exception plumbing the model mirrors: (1, 1, 1) = the repaired code
        # (F1-F3, design_notes/C06.md); C06_PINNED=1 selects the code before the repairs (debugging aid)
        self.fixes = (0, 0, 0) if os.environ.get("C06_PINNED") == "1" else tuple(case.get("fixes", (1, 1, 1)))

    def boom(self, what):
        if self.boom_exc is None:
            self.boom_exc = Boom(what)
        return self.boom_exc

    def capture_threads(self):
        for t in self.sched.threads:
            if hasattr(t, "_c06_target"):
                continue
            t._c06_target, t._c06_args = t._target, t._args
            t._c06_locals = {}
            if getattr(t._target, "__name__", "") == "_send_from":
                gen = t._args[0]
                t._c06_locals = dict(gen.gi_frame.f_locals) if gen.gi_frame is not None else {}

    def proc_threads(self):
        return [t for t in self.sched.threads if t is not self.caller]

    # ----- the caller
    def run_caller(self):
        cf = self.case.get("cfault")
        try:
            gen = self.make_iterator()
            k = 0
            while True:
                try:
                    x = next(gen)
                except StopIteration:
                    break
                if cf and k == cf["chunk"] and (cf["close"] or not self.case.get("relay")):
                    if cf["close"]:
                        gen.close()
                        self.result = ("closed", None)
                        return
                    self.consumer_exc = ConsumerError("consumer at chunk %d" % k)
                    gen.throw(self.consumer_exc)
                    self.result = ("swallowed", None)
                    return
                self.rows.append(chunk_index(x))
                k += 1
            self.result = ("ok", None)
        except BaseException as e:      # noqa: whatever reaches the caller is the observation
            if type(e).__name__ == "SchedAbort":
                raise
            self.result = ("err", e)

    def warmup(self):
        s = self.sched
        # the caller: (build the processor,) subscribe to the target, start the threads, reach the lock of _read
        guard = 0
        while self.proc is None or len(s.threads) < 2 or any(t.state == "new" for t in s.threads):
            s.step(self.main_tid)
            self.capture_threads()
            guard += 1
            if guard > 50:
                raise RuntimeError("warm-up of the caller does not converge")
        # every other thread up to its first yield point (thread-local code only)
        todo = iter([t.tid for t in self.proc_threads()])
        s.run_driver(lambda sc: next(todo, None))
        del s.schedule[:]
        self.mbs = list(self.proc.mailboxes.values())
        self._net = derive_net(self)

    # ----- observation (same layout as Model/C06Run.v: nobs)
    def observe(self):
        s = self.sched
        o = []
        for t in s.threads:
            st = s.status(t.tid)
            if t is self.caller:
                o.append(2 if st in ("done", "dead") else CODE[st])
            else:
                o.append(CODE[st])
        for m in self.mbs:
            o += [len(m._mailbox), int(m.closed), int(m.killed), int(m.force_killed)]
        o.append(len(self.rows))
        for sv in self.savers_in_thread_order():
            o += [int(sv.closed), int("exception" in sv.md), self.exc_code(sv.got_exception),
                  sum(ci["n"] for ci in sv.md["chunks"])]
        return " ".join(map(str, o))

    def savers_in_thread_order(self):
        if not hasattr(self, "_sto"):
            self._sto = [sv for sv in (_saver_of(t._c06_target) for t in self.proc_threads()) if sv is not None]
        return self._sto

    def exc_code(self, e):
        if e is None:
            return 0
        if e is self.boom_exc:
            return C_BOOM
        if e is self.consumer_exc:
            return C_CONSUMER
        if isinstance(e, strax.MailboxKilled):
            return 2000 + self.exc_code(e.args[0][1] if isinstance(e.args[0], tuple) else None)
        name = type(e).__name__
        if name == "OutsideException":
            return C_OUTSIDE
        if isinstance(e, TypeError):
            return C_TYPEERR
        if isinstance(e, strax.MailBoxAlreadyClosed):
            return C_CLOSED
        if isinstance(e, Mismatch):
            return C_MISMATCH
        if isinstance(e, GeneratorExit):
            return C_GENEXIT
        if isinstance(e, (StopIteration,)) or (isinstance(e, RuntimeError) and "StopIteration" in str(e)):
            return C_STOPITER
        if isinstance(e, Boom):
            return 900          # a Boom that is not the injected object (copy / re-creation)
        return 999

    def outcome_code(self):
        """-1 no result; 0 Ok; 1000 + c the caller got exception c (see Model/C06Run.v: outcome_code)"""
        if self.result is None:
            return -1
        kind, e = self.result
        if kind == "closed":
            return 1000 + C_GENEXIT      # close() returned: the generator re-raised GeneratorExit
        if kind == "err":
            c = self.exc_code(e)
            return c if c >= 2000 else 1000 + c
        return 0

    def saver_state(self, sv):
        return {"name": sv.md.get("data_type"), "closed": bool(sv.closed), "exception": "exception" in sv.md,
                "got": self.exc_code(sv.got_exception), "rows": sum(ci["n"] for ci in sv.md["chunks"])}

    def final_info(self):
        s = self.sched
        res = self.result
        return {
            "status": [s.status(t) for t in range(len(s.threads))],
            "names": [t.name for t in s.threads],
            "thread_exc": [type(t.exc).__name__ if t.exc is not None else None for t in s.threads],
            "result": None if res is None else [res[0], None if res[1] is None else
                                                 "%s: %s" % (type(res[1]).__name__, res[1])],
            "outcome_code": self.outcome_code(),
            "original": (res is not None and res[0] == "err"
                         and (res[1] is self.boom_exc or res[1] is self.consumer_exc)),
            "fired": self.boom_exc is not None,
            "consumer_fired": self.consumer_exc is not None,
            "rows": list(self.rows),
            "savers": [self.saver_state(sv) for sv in self.savers_in_thread_order()],
            "killed": [bool(m.killed) for m in self.mbs],
            "force_killed": [bool(m.force_killed) for m in self.mbs],
        }

    def model_net(self):
        """tokens of <network> of driver/c06_main.ml, derived from the wiring of the real processor"""
        return self._net

    def fault_thread_name(self):
        """name (as given by ThreadedMailboxProcessor) of the thread the injected failure sits in"""
        fault = self.case.get("fault")
        if not fault:
            return None
        if "saver" in fault:
            return "save_%d:%s" % (fault["saver"][1], self.dtype_name(fault["saver"][0]))
        for nd in self.case["nodes"]:
            if nd["name"] == fault["node"]:
                if nd["kind"] == "loader":
                    return "load:" + self.dtype_name(nd["name"])
                if nd["kind"] == "multi":
                    return "divide_outputs:"
                return "build:" + self.dtype_name(nd["name"])
        raise RuntimeError("unknown fault node %r" % (fault,))

    def dtype_name(self, d):
        return d


class NetSystem(BaseSystem):
    """The processor from hand-made components; thread ids: the processor's threads in creation order, then
    the caller."""

    def __init__(self, sched, case):
        super().__init__(sched, case)
        self.proc = self.build_processor()
        self.capture_threads()
        self.caller = sched.threading.Thread(target=self.run_caller, name="caller")
        self.main_tid = self.caller.tid
        self.caller.start()
        self.capture_threads()
        self.warmup()

    def build_processor(self):
        case = self.case
        n = case["N"]
        fault = case.get("fault") or {}
        plugins, loaders, savers = {}, {}, {}
        rechunk = set(case.get("rechunk", ()))
        for nd in case["nodes"]:
            name, kind = nd["name"], nd["kind"]
            fpos = fault["pos"] if fault.get("node") == name else None
            if kind == "loader":
                loaders[name] = make_loader(name, n, fpos, self)
                continue
            provides = nd.get("provides") or [name]
            cls = DuckPlugin
            if kind == "multi":
                cls = type("Multi_" + name, (DuckPlugin,), {"multi_output": True})
            p = cls(name, nd.get("deps", ()), provides, n, fpos, self, rechunk=rechunk)
            for d in provides:
                if d not in loaders:
                    plugins[d] = p
        for d, cnt in case.get("savers", {}).items():
            lst = []
            for i in range(cnt):
                fs = fault.get("saver")
                mine = fs is not None and fs[0] == d and fs[1] == i
                fpos = fault["pos"] if mine else None
                lst.append(MemSaver(d, fpos, self, fail_always=bool(mine and d in rechunk)))
            savers[d] = lst
        comps = strax.ProcessorComponents(plugins=plugins, loaders=loaders, loader_plugins={}, savers=savers,
                                          targets=(case["target"],))
        self.comps = comps
        return strax.ThreadedMailboxProcessor(comps, allow_rechunk=True, allow_lazy=bool(case["lazy"]),
                                              max_workers=case.get("max_workers"), max_messages=case["cap"],
                                              timeout=BIG_TIMEOUT)

    def make_iterator(self):
        return self.proc.iter()


def derive_net(system):
    """Build the model's network description from the real processor's mailboxes and threads.  Called after
    the caller subscribed to the target (warm-up); thread targets / arguments / generator locals were captured
    before the threads ran."""
    proc, sched, case = system.proc, system.sched, system.case
    mbs = list(proc.mailboxes.values())
    mb_index = {id(m): i for i, m in enumerate(mbs)}
    toks = [len(mbs)]
    for m in mbs:
        cap = m.max_messages
        toks += [int(cap) if cap != float("inf") else 10 ** 6, int(bool(m.lazy)), len(m._subscriber_can_drive)]
        toks += [int(bool(d)) for d in m._subscriber_can_drive]
    threads = sched.threads
    n = case["N"]

    def sub_of(gen):
        mb, i, _ = _SUBLOG[id(gen)]
        return mb_index[id(mb)], i

    ttoks = []
    tid_of_saver = {}
    target_mb = proc.mailboxes[proc.components.targets[0]]
    for t in threads:
        if t is system.caller:
            # the caller: the last subscriber of the target mailbox
            ttoks += [4, mb_index[id(target_mb)], len(target_mb._subscriber_can_drive) - 1,
                      int(bool(case.get("relay")))]
            continue
        tg, args = t._c06_target, t._c06_args
        if isinstance(tg, functools.partial) and tg.func is strax.divide_outputs:
            mb, i = sub_of(args[0])
            outs = tg.keywords["outputs"]
            ff = tg.keywords["flow_freely"]
            ttoks += [3, mb, i, len(outs)]
            for d in outs:
                ttoks += [mb_index[id(tg.keywords["mailboxes"][d])], int(d in ff)]
        elif _saver_of(tg) is not None:
            mb, i = sub_of(args[0])
            ttoks += [1, mb, i, int(bool(tg.keywords.get("rechunk")) and bool(_saver_of(tg).allow_rechunk))]
            tid_of_saver[id(_saver_of(tg))] = t.tid
        elif getattr(tg, "__name__", "") == "_send_from":
            out = mb_index[id(tg.__self__)]
            loc = t._c06_locals
            iters = loc.get("iters")
            owner = loc.get("self")
            ins = []
            if iters:
                deps = owner.depends_on if owner is not None else list(iters)
                ins = [sub_of(iters[d]) for d in deps]
            ttoks += [0, n, out, len(ins)]
            for mb, i in ins:
                ttoks += [mb, i]
        elif getattr(tg, "__name__", "") == "discarder":
            mb, i = sub_of(args[0])
            ttoks += [2, mb, i]
        else:
            raise RuntimeError("unrecognised processor thread %s (%r)" % (t.name, tg))
    toks += [len(threads)] + ttoks
    # the injected failure
    fault = case.get("fault")
    ftid = -1
    if fault:
        want = system.fault_thread_name()
        hits = [t.tid for t in threads if t.name == want or (want.endswith(":") and t.name.startswith(want))]
        if len(hits) != 1:
            raise RuntimeError("fault %r: threads named %r: %s (all: %s)" % (fault, want, hits, [t.name for t in threads]))
        ftid = hits[0]
        pos = fault["pos"]
        if "saver" in fault and fault["saver"][0] in case.get("rechunk", ()):
            pos = n          # a rechunking saver saves everything at the final flush
        toks += [ftid, pos, C_BOOM]
    else:
        toks += [-1, 0, 0]
    cf = case.get("cfault")
    if cf:
        toks += [cf["chunk"], int(bool(cf["close"])), C_CONSUMER]
    else:
        toks += [-1, 0, 0]
    toks += list(system.fixes)
    toks += [len(mbs)] + list(range(len(mbs)))
    join = [t.tid for m in mbs for t in m._threads]
    toks += [len(join)] + join
    sav = [tid_of_saver[id(s)] for lst in proc.components.savers.values() for s in lst]
    toks += [len(sav)] + sav
    toks += [system.main_tid]
    system.fault_tid = ftid
    return toks
