"""Seeded generators and exhaustive enumerators shared by the property harnesses."""
import itertools


def sorted_row_lists(nmax, grid, maxlen, with_ids=True):
    """All lists of <= nmax rows with non-decreasing starts on range(grid), lengths 0..maxlen.
    Rows with equal start appear in every order of their lengths."""
    cells = [(t, t + l) for t in range(grid) for l in range(maxlen + 1)]
    for n in range(nmax + 1):
        def rec(prefix, min_t):
            if len(prefix) == n:
                yield [(t, e, i, 0) for i, (t, e) in enumerate(prefix)]
                return
            for (t, e) in cells:
                if t >= min_t:
                    yield from rec(prefix + [(t, e)], t)
        yield from rec([], 0)


def random_rows(rng, n, tmax, maxlen, cluster=0.5, zero_len=0.15):
    """Random sorted rows with clusters of overlaps, shared endpoints and zero-length rows."""
    rows = []
    t = rng.randint(0, 3)
    for i in range(n):
        u = rng.random()
        if u < cluster and rows:
            # start inside / at the end of a previous row
            p = rows[rng.randrange(max(0, len(rows) - 3), len(rows))]
            t = max(t, rng.choice([p[0], p[1], max(p[0], p[1] - 1), p[1] + 1]))
        else:
            t = t + rng.randint(0, max(1, tmax // max(n, 1)))
        l = 0 if rng.random() < zero_len else rng.randint(1, maxlen)
        rows.append((t, t + l, i, rng.randint(0, 3)))
    return rows


def compositions(n):
    """All ways to cut a list of n items into consecutive (possibly empty at most once?) groups:
    returns lists of cut positions (strictly increasing subsets of 1..n-1)."""
    for k in range(n):
        for cuts in itertools.combinations(range(1, n), k):
            yield list(cuts)
