"""C06, threaded part through the real front door: strax.Context.get_iter / get_array with
processor = ThreadedMailboxProcessor, real strax.Plugin subclasses and a real strax.DataDirectory, with a
failure injected in a plugin's compute, in FileSaver._save_chunk, in the backend's _read_chunk (loader), or by
the consumer (apply_data_function raising / closing the iterator).

ContextSystem: under the controlled scheduler (harness/sched), compared with the Coq network like NetSystem.
os_run: under the real OS scheduler with sys.setswitchinterval(1e-6), with and without worker pools.
"""
import os
import shutil
import sys
import tempfile
import threading

import numpy as np
import strax
import strax.storage.files as sfiles

from harness import c06_net
from harness.c06_net import Boom, ConsumerError, BaseSystem, BIG_TIMEOUT

# the active failure injection of this process: {"kind": "plugin"|"saver"|"loader", "name": data type, "pos": k}
ACTIVE = {"fault": None, "system": None, "N": 0}


def _boom(what):
    return ACTIVE["system"].boom(what)


def _check_plugin(name, chunk_i):
    f = ACTIVE["fault"]
    if f and f["kind"] == "plugin" and f["name"] == name and f["pos"] == chunk_i:
        raise _boom("plugin %s at chunk %d" % (name, chunk_i))


def _rows(k):
    r = np.zeros(1, dtype=strax.time_fields)
    r["time"] = 10 * k
    r["endtime"] = 10 * k + 1
    return r


class C6Src(strax.Plugin):
    provides = "c6src"
    data_kind = "c6src"
    save_when = strax.SaveWhen.EXPLICIT
    depends_on = ()
    dtype = strax.time_fields
    rechunk_on_save = False
    parallel = False

    def source_finished(self):
        return True

    def is_ready(self, chunk_i):
        f = ACTIVE["fault"]
        n = ACTIVE["N"]
        if chunk_i >= n and f and f["kind"] == "plugin" and f["name"] == "c6src" and f["pos"] == n:
            raise _boom("source at its end")
        return chunk_i < n

    def compute(self, chunk_i):
        _check_plugin("c6src", chunk_i)
        return self.chunk(start=10 * chunk_i, end=10 * (chunk_i + 1), data=_rows(chunk_i))


class C6Mid(strax.Plugin):
    provides = "c6mid"
    data_kind = "c6mid"
    save_when = strax.SaveWhen.EXPLICIT
    depends_on = ("c6src",)
    dtype = strax.time_fields
    rechunk_on_save = False
    parallel = True

    def compute(self, c6src, start, end):
        _check_plugin("c6mid", start // 10)
        return c6src


class C6Top(strax.Plugin):
    provides = "c6top"
    data_kind = "c6top"
    save_when = strax.SaveWhen.EXPLICIT
    depends_on = ("c6mid",)
    dtype = strax.time_fields
    rechunk_on_save = False
    parallel = True

    def compute(self, c6mid, start, end):
        _check_plugin("c6top", start // 10)
        return c6mid


class C6Multi(strax.Plugin):
    provides = ("c6x", "c6y")
    save_when = strax.SaveWhen.EXPLICIT
    depends_on = ("c6src",)
    data_kind = dict(c6x="c6x", c6y="c6y")
    dtype = dict(c6x=strax.time_fields, c6y=strax.time_fields)
    rechunk_on_save = False
    parallel = False

    def compute(self, c6src, start, end):
        _check_plugin("c6multi", start // 10)
        return dict(c6x=c6src, c6y=c6src)


class C6MultiSideFirst(C6Multi):
    provides = ("c6y", "c6x")


class C6OnX(strax.Plugin):
    provides = "c6onx"
    data_kind = "c6onx"
    save_when = strax.SaveWhen.EXPLICIT
    depends_on = ("c6x",)
    dtype = strax.time_fields
    rechunk_on_save = False

    def compute(self, c6x, start, end):
        _check_plugin("c6onx", start // 10)
        return c6x


# ----- failure injection in the storage layer (installed once per process)
_orig_save_chunk = sfiles.FileSaver._save_chunk
_orig_read_chunk = sfiles.FileSytemBackend._read_chunk


def _save_chunk(self, data, chunk_info, executor=None):
    f = ACTIVE["fault"]
    if f and f["kind"] == "saver" and f["name"] == self.md.get("data_type") and f["pos"] == chunk_info["chunk_i"]:
        raise _boom("saver of %s at chunk %d" % (f["name"], chunk_info["chunk_i"]))
    return _orig_save_chunk(self, data, chunk_info, executor=executor)


def _read_chunk(self, dirname, chunk_info, dtype, compressor):
    f = ACTIVE["fault"]
    if f and f["kind"] == "loader" and ("-" + f["name"] + "-") in os.path.basename(dirname) \
            and f["pos"] == chunk_info["chunk_i"]:
        raise _boom("loader of %s at chunk %d" % (f["name"], chunk_info["chunk_i"]))
    return _orig_read_chunk(self, dirname, chunk_info, dtype, compressor)


def install_storage_hooks():
    if sfiles.FileSaver._save_chunk is not _save_chunk:
        sfiles.FileSaver._save_chunk = _save_chunk
        sfiles.FileSytemBackend._read_chunk = _read_chunk


class RecordingProcessor(strax.ThreadedMailboxProcessor):
    """ThreadedMailboxProcessor that tells the harness which instance get_iter built"""
    last = None

    def __init__(self, components, **kwargs):
        if ACTIVE.get("timeout") is not None:
            kwargs["timeout"] = ACTIVE["timeout"]
        super().__init__(components, **kwargs)
        RecordingProcessor.last = self
        sysm = ACTIVE.get("system")
        if sysm is not None:
            sysm.proc = self


# ----- cases
# ctx case = {"N", "cap", "lazy", "relay": True, "graph": "chain"|"fan"|"fan_side_first"|"fan_post",
#             "nodes"/"savers"/"target"/"fault"/"cfault" as in c06_net (names are the data types below),
#             "preload": ["c6src"]  data types stored beforehand (fed by a loader), "max_workers": None|2}

GRAPHS = {
    "chain": ([C6Src, C6Mid, C6Top], "c6top"),
    "fan": ([C6Src, C6Multi], "c6x"),
    "fan_side_first": ([C6Src, C6MultiSideFirst], "c6x"),
    "fan_post": ([C6Src, C6Multi, C6OnX], "c6onx"),
}
NODE_OF = {"c6src": "c6src", "c6mid": "c6mid", "c6top": "c6top", "c6multi": "c6multi", "c6onx": "c6onx"}


def ctx_case(graph, n, cap, lazy, save=(), fault=None, cfault=None, preload=(), max_workers=None):
    classes, target = GRAPHS[graph]
    nodes = []
    for c in classes:
        prov = strax.to_str_tuple(c.provides)
        name = "c6multi" if len(prov) > 1 else prov[0]
        kind = "multi" if len(prov) > 1 else ("source" if not c.depends_on else "plugin")
        if name in preload:
            kind = "loader"
        nodes.append({"name": name, "kind": kind, "deps": list(c.depends_on), "provides": list(prov)})
    return {"shape": "ctx-" + graph, "graph": graph, "N": n, "cap": cap, "lazy": bool(lazy), "relay": True,
            "nodes": nodes, "savers": {d: 1 for d in save}, "rechunk": [], "target": target, "fault": fault,
            "cfault": cfault, "preload": list(preload), "max_workers": max_workers}


def active_fault(case):
    f = case.get("fault")
    if not f:
        return None
    if "saver" in f:
        return {"kind": "saver", "name": f["saver"][0], "pos": f["pos"]}
    kind = [nd["kind"] for nd in case["nodes"] if nd["name"] == f["node"]][0]
    return {"kind": "loader" if kind == "loader" else "plugin", "name": f["node"], "pos": f["pos"]}


def make_context(case, tmpdir, timeout):
    classes, target = GRAPHS[case["graph"]]
    st = strax.Context(storage=[strax.DataDirectory(tmpdir)], register=list(classes),
                       allow_lazy=bool(case["lazy"]), max_messages=case["cap"], timeout=timeout,
                       allow_multiprocess=False, allow_rechunk=False)
    return st, target


def preload(case, tmpdir):
    """store the data types the case wants to be fed by loaders (single-thread processor, no failure)"""
    if not case.get("preload"):
        return
    ACTIVE.update(fault=None, system=None, N=case["N"], timeout=None)
    st, _ = make_context(case, tmpdir, 600)
    for d in case["preload"]:
        st.make("0", d, save=(d,), processor="single_thread", progress_bar=False)


def consumer_function(system, case):
    cf = case.get("cfault")
    state = {"k": 0}

    def f(data, run_id, targets):
        k = state["k"]
        state["k"] += 1
        if cf and not cf["close"] and k == cf["chunk"]:
            system.consumer_exc = ConsumerError("consumer at chunk %d" % k)
            raise system.consumer_exc
        return data
    return f


class ContextSystem(BaseSystem):
    """Thread ids: 0 the caller, then the processor's threads in creation order."""

    def __init__(self, sched, case):
        super().__init__(sched, case)
        install_storage_hooks()
        import strax.processors.threaded_mailbox as tm
        self.tmpdir = tempfile.mkdtemp(prefix="c06ctx_", dir=os.environ.get("C06_TMP", None))
        preload(case, self.tmpdir)
        ACTIVE.update(fault=active_fault(case), system=self, N=case["N"], timeout=BIG_TIMEOUT)
        self.st, self.target = make_context(case, self.tmpdir, BIG_TIMEOUT)
        self.st.set_context_config({"apply_data_function": (consumer_function(self, case),)})
        self.caller = sched.threading.Thread(target=self.run_caller, name="caller")
        self.main_tid = self.caller.tid
        self.caller.start()
        self.warmup()

    def make_iterator(self):
        save = tuple(self.case["savers"])
        return self.st.get_iter("0", self.target, save=save, processor=RecordingProcessor,
                                max_workers=self.case.get("max_workers"), progress_bar=False)

    def saver_state(self, sv):
        d = super().saver_state(sv)
        return d

    def close(self):
        ACTIVE.update(fault=None, system=None)
        shutil.rmtree(self.tmpdir, ignore_errors=True)


# ---------------------------------------------------------------------------------------------
# real OS schedules
# ---------------------------------------------------------------------------------------------
class _OsSystem:
    def __init__(self):
        self.boom_exc = None
        self.consumer_exc = None
        self.proc = None

    def boom(self, what):
        if self.boom_exc is None:
            self.boom_exc = Boom(what)
        return self.boom_exc


def os_run(case, how="iter", timeout=180):
    """One run of Context.get_iter / get_array under the OS scheduler.  -> observation dict.
    strax's own `timeout` (seconds) is what ends a hang (the caller then receives a Mailbox*Timeout, which the
    predicate reports); the runs take milliseconds, the value is far above anything a loaded machine needs."""
    install_storage_hooks()
    tmpdir = tempfile.mkdtemp(prefix="c06os_", dir=os.environ.get("C06_TMP", None))
    sysm = _OsSystem()
    old = sys.getswitchinterval()
    old_hook = threading.excepthook
    threading.excepthook = lambda args: None      # pipeline threads that die print tracebacks otherwise
    try:
        preload(case, tmpdir)
        ACTIVE.update(fault=active_fault(case), system=sysm, N=case["N"], timeout=None)
        st, target = make_context(case, tmpdir, timeout)
        st.set_context_config({"apply_data_function": (consumer_function(sysm, case),)})
        save = tuple(case["savers"])
        before = {t.ident for t in threading.enumerate()}
        sys.setswitchinterval(1e-6)
        rows, result = [], None
        cf = case.get("cfault")
        try:
            if how == "array" and not (cf and cf["close"]):
                arr = st.get_array("0", target, save=save, processor=RecordingProcessor,
                                   max_workers=case.get("max_workers"), progress_bar=False)
                rows = [int(t) // 10 for t in arr["time"]]
            else:
                it = st.get_iter("0", target, save=save, processor=RecordingProcessor,
                                 max_workers=case.get("max_workers"), progress_bar=False)
                k = 0
                for chunk in it:
                    if cf and cf["close"] and k == cf["chunk"]:
                        it.close()
                        result = ("closed", None)
                        break
                    rows.append(int(chunk.start) // 10)
                    k += 1
            if result is None:
                result = ("ok", None)
        except BaseException as e:      # noqa
            result = ("err", e)
        sys.setswitchinterval(old)
        # the pipeline threads must be gone when the call returns (cleanup() joined them)
        left = [t.name for t in threading.enumerate()
                if t.ident not in before and t.is_alive() and not t.name.startswith("tqdm")
                and not t.name.startswith("ThreadPoolExecutor")]
        proc = RecordingProcessor.last
        savers = []
        if proc is not None:
            for d, lst in proc.components.savers.items():
                for sv in lst:
                    savers.append({"name": d, "closed": bool(sv.closed), "exception": "exception" in sv.md,
                                   "got": None if sv.got_exception is None else type(sv.got_exception).__name__,
                                   "rows": sum(ci["n"] for ci in sv.md["chunks"])})
        e = result[1]
        stored = {}
        for d in save:
            try:
                stored[d] = bool(st.is_stored("0", d))
            except Exception as ee:     # noqa
                stored[d] = "error %s" % type(ee).__name__
        return {
            "result": [result[0], None if e is None else "%s: %s" % (type(e).__name__, e)],
            "original": e is not None and (e is sysm.boom_exc or e is sysm.consumer_exc),
            "outside": e is not None and type(e).__name__ == "OutsideException",
            "fired": sysm.boom_exc is not None, "consumer_fired": sysm.consumer_exc is not None,
            "rows": rows, "threads_left": left, "savers": savers, "stored": stored,
        }
    finally:
        sys.setswitchinterval(old)
        threading.excepthook = old_hook
        ACTIVE.update(fault=None, system=None)
        RecordingProcessor.last = None
        shutil.rmtree(tmpdir, ignore_errors=True)
