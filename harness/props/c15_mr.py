"""C15, part 1: strax.utils.multi_run against Model/MultiRun.v.

Two drivers for the real function:
  * fake executor: `strax.utils.ThreadPoolExecutor` / `strax.utils.wait` are replaced by objects that hand
    the submitted tasks over in exactly the batches and orders a schedule prescribes (any pending task may
    complete, several at once, in any order) - the nondeterminism the model quantifies over;
  * real ThreadPoolExecutor with gated per-run functions: worker threads really run; a controller wrapped
    around `wait` releases the gates so that the completion order is the prescribed one (only tasks that
    the pool has started can be picked).
"""
import itertools
import threading
from concurrent.futures import wait as real_wait

import numpy as np
import strax
import strax.utils as su

from harness import lib

DT = np.dtype([(("payload", "x"), np.int64)])


class RunFailed(Exception):
    pass


def mk_exec(names_fail, payload, log=None, gate=None):
    """exec_function(run_id, **kwargs) for multi_run: rows are a function of the run id."""

    def f(run_id, **kwargs):
        key = run_id.decode() if hasattr(run_id, "decode") else str(run_id)
        if log is not None:
            log.append(key)
        if gate is not None:
            gate.enter(key)
        if key in names_fail:
            raise RunFailed(key)
        a = np.zeros(len(payload[key]), dtype=DT)
        a["x"] = payload[key]
        return a

    return f


# ------------------------------------------------------------------------------------------------
# fake executor
# ------------------------------------------------------------------------------------------------

class FakeFuture:
    def __init__(self, fn, args, kwargs):
        self.fn, self.args, self.kwargs = fn, args, kwargs
        self._done = False
        self._exc = None
        self._res = None

    def run(self):
        if self._done:
            return
        try:
            self._res = self.fn(*self.args, **self.kwargs)
        except BaseException as e:  # noqa
            self._exc = e
        self._done = True

    def exception(self):
        assert self._done
        return self._exc

    def result(self):
        assert self._done
        if self._exc is not None:
            raise self._exc
        return self._res


class FakeWorld:
    """Replaces ThreadPoolExecutor and wait inside strax.utils for one multi_run call."""

    def __init__(self, schedule):
        self.schedule = list(schedule)
        self.pending = []      # submission order
        self.submitted = []
        self.maxwin = 0
        self.used = []         # realised batches (indices into the pending list at pick time)
        world = self

        class Ex:
            def __init__(self, max_workers=None):
                if max_workers is not None and max_workers <= 0:
                    raise ValueError("max_workers must be greater than 0")

            def __enter__(self):
                return self

            def __exit__(self, *a):
                # shutdown(wait=True): whatever was submitted still runs
                for f in world.pending:
                    f.run()
                return False

            def submit(self, fn, *args, **kwargs):
                f = FakeFuture(fn, args, kwargs)
                world.pending.append(f)
                world.submitted.append(str(args[0]) if not hasattr(args[0], "decode") else args[0].decode())
                world.maxwin = max(world.maxwin, len(world.pending))
                return f

        self.Executor = Ex

    def wait(self, futures, return_when=None):
        fs = list(futures)
        assert set(fs) == set(self.pending), "wait() called on something else than the pending futures"
        batch = self.schedule.pop(0) if self.schedule else [0]
        if not batch:
            batch = [0]
        done = []
        used = []
        for p in batch:
            if not self.pending:
                break
            i = p % len(self.pending)
            used.append(i)
            f = self.pending.pop(i)
            f.run()
            done.append(f)
        self.used.append(used)
        return done, set(self.pending)


def call_fake(run_ids, w, ignore, throw, schedule, fails, payload, extra=None):
    world = FakeWorld(schedule)
    log = []
    f = mk_exec(fails, payload, log)
    kw = dict(max_workers=w, ignore_errors=bool(ignore), throw_away_result=bool(throw),
              multi_run_progress_bar=False)
    kw.update(extra or {})
    old = su.ThreadPoolExecutor, su.wait
    su.ThreadPoolExecutor, su.wait = world.Executor, world.wait
    try:
        try:
            out = ("ok", su.multi_run(f, run_ids, **kw))
        except RunFailed as e:
            out = ("raise", str(e))
        except ValueError as e:
            out = ("valueerr", str(e))
    finally:
        su.ThreadPoolExecutor, su.wait = old
    return out, world, log


# ------------------------------------------------------------------------------------------------
# real executor, gated functions
# ------------------------------------------------------------------------------------------------

class Gate:
    def __init__(self, names):
        self.started = {n: threading.Event() for n in names}
        self.release = {n: threading.Event() for n in names}
        self.free = threading.Event()

    def enter(self, key):
        self.started[key].set()
        while not (self.release[key].is_set() or self.free.is_set()):
            self.release[key].wait(0.005)


def call_threads(run_ids, w, ignore, throw, schedule, fails, payload):
    """Real ThreadPoolExecutor; `schedule` picks among the tasks the pool has started."""
    gate = Gate(run_ids)
    log = []
    f = mk_exec(fails, payload, log, gate)
    schedule = list(schedule)
    used = []
    maxwin = [0]

    def ctl_wait(futures, return_when=None):
        pending = list(futures.items())      # dict order = submission order of the pending futures
        maxwin[0] = max(maxwin[0], len(pending))
        batch = schedule.pop(0) if schedule else [0]
        if not batch:
            batch = [0]
        done, u = [], []
        for p in batch:
            running = pending[:min(len(pending), w)]
            if not running:
                break
            i = p % len(running)
            u.append(i)
            fut, run = pending.pop(i)
            run = str(run)
            if not gate.started[run].wait(600):
                gate.free.set()
                raise AssertionError("task %s was never started by the pool" % run)
            gate.release[run].set()
            real_wait([fut], timeout=600)
            done.append(fut)
            if run in fails and not ignore:
                gate.free.set()          # the call is about to raise: let the remaining tasks run out
                break
        used.append(u)
        return done, set(x for x, _ in pending)

    old = su.wait
    su.wait = ctl_wait
    try:
        try:
            out = ("ok", su.multi_run(f, run_ids, max_workers=w, ignore_errors=bool(ignore),
                                      throw_away_result=bool(throw), multi_run_progress_bar=False))
        except RunFailed as e:
            out = ("raise", str(e))
        except ValueError as e:
            out = ("valueerr", str(e))
    finally:
        gate.free.set()
        su.wait = old
    return out, used, log, maxwin[0]


# ------------------------------------------------------------------------------------------------
# canonical forms
# ------------------------------------------------------------------------------------------------

def rank_table(run_ids):
    names = sorted(set(run_ids))
    return {n: i + 1 for i, n in enumerate(names)}


def canon_result(out, rank, submitted, maxwin, failures=None):
    """Canonical string in the format of the model driver."""
    kind, val = out
    sub = "S %d %s" % (len(submitted), " ".join(str(rank[s]) for s in submitted))
    if kind == "raise":
        return ("RAISE %d " % rank[val]) + sub
    if kind == "valueerr":
        return "VALUEERR"
    if val is None:
        rs = "T"
    else:
        parts = ["R %d" % len(val)]
        for a in val:
            cells = []
            for i in range(len(a)):
                if "run_id" in a.dtype.names:
                    rid = a["run_id"][i]
                    rid = rid.decode() if hasattr(rid, "decode") else str(rid)
                    rr = rank.get(rid, -99)
                else:
                    rr = -1
                cells.append("%d %d" % (rr, int(a["x"][i])))
            parts.append(" ".join(["%d" % len(a)] + cells))
        rs = " ".join(parts)
    return "OK %s %s M %d" % (rs, sub, maxwin)


def strip_failures(model_line):
    """model prints 'OK <res> F nf ids.. S ..': the implementation only logs failures; drop F.."""
    if not model_line.startswith("OK "):
        return model_line
    toks = model_line.split()
    i = toks.index("F")
    nf = int(toks[i + 1])
    return " ".join(toks[:i] + toks[i + 2 + nf:])


def model_line(run_ids, rank, w, ignore, throw, addid, schedule, fails, payload):
    ids = [rank[r] for r in run_ids]
    toks = [w, int(ignore), int(throw), int(addid), len(ids)] + ids
    names = sorted(rank, key=lambda n: rank[n])
    toks.append(len(names))
    for n in names:
        pl = payload[n]
        toks += [rank[n], 0 if n in fails else 1, len(pl)] + list(pl)
    toks.append(len(schedule))
    for b in schedule:
        toks += [len(b)] + list(b)
    return "multi_run " + " ".join(str(int(t)) for t in toks)


def spec_multi_run(run_ids, rank, ignore, throw, addid, fails, payload, out, w=1):
    """The property predicate on the implementation's behaviour; None if it holds, else a reason."""
    kind, val = out
    if w == 0:
        return None if kind == "valueerr" else "max_workers=0 did not raise ValueError"
    failing = [r for r in run_ids if r in fails]
    if failing and not ignore:
        if kind != "raise":
            return "a run failed and errors are not ignored, but no exception reached the caller"
        if val not in failing:
            return "the exception raised does not belong to a failing run"
        return None
    if kind != "ok":
        return "unexpected exception %s %s" % (kind, val)
    if throw:
        return None if val is None else "throw_away_result returned something"
    exp = [(r, list(payload[r])) for r in sorted(run_ids) if r not in fails]
    if val is None or len(val) != len(exp):
        return "number of per-run results is %s, expected %d" % (None if val is None else len(val), len(exp))
    for a, (r, pl) in zip(val, exp):
        if [int(x) for x in a["x"]] != pl:
            return "rows of run %s are wrong or results are not in run-id order" % r
        if addid:
            if "run_id" not in a.dtype.names:
                return "run_id column missing"
            ids = [x.decode() if hasattr(x, "decode") else str(x) for x in a["run_id"]]
            if ids != [r] * len(pl):
                return "run_id column of run %s holds %s" % (r, sorted(set(ids)))
        elif "run_id" in a.dtype.names:
            return "run_id column attached although add_run_id_field is off"
    return None


# ------------------------------------------------------------------------------------------------
# schedule enumeration
# ------------------------------------------------------------------------------------------------

def all_schedules(n, w, max_batch=None):
    """Every schedule (list of batches of window indices) multi_run can see for n runs, w workers:
    at each wait any non-empty ordered selection of pending tasks may be handed over."""
    W = 2 * w

    def rec(win, queue):
        if win == 0:
            yield []
            return
        top = win if max_batch is None else min(win, max_batch)
        for b in range(1, top + 1):
            # ordered picks: successive indices into the shrinking window
            for picks in itertools.product(*[range(win - j) for j in range(b)]):
                ref = min(b, queue)
                for rest in rec(win - b + ref, queue - ref):
                    yield [list(picks)] + rest

    yield from rec(min(W, n), n - min(W, n))


def random_schedule(rng, n, w, threads=False):
    W = 2 * w
    win, queue = min(W, n), n - min(W, n)
    out = []
    while win:
        lim = min(win, w) if threads else win
        b = 1 if rng.random() < 0.6 else rng.randint(1, lim)
        picks = []
        for j in range(b):
            lim_j = (min(win - j, w) if threads else win - j)
            if lim_j <= 0:
                break
            picks.append(rng.randrange(lim_j))
        b = len(picks)
        out.append(picks)
        ref = min(b, queue)
        win, queue = win - b + ref, queue - ref
    return out


def completion_order(n, w, schedule):
    """positions (0..n-1 in sorted order) in completion order"""
    W = 2 * w
    win = list(range(min(W, n)))
    nxt = len(win)
    order = []
    for b in schedule:
        k = 0
        for p in b:
            if not win:
                break
            order.append(win.pop(p % len(win)))
            k += 1
        for _ in range(k):
            if nxt < n:
                win.append(nxt)
                nxt += 1
    return order
