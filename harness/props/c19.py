"""C19 — peak clustering, summing, merging and splitting conserve hits, area and time.

One module per unit (harness/props/c19_<unit>.py); each runs the real strax function and the extracted
Gallina model on the same inputs and evaluates the property predicate (the spec side of the theorem,
written independently in Python) on the implementation's output.
"""
import os
import sys
import time

from harness.props import c19_common, c19_fp, c19_hdr, c19_iof, c19_merge, c19_sma, c19_split, c19_sw, c19_widths, c19_groups

MODEL_PROPS = ["C19"]
LEVEL = "proof"

UNITS = [c19_sma, c19_fp, c19_groups.FG, c19_merge.RM, c19_merge.MP, c19_groups.LH, c19_iof, c19_widths.WD, c19_widths.CT, c19_split.SP, c19_split.LM, c19_sw,
         c19_hdr]


def run(ctx):
    units = UNITS
    only = os.environ.get("C19_UNITS")      # development aid: run a subset of the units
    if only:
        units = [m for m in UNITS if m.NAME in only.split(",")]
        ctx.notes.append("C19_UNITS=%s: only a subset of the units was run" % only)
    ctx.coverage["rule"] = " | ".join(m.RULE for m in units)
    ctx.assumptions.append("float results are compared on the exactly representable domain only (small integer "
                           "samples and areas, integer gains): sums must be bit-exact; where a helper divides the "
                           "model returns the exact fraction and the implementation must return the correctly "
                           "rounded value of that fraction (stated per unit)")
    for m in units:
        t0 = time.time()
        m.unit(ctx)
        sys.stderr.write("C19 unit %s: %.1fs\n" % (m.NAME, time.time() - t0))
    t0 = time.time()
    c19_common.flush_crosscheck(ctx)
    sys.stderr.write("C19 kernel cross-check: %.1fs\n" % (time.time() - t0))


def replay(ctx, obj):
    r = obj["replay"]
    inp = r.get("case") or r.get("input")
    for m in UNITS:
        if m.NAME == obj["unit"]:
            return m.replay(inp)
    print("unknown unit", obj["unit"])
    return 0
