"""C19 — peak clustering, summing, merging and splitting conserve hits, area and time.

One module per unit (harness/props/c19_<unit>.py); each runs the real strax function and the extracted
Gallina model on the same inputs and evaluates the property predicate (the spec side of the theorem,
written independently in Python) on the implementation's output.
"""
from harness.props import c19_fp, c19_merge, c19_sma

MODEL_PROPS = ["C19"]
LEVEL = "proof"

UNITS = [c19_sma, c19_fp, c19_merge.RM, c19_merge.MP]


def run(ctx):
    ctx.coverage["rule"] = " | ".join(m.RULE for m in UNITS)
    ctx.assumptions.append("float results are compared on the exactly representable domain only (small integer "
                           "samples and areas, integer gains): sums must be bit-exact; where a helper divides the "
                           "model returns the exact fraction and the implementation must return the correctly "
                           "rounded value of that fraction (stated per unit)")
    import sys
    import time
    for m in UNITS:
        t0 = time.time()
        m.unit(ctx)
        sys.stderr.write("C19 unit %s: %.1fs\n" % (m.NAME, time.time() - t0))


def replay(ctx, obj):
    r = obj["replay"]
    inp = r.get("case") or r.get("input")
    for m in UNITS:
        if m.NAME == obj["unit"]:
            return m.replay(inp)
    print("unknown unit", obj["unit"])
    return 0
