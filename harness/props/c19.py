"""C19 — peak clustering, summing, merging and splitting conserve hits, area and time.

Units (each: real strax function vs extracted Gallina model on the same inputs, plus the property
predicate = spec side of the theorem evaluated on the implementation's output):
  symmetric_moving_average
"""
import itertools
from fractions import Fraction

import numpy as np
import strax
from strax.processing import peak_splitting as ps

from harness import lib

MODEL_PROPS = ["C19"]
LEVEL = "proof"

COQ_IMPORTS = "From SV Require Import Model.PeakHelpers."


def zl(xs):
    return "[" + "; ".join("(%d)" % int(x) for x in xs) + "]"


def f32_quot(num, den):
    """float32 store of one correctly rounded float64 division of two exactly representable ints."""
    return np.float32(np.float64(num) / np.float64(den))


class Unit:
    """Bookkeeping shared by the units: disagreement -> predicate -> violation."""

    def __init__(self, ctx, name):
        self.ctx, self.name = ctx, name
        self.bad = 0
        self.nontriv = set()
        self.dist = {}
        self.n = 0

    def tally(self, key):
        self.dist[key] = self.dist.get(key, 0) + 1

    def report(self, inp, impl_s, model_s, reason):
        """Model/implementation disagreement or predicate failure on `inp`."""
        self.bad += 1
        if reason:
            self.ctx.violation(self.name, "%s (impl %s, model %s)" % (reason, impl_s, model_s),
                               {"input": inp, "impl": impl_s, "model": model_s})
        else:
            self.ctx.violation(self.name, "model/implementation disagree (impl %s, model %s) but the property "
                               "predicate holds on this input" % (impl_s, model_s),
                               {"input": "corr:C19/%s" % self.name, "case": inp, "impl": impl_s, "model": model_s},
                               no_failing_input=True)

    def done(self):
        self.ctx.count(self.name, self.n, len(self.nontriv), self.dist)


def crosscheck(ctx, unit, eqs, imports=COQ_IMPORTS):
    n, fails = lib.coq_crosscheck("C19", imports, eqs)
    ctx.coverage.setdefault("kernel_crosscheck", {})[unit] = {"equations": n, "failed_files": len(fails)}
    if fails:
        ctx.violation(unit, "extracted model and Coq vm_compute disagree: " + fails[0][-400:],
                      {"input": "corr:C19/%s/extraction-crosscheck" % unit, "log": fails[0]},
                      no_failing_input=True)


# ------------------------------------------------------------------------------------------------
# symmetric_moving_average
# ------------------------------------------------------------------------------------------------

def sma_spec(a, w):
    """Defining formula: exact windowed mean (Fraction) around every sample."""
    n = len(a)
    out = []
    for i in range(n):
        lo, hi = max(0, i - w), min(n, i + w + 1)
        out.append((sum(a[lo:hi]), hi - lo))
    return out


def sma_impl(a, w, dtype):
    return ps.symmetric_moving_average(np.array(a, dtype=dtype), w)


def sma_floats(pairs, dtype):
    if dtype == np.float32:
        return [float(f32_quot(s, c)) for s, c in pairs]
    return [float(np.float64(s) / np.float64(c)) for s, c in pairs]


def sma_predicate(a, w, dtype, out):
    """None if the implementation's output is the (correctly rounded) windowed mean."""
    exp = sma_floats(sma_spec(a, w), dtype)
    got = [float(x) for x in out]
    if len(got) != len(exp):
        return "output length %d for %d samples" % (len(got), len(a))
    for i, (g, e) in enumerate(zip(got, exp)):
        if g != e:
            return "out[%d] = %r but the mean over the window around sample %d is %r" % (i, g, i, e)
    return None


SMA_WITNESS = {"a": [1, 1], "w": 3, "dtype": "float32"}


def unit_sma(ctx):
    u = Unit(ctx, "symmetric_moving_average")
    nmax = 8 if (ctx.thorough or bool(ctx.drift)) else 6
    cases = []
    for n in range(1, nmax + 1):
        for a in itertools.product(range(4), repeat=n):
            for w in range(0, n + 3):
                cases.append((list(a), w))
    for _ in range(20000 if ctx.thorough else 3000):
        n = ctx.rng.randint(1, 40)
        a = [ctx.rng.choice([0, 0, 1, 2, 3, 7, 100, 1000]) for _ in range(n)]
        cases.append((a, ctx.rng.randint(0, n + 2)))
    lines = ["sma %d %d %s" % (w, len(a), " ".join(map(str, a))) for a, w in cases]
    mout = lib.run_model_parallel("C19", lines)
    for idx, ((a, w), mo) in enumerate(zip(cases, mout)):
        dtype = np.float32 if idx % 2 == 0 else np.float64
        dn = "float32" if dtype == np.float32 else "float64"
        out = sma_impl(a, w, dtype)
        mints = list(map(int, mo.split()))
        mpairs = list(zip(mints[0::2], mints[1::2]))
        mexp = sma_floats(mpairs, dtype)
        got = [float(x) for x in out]
        u.n += 1
        u.tally("wing>n" if w > len(a) else ("wing=0" if w == 0 else "0<wing<=n"))
        if w >= 1 and len(a) >= w + 2 and len(set(a)) > 1:
            u.nontriv.add((tuple(a), w))
        inp = {"a": a, "w": w, "dtype": dn}
        in_domain = w <= len(a)
        if got != mexp:
            u.report(inp, str(got), str(mexp), sma_predicate(a, w, dtype, out))
            if u.bad > 5:
                break
        elif in_domain:
            reason = sma_predicate(a, w, dtype, out)
            if reason:
                u.report(inp, str(got), str(mexp), "implementation AND model violate the defining formula: " + reason)
    # the known wide-wing witness (theorem C19_moving_average_is_definition_refuted), evaluated every run
    wa, ww = SMA_WITNESS["a"], SMA_WITNESS["w"]
    reason = sma_predicate(wa, ww, np.float32, sma_impl(wa, ww, np.float32))
    if reason:
        ctx.violation(u.name, "wing_width > len(a): " + reason, {"input": SMA_WITNESS})
    u.done()
    k = len(cases) // 3
    ctx.sample({"unit": u.name, "a": cases[k][0], "w": cases[k][1], "model_sum_count_pairs": mout[k]})
    idxs = sorted(ctx.rng.sample(range(len(cases)), 120))
    eqs = []
    for i in idxs:
        a, w = cases[i]
        mints = list(map(int, mout[i].split()))
        eqs.append("sma %s (%d) = [%s]" % (zl(a), w, "; ".join("((%d), (%d))" % p for p in zip(mints[0::2], mints[1::2]))))
    crosscheck(ctx, u.name, eqs)


UNITS = [unit_sma]


def run(ctx):
    ctx.coverage["rule"] = (
        "symmetric_moving_average: all waveforms of 1..6 (thorough 8) samples over {0..3} with every wing width "
        "0..n+2, float32 and float64 alternating, plus seeded random waveforms (<=40 samples, values up to 1000); "
        "non-trivial = wing >= 1, at least wing+2 samples (a sample leaves the window) and a non-constant waveform; "
        "distinct by (waveform, wing).")
    ctx.assumptions.append("float results are compared on the exactly representable domain only: the model returns "
                           "exact (sum, count) pairs and the implementation must return the float32 store of the one "
                           "correctly rounded float64 quotient (bit-exact comparison, no tolerance)")
    for f in UNITS:
        f(ctx)


def replay(ctx, obj):
    r = obj["replay"]
    inp = r.get("case") or r.get("input")
    unit = obj["unit"]
    if unit == "symmetric_moving_average":
        dtype = np.float32 if inp.get("dtype", "float32") == "float32" else np.float64
        out = sma_impl(inp["a"], inp["w"], dtype)
        reason = sma_predicate(inp["a"], inp["w"], dtype, out)
        print("impl:", [float(x) for x in out], "spec:", reason or "holds")
        return 1 if reason else 0
    print("unknown unit", unit)
    return 0
