"""C19 — peak clustering, summing, merging and splitting conserve hits, area and time.

One module per unit (harness/props/c19_<unit>.py); each runs the real strax function and the extracted
Gallina model on the same inputs and evaluates the property predicate (the spec side of the theorem,
written independently in Python) on the implementation's output.
"""
from harness.props import c19_fp, c19_sma

MODEL_PROPS = ["C19"]
LEVEL = "proof"

UNITS = [c19_sma, c19_fp]


def run(ctx):
    ctx.coverage["rule"] = " | ".join(m.RULE for m in UNITS)
    ctx.assumptions.append("float results are compared on the exactly representable domain only (small integer "
                           "samples and areas, integer gains): sums must be bit-exact; where a helper divides the "
                           "model returns the exact fraction and the implementation must return the correctly "
                           "rounded value of that fraction (stated per unit)")
    for m in UNITS:
        m.unit(ctx)


def replay(ctx, obj):
    r = obj["replay"]
    inp = r.get("case") or r.get("input")
    for m in UNITS:
        if m.NAME == obj["unit"]:
            return m.replay(inp)
    print("unknown unit", obj["unit"])
    return 0
