"""C16 — copying, stand-alone rechunking / recompressing, rechunk-on-load and per-chunk make + merge
preserve the data.

Every case is a *stored layout* (a contiguous stream of chunks written by a source plugin into a
DataDirectory) plus the parameters of one real call (`Context.copy_to_frontend`, `strax.rechunker`,
loading through a `rechunk_on_load` plugin, per-chunk `make` + `merge_per_chunk_storage`).  The same
layout and parameters go to the extracted Coq model (coq/Model/CopyRechunk.v); the directories both
leave behind are rendered to one canonical string (metadata fields + chunks as loaded) and diffed.
Independently of the model, the property's own predicate is evaluated on the implementation's
behaviour for every case: rows byte-for-byte, metadata against the files on disk, hash of the source
directory tree before / after, the states the source path goes through.
"""
import contextlib
import hashlib
import io
import itertools
import json
import logging
import os
import shutil
import tempfile

import numpy as np
import strax

from harness import impl, lib
from harness.props import c07

MODEL_PROPS = ["C16"]
LEVEL = "proof"

COMP = {"blosc": 0, "zstd": 1, "lz4": 2, "bz2": 3}
COMPS = list(COMP)
ITEM = impl.DT_ENDTIME.itemsize
RUN = "7"
TMPROOT = os.path.join(lib.BUILD, "tmp", "c16")

ERRMAP = [
    ("argmin of an empty", 32), ("Target size is too small", 30), ("infinite loop", 31),
    ("has no chunks", 50), ("No frontend to copy to", 53), ("already exists", 53),
    ("Duplicate chunk numbers", 54), ("consecutive integers", 54), ("empty input buffer", 56),
    ("overlapping or out-of-order", 23), ("different run ids", 22), ("different data types", 21),
    ("starts early", 3), ("ends late", 4), ("is the source directory itself", 57),
]


def err_code(e):
    if isinstance(e, strax.CannotSplit):
        return 10
    if isinstance(e, strax.DataCorrupted):
        return 51
    if isinstance(e, (strax.DataNotAvailable, FileNotFoundError)):
        return 52
    if isinstance(e, AssertionError):
        return 55
    msg = str(e)
    for k, v in ERRMAP:
        if k in msg:
            return v
    return "%s:%s" % (type(e).__name__, msg[:120])


def mb(rows):
    """target_size_mb that means `rows` rows of the harness dtype (cf. c07.real_chunk)."""
    return (rows + 0.5) * ITEM / 1e6


def rows_of_mb(x):
    return int(x * 1e6 // ITEM)


@contextlib.contextmanager
def quiet():
    logging.disable(logging.CRITICAL)
    try:
        with contextlib.redirect_stdout(io.StringIO()), contextlib.redirect_stderr(io.StringIO()):
            yield
    finally:
        logging.disable(logging.NOTSET)


def newdir():
    os.makedirs(TMPROOT, exist_ok=True)
    return tempfile.mkdtemp(dir=TMPROOT)


# ------------------------------------------------------------------------------------------
# plugins
# ------------------------------------------------------------------------------------------

def mk_source(layout, comp, md_target, on_load=False, src_rows=2):
    class Src(strax.Plugin):
        provides = "src"
        depends_on = tuple()
        dtype = impl.DT_ENDTIME
        data_kind = "src"
        rechunk_on_save = False
        compressor = comp
        chunk_target_size_mb = mb(md_target)
        rechunk_on_load = on_load
        chunk_source_size_mb = mb(src_rows)

        def is_ready(self, chunk_i):
            return chunk_i < len(layout)

        def source_finished(self):
            return True

        def compute(self, chunk_i):
            s, e, rows = layout[chunk_i]
            return self.chunk(start=s, end=e, data=impl.mk_array([tuple(r) for r in rows], "endtime"))
    return Src


def mk_dst(m, r, rechunk_save, tgt_rows, comp):
    class Dst(strax.Plugin):
        provides = "dst"
        depends_on = ("src",)
        dtype = impl.DT_ENDTIME
        data_kind = "dst"
        rechunk_on_save = bool(rechunk_save)
        chunk_target_size_mb = mb(tgt_rows)
        compressor = comp

        def compute(self, src):
            keep = np.ones(len(src), bool) if m <= 0 else (src["id"] % m != r)
            out = src[keep].copy()
            out["channel"] += 1
            return out
    return Dst


def context(dirs, plugins):
    return strax.Context(storage=[strax.DataDirectory(d) for d in dirs], register=plugins,
                         allow_multiprocess=False, allow_lazy=False)


# ------------------------------------------------------------------------------------------
# rendering directories: the same text as driver/c16_main.ml's show_store
# ------------------------------------------------------------------------------------------

def read_md(path):
    prefix = strax.storage.files.dirname_to_prefix(path)
    with open(os.path.join(path, strax.RUN_METADATA_PATTERN % prefix)) as f:
        return json.load(f)


def show_chunk(c):
    d = c.data
    return "[%d %d run=%s n=%d ids=%s ch=%s tgt=%d]" % (
        c.start, c.end, c.run_id, len(d), ",".join(str(int(x)) for x in d["id"]),
        ",".join(str(int(x)) for x in d["channel"]), rows_of_mb(c.target_size_mb))


def load_chunks(path):
    return list(strax.FileSytemBackend().loader(path))


def show_loaded(path):
    try:
        return " ".join(show_chunk(c) for c in load_chunks(path))
    except Exception as e:  # noqa
        return "err %s" % err_code(e)


def show_dir(path):
    if not os.path.exists(path):
        return "absent"
    md = read_md(path)
    infos = []
    for ci in md["chunks"]:
        def pair(a, b):
            return "%d,%d" % (ci[a], ci[b]) if a in ci else "x,x"
        infos.append("%d,%d,%d,%s,%s,%d" % (ci["n"], ci["start"], ci["end"], pair("first_time", "first_endtime"),
                                            pair("last_time", "last_endtime"), 1 if "filename" in ci else 0))
    valid = 1 if ("writing_ended" in md and "exception" not in md) else 0
    return "{v=%d t=%d c=%d s=%d e=%d | %s | %s}" % (
        valid, rows_of_mb(md["chunk_target_size_mb"]), COMP[md["compressor"]], md.get("start", 0), md.get("end", 0),
        ";".join(infos), show_loaded(path))


def tree_hash(path):
    """hash of names + contents of a directory tree ('absent' when missing)"""
    if not os.path.exists(path):
        return "absent"
    h = hashlib.sha1()
    for root, dirs, files in os.walk(path):
        dirs.sort()
        for f in sorted(files):
            p = os.path.join(root, f)
            h.update(os.path.relpath(p, path).encode() + b"\0")
            with open(p, "rb") as fh:
                h.update(fh.read())
            h.update(b"\1")
    return h.hexdigest()


def all_bytes(path):
    """the rows stored under `path`, through the ordinary loader, as bytes"""
    return b"".join(c.data.tobytes() for c in load_chunks(path))


# ------------------------------------------------------------------------------------------
# the property's predicate on one destination directory (independent of the model)
# ------------------------------------------------------------------------------------------

def check_dir(path, want_bytes, want_range, want_comp=None):
    """None if the directory holds exactly `want_bytes` with consistent metadata, else a reason."""
    if not os.path.isdir(path):
        return "destination directory is missing"
    try:
        md = read_md(path)
    except Exception as e:  # noqa
        return "destination metadata unreadable: %s" % e
    if "writing_ended" not in md or "exception" in md:
        return "destination is not marked complete (writing_ended / exception)"
    if want_comp is not None and md["compressor"] != want_comp:
        return "metadata names compressor %s, requested %s" % (md["compressor"], want_comp)
    prefix = strax.storage.files.dirname_to_prefix(path)
    dtype = impl.DT_ENDTIME
    names = {strax.RUN_METADATA_PATTERN % prefix}
    got = b""
    prev_end = None
    for i, ci in enumerate(md["chunks"]):
        if ci.get("chunk_i") != i:
            return "chunk %d carries chunk_i %s" % (i, ci.get("chunk_i"))
        if prev_end is not None and ci["start"] != prev_end:
            return "chunk %d starts at %d, previous ended at %d (not contiguous)" % (i, ci["start"], prev_end)
        prev_end = ci["end"]
        if ci["start"] > ci["end"]:
            return "chunk %d has start > end" % i
        if ci["n"] == 0:
            if "filename" in ci and os.path.exists(os.path.join(path, ci["filename"])):
                names.add(ci["filename"])
            if ci.get("nbytes", 0) != 0:
                return "empty chunk %d with nbytes %s" % (i, ci.get("nbytes"))
            continue
        fn = ci.get("filename")
        if fn != "%s-%06d" % (prefix, i):
            return "chunk %d has file name %s" % (i, fn)
        names.add(fn)
        fp = os.path.join(path, fn)
        if not os.path.exists(fp):
            return "file of chunk %d is missing" % i
        if "filesize" in ci and ci["filesize"] != os.path.getsize(fp):
            return "chunk %d: filesize %s in metadata, %d on disk" % (i, ci["filesize"], os.path.getsize(fp))
        try:
            data = strax.load_file(fp, compressor=md["compressor"], dtype=dtype)
        except Exception as e:  # noqa
            return "file of chunk %d does not decode with the metadata's compressor %s: %s" % (i, md["compressor"], type(e).__name__)
        if len(data) != ci["n"]:
            return "chunk %d: %d rows in the file, n = %d in metadata" % (i, len(data), ci["n"])
        if ci.get("nbytes") != data.nbytes:
            return "chunk %d: nbytes %s in metadata, %d in the file" % (i, ci.get("nbytes"), data.nbytes)
        et = strax.endtime(data)
        if (ci.get("first_time"), ci.get("first_endtime"), ci.get("last_time"), ci.get("last_endtime")) != \
                (int(data["time"][0]), int(et[0]), int(data["time"][-1]), int(et[-1])):
            return "chunk %d: first/last times in metadata do not match the file" % i
        if int(data["time"][0]) < ci["start"] or int(et.max()) > ci["end"]:
            return "chunk %d: rows outside [start, end)" % i
        if np.any(np.diff(data["time"]) < 0):
            return "chunk %d: rows not sorted" % i
        got += data.tobytes()
    if not md["chunks"]:
        return "destination has no chunks"
    if (md.get("start"), md.get("end")) != (md["chunks"][0]["start"], md["chunks"][-1]["end"]):
        return "overall start/end %s do not match first/last chunk" % ((md.get("start"), md.get("end")),)
    if want_range is not None and (md["start"], md["end"]) != tuple(want_range):
        return "overall range %s, source had %s" % ((md["start"], md["end"]), tuple(want_range))
    extra = set(os.listdir(path)) - names
    if extra:
        return "files not named by the metadata: %s" % sorted(extra)[:3]
    if got != want_bytes:
        return "rows differ from the source (%d vs %d bytes)" % (len(got), len(want_bytes))
    try:
        with quiet():
            dry = strax.dry_load_files(path, disable=True)
            through_loader = all_bytes(path)
    except Exception as e:  # noqa
        return "loading the destination fails: %s %s" % (type(e).__name__, str(e)[:100])
    if dry.tobytes() != want_bytes or through_loader != want_bytes:
        return "rows loaded from the destination differ from the source"
    return None


# ------------------------------------------------------------------------------------------
# layouts
# ------------------------------------------------------------------------------------------

D1_ROWS = [(0, 1, 0, 0), (2, 3, 1, 0), (5000, 5001, 2, 0), (5002, 5003, 3, 0)]


def fixed_layouts():
    """layouts every run uses: one eligible gap beyond the target (the repaired get_splits defect), the
    same behind an earlier chunk, empty and zero-duration chunks, a row ending exactly on a boundary"""
    return [
        [(0, 6000, D1_ROWS)],
        [(0, 3, D1_ROWS[:2]), (3, 6000, D1_ROWS[2:])],
        [(0, 1, [(0, 1, 0, 0)]), (1, 1, []), (1, 4000, [(2, 3, 1, 0)]), (4000, 9000, [(5000, 5001, 2, 0), (5002, 5003, 3, 0)])],
        [(0, 10, [(1, 4, 0, 0), (3, 9, 1, 0)]), (10, 6000, [(5000, 5001, 2, 0), (5002, 5003, 3, 0)]), (6000, 6000, []),
         (6000, 9000, [(8000, 8100, 4, 1)]), (9000, 20000, [(9500, 9600, 5, 0), (12000, 12001, 6, 0), (15000, 15001, 7, 0)])],
        [(5, 2000, [(5, 5, 0, 0), (700, 1900, 1, 2), (700, 700, 2, 0)]), (2000, 2000, []), (2000, 7000, [(3200, 3300, 3, 0), (6000, 7000, 4, 0)])],
    ]


def random_layout(rng, nmax=9, kmax=4):
    n = rng.randint(1, nmax)
    t = rng.choice([0, 0, 3, 50])
    rows = []
    for i in range(n):
        t += rng.choice([0, 3, 400, 900, 1001, 1001, 1500, 5000])
        rows.append((t, t + rng.choice([0, 1, 50, 600, 1200]), i, rng.randint(0, 3)))
    e = max(r[1] for r in rows) + rng.choice([0, 7, 2000])
    s = rng.choice([0, 0, rows[0][0]])
    parts = rng.choice(c07.partitions(rng, rows, s, e, exhaustive=False, kmax=kmax))
    return [(a, b, [tuple(r) for r in p]) for a, b, p in parts]


def layouts(ctx, n_random, kmax=4):
    out = [l for l in fixed_layouts() if len(l) <= kmax]
    for _ in range(n_random):
        out.append(random_layout(ctx.rng, kmax=kmax))
    return out


def enc_layout(layout, tgt):
    return "%d %s" % (len(layout), " ".join("%d %d 1 1 7 %d %s" % (s, e, tgt, impl.enc_rows(rows)) for s, e, rows in layout))


def jl(layout):
    return [[s, e, [list(r) for r in rows]] for s, e, rows in layout]


def unjl(layout):
    return [(s, e, [tuple(r) for r in rows]) for s, e, rows in layout]


def store_layout(d, layout, comp, md_target):
    """write the layout with a source plugin; returns (context class, directory of the stored data)"""
    src = mk_source(layout, comp, md_target)
    st = context([d], [src])
    with quiet():
        st.make(RUN, "src", progress_bar=False)
        key = st.key_for(RUN, "src")
    return src, os.path.join(d, str(key))


def nontrivial_layout(layout):
    return sum(1 for _, _, rows in layout if rows) >= 2


# ------------------------------------------------------------------------------------------
# unit: copy_to_frontend
# ------------------------------------------------------------------------------------------

def real_copy(case):
    layout = unjl(case["layout"])
    d = newdir()
    try:
        a, b = os.path.join(d, "a"), os.path.join(d, "b")
        src, spath = store_layout(a, layout, case["md_comp"], case["md_target"])
        dpath = os.path.join(b, os.path.basename(spath))
        os.makedirs(b, exist_ok=True)
        if case["dst_state"] in (1, 2):
            shutil.copytree(spath, dpath)
            if case["dst_state"] == 2:
                mdp = os.path.join(dpath, [f for f in os.listdir(dpath) if f.endswith("metadata.json")][0])
                md = json.load(open(mdp))
                md["exception"] = "broken on purpose"
                json.dump(md, open(mdp, "w"))
                for f in os.listdir(dpath):
                    if not f.endswith("metadata.json"):
                        os.remove(os.path.join(dpath, f))
                        break
        want = all_bytes(spath)
        md_src = read_md(spath)
        h0 = tree_hash(spath)
        st = context([a, b], [src])
        res = "ok"
        try:
            with quiet():
                st.copy_to_frontend(RUN, "src", target_frontend_id=1, target_compressor=case["comp"],
                                    rechunk=bool(case["rechunk"]), rechunk_to_mb=mb(case["rechunk_to"]))
        except Exception as e:  # noqa
            res = "err %s" % err_code(e)
        untouched = tree_hash(spath) == h0
        out = "%s src=%s dst=%s" % (res, "untouched" if untouched else "TOUCHED", show_dir(dpath))
        reason = None
        if not untouched:
            reason = "copy_to_frontend changed the source directory"
        elif case["dst_state"] == 1:
            if res == "ok":
                reason = "copy_to_frontend overwrote complete data in the target frontend"
        elif res != "ok":
            reason = "copy_to_frontend failed on a valid stored layout: " + res
        else:
            reason = check_dir(dpath, want, (md_src["start"], md_src["end"]), case["comp"] or case["md_comp"])
            if reason is None and not case["rechunk"]:
                if [(c["start"], c["end"], c["n"]) for c in read_md(dpath)["chunks"]] != \
                        [(c["start"], c["end"], c["n"]) for c in md_src["chunks"]]:
                    reason = "chunk boundaries changed although rechunk=False"
        return out, reason
    finally:
        shutil.rmtree(d, ignore_errors=True)


def line_copy(case):
    return "copy %d %d %d %d %d %d %s" % (
        case["dst_state"], -1 if case["comp"] is None else COMP[case["comp"]], case["rechunk"], case["rechunk_to"],
        COMP[case["md_comp"]], case["md_target"], enc_layout(unjl(case["layout"]), case["md_target"]))


def cases_copy(ctx):
    n = 120 if ctx.thorough else (30 if ctx.escalated() else 12)
    out = []
    for layout in layouts(ctx, n):
        md_target = ctx.rng.choice([1, 2, 4, 50])
        for _ in range(3 if ctx.thorough else 2):
            out.append({"unit": "copy", "layout": jl(layout), "md_comp": ctx.rng.choice(COMPS), "md_target": md_target,
                        "dst_state": ctx.rng.choice([0, 0, 0, 0, 1, 2]), "comp": ctx.rng.choice([None] + COMPS),
                        "rechunk": ctx.rng.choice([0, 1, 1]), "rechunk_to": ctx.rng.choice([1, 1, 2, 3, md_target, 50])})
    return out


# ------------------------------------------------------------------------------------------
# unit: strax.rechunker
# ------------------------------------------------------------------------------------------

class Spy:
    """records the state of the source path before and after every directory-level file operation"""

    def __init__(self, spath):
        self.spath = spath
        self.hashes = []

    def snap(self):
        self.hashes.append(tree_hash(self.spath))

    def wrap(self, fn):
        def w(*a, **k):
            self.snap()
            try:
                return fn(*a, **k)
            finally:
                self.snap()
        return w

    def classify(self, old, new):
        s = "".join("A" if h == "absent" else "O" if h == old else "N" if h == new else "X" for h in self.hashes)
        return "".join(ch for i, ch in enumerate(s) if i == 0 or s[i - 1] != ch)


class ShutilProxy:
    def __init__(self, spy):
        self._spy = spy

    def __getattr__(self, name):
        f = getattr(shutil, name)
        return self._spy.wrap(f) if name in ("rmtree", "move") else f


def collapse(s):
    return "".join(ch for i, ch in enumerate(s) if i == 0 or s[i - 1] != ch)


def real_rechunker(case):
    import strax.storage.file_rechunker as fr
    import strax.storage.files as sf
    layout = unjl(case["layout"])
    d = newdir()
    spy = None
    saved = (fr.shutil, sf.FileSaver._flush_metadata, sf.FileSaver._close, sf.shutil)
    try:
        a = os.path.join(d, "a")
        src, spath = store_layout(a, layout, case["md_comp"], case["md_target"])
        dest_dir = None if case["dest"] == "temp" else os.path.join(d, "out")
        dpath = None if dest_dir is None else os.path.join(dest_dir, os.path.basename(spath))
        want = all_bytes(spath)
        md_src = read_md(spath)
        h0 = tree_hash(spath)
        spy = Spy(spath)
        fr.shutil = ShutilProxy(spy)
        sf.shutil = ShutilProxy(spy)
        sf.FileSaver._flush_metadata = spy.wrap(saved[1])
        sf.FileSaver._close = spy.wrap(saved[2])
        res = "ok"
        try:
            with quiet():
                strax.rechunker(source_directory=spath, dest_directory=dest_dir, replace=bool(case["replace"]),
                                compressor=case["comp"], target_size_mb=None if case["tgt"] is None else mb(case["tgt"]),
                                rechunk=bool(case["rechunk"]), progress_bar=True, parallel=case["parallel"],
                                max_workers=2, _timeout=60)
        except Exception as e:  # noqa
            res = "err %s" % err_code(e)
        finally:
            fr.shutil, sf.FileSaver._flush_metadata, sf.FileSaver._close, sf.shutil = saved
        h1 = tree_hash(spath)
        trace = spy.classify(h0, h1 if h1 != h0 else "-")
        out = "%s src=%s dst=%s trace=%s" % (res, show_dir(spath), "absent" if dpath is None else show_dir(dpath), trace)
        want_comp = case["comp"] or case["md_comp"]
        rng_ = (md_src["start"], md_src["end"])
        reason = None
        if res != "ok":
            reason = "strax.rechunker failed on a valid stored layout: " + res
            if h1 != h0:
                reason += " (and the source directory changed)"
        elif not case["replace"]:
            if h1 != h0 or trace != "O":
                reason = "the source directory was written or removed although replace=False (states %s)" % trace
            else:
                reason = check_dir(dpath, want, rng_, want_comp)
        else:
            if trace not in ("OAN", "ON", "O"):
                reason = "the source path went through the states %s (O old, A absent, N new, X anything else)" % trace
            else:
                reason = check_dir(spath, want, rng_, want_comp)
                if reason:
                    reason = "after replace the source path does not hold the new data: " + reason
                elif dpath is not None and os.path.exists(dpath):
                    reason = "destination still exists after the move"
        if reason is None and not case["rechunk"]:
            newp = spath if case["replace"] else dpath
            if [(c["start"], c["end"], c["n"]) for c in read_md(newp)["chunks"]] != \
                    [(c["start"], c["end"], c["n"]) for c in md_src["chunks"]]:
                reason = "chunk boundaries changed although rechunk=False"
        return out, reason
    finally:
        shutil.rmtree(d, ignore_errors=True)


def line_rechunker(case):
    return "rechunker 0 %d %d %d %d %d %d %s" % (
        case["replace"], -1 if case["comp"] is None else COMP[case["comp"]], -1 if case["tgt"] is None else case["tgt"],
        case["rechunk"], COMP[case["md_comp"]], case["md_target"], enc_layout(unjl(case["layout"]), case["md_target"]))


def norm_model_rechunker(mo):
    """collapse the stuttering of the model's state word"""
    head, _, tr = mo.rpartition(" trace=")
    tr = collapse(tr)
    if tr == "OAO":
        # the new directory is structurally identical to the old one in the model (no rechunking, same
        # compressor and target); on disk it still is a new directory (time stamps, file sizes)
        tr = "OAN"
    return head + " trace=" + tr


def cases_rechunker(ctx):
    n = 150 if ctx.thorough else (40 if ctx.escalated() else 14)
    out = []
    modes = [False, "thread"] + (["process"] if ctx.thorough else [])
    k = 0
    for layout in layouts(ctx, n):
        md_target = ctx.rng.choice([1, 2, 4, 50])
        for _ in range(3 if ctx.thorough else 2):
            replace = ctx.rng.choice([0, 1])
            par = modes[k % len(modes)]
            if par == "process" and ctx.rng.random() < 0.8:
                par = ctx.rng.choice([False, "thread"])
            k += 1
            out.append({"unit": "rechunker", "layout": jl(layout), "md_comp": ctx.rng.choice(COMPS), "md_target": md_target,
                        "replace": replace, "dest": ctx.rng.choice(["temp", "dir"]) if replace else "dir",
                        "comp": COMPS[k % 4] if k % 5 else None, "tgt": ctx.rng.choice([None, 1, 1, 2, 3, 50]),
                        "rechunk": ctx.rng.choice([0, 1, 1, 1]), "parallel": par})
    return out


# ------------------------------------------------------------------------------------------
# unit: rechunk on load
# ------------------------------------------------------------------------------------------

def real_onload(case):
    layout = unjl(case["layout"])
    d = newdir()
    try:
        _, spath = store_layout(d, layout, case["md_comp"], case["md_target"])
        want_all = [c for c in load_chunks(spath)]
        sel = case["sel"]
        want = b"".join(c.data.tobytes() for i, c in enumerate(want_all) if sel is None or i in sel)
        picked = [c for i, c in enumerate(want_all) if sel is None or i in sel]
        h0 = tree_hash(spath)
        src2 = mk_source(layout, case["md_comp"], case["md_target"], on_load=True, src_rows=case["tgt"])
        st = context([d], [src2])
        kw = {} if sel is None else {"chunk_number": {"src": list(sel)}}
        try:
            with quiet():
                chunks = list(st.get_iter(RUN, "src", progress_bar=False, processor=case["processor"], **kw))
                arr = st.get_array(RUN, "src", progress_bar=False, processor=case["processor"], **kw)
            out = " ".join(show_chunk(c) for c in chunks)
        except Exception as e:  # noqa
            return "err %s" % err_code(e), "loading a valid stored layout through a rechunk_on_load plugin failed: %s %s" % (
                type(e).__name__, str(e)[:100])
        reason = None
        if b"".join(c.data.tobytes() for c in chunks) != want or arr.tobytes() != want:
            reason = "rows loaded with rechunk_on_load differ from the stored rows"
        elif tree_hash(spath) != h0:
            reason = "loading changed the stored data"
        elif picked and (chunks[0].start != picked[0].start or chunks[-1].end != picked[-1].end):
            reason = "overall range changed by rechunk on load"
        elif any(a.end != b.start for a, b in zip(chunks[:-1], chunks[1:])) and \
                not any(a.end != b.start for a, b in zip(picked[:-1], picked[1:])):
            reason = "chunks loaded with rechunk_on_load are not contiguous"
        elif any(len(c) and (c.data["time"][0] < c.start or strax.endtime(c.data).max() > c.end) for c in chunks):
            reason = "a row lies outside the chunk that carries it"
        return out, reason
    finally:
        shutil.rmtree(d, ignore_errors=True)


def line_onload(case):
    sel = case["sel"]
    return "onload %d %d %d %s %s" % (
        case["tgt"], COMP[case["md_comp"]], case["md_target"],
        "-1" if sel is None else "%d %s" % (len(sel), " ".join(str(i) for i in sel)),
        enc_layout(unjl(case["layout"]), case["md_target"]))


def cases_onload(ctx):
    n = 150 if ctx.thorough else (40 if ctx.escalated() else 14)
    out = []
    for i, layout in enumerate(layouts(ctx, n)):
        k = len(layout)
        sels = [None]
        if k >= 2:
            a = ctx.rng.randint(0, k - 1)
            b = ctx.rng.randint(a, k - 1)
            sels.append(list(range(a, b + 1)))
        for sel in sels:
            out.append({"unit": "onload", "layout": jl(layout), "md_comp": ctx.rng.choice(COMPS),
                        "md_target": ctx.rng.choice([1, 4, 50]), "tgt": ctx.rng.choice([1, 1, 2, 3]), "sel": sel,
                        "processor": ["single_thread", "threaded_mailbox"][i % 2]})
    return out


# ------------------------------------------------------------------------------------------
# unit: per-chunk make + merge_per_chunk_storage
# ------------------------------------------------------------------------------------------

def compositions(k):
    for cuts in itertools.chain.from_iterable(itertools.combinations(range(1, k), n) for n in range(k)):
        b = [0] + list(cuts) + [k]
        yield [list(range(x, y)) for x, y in zip(b[:-1], b[1:])]


def real_perchunk(case):
    """returns (out string in the model's format, reason) for one layout / plugin / grouping list"""
    layout = unjl(case["layout"])
    groups = case["groups"]
    d = newdir()
    try:
        src, spath = store_layout(d, layout, case["md_comp"], case["md_target"])
        dst = mk_dst(case["m"], case["r"], case["rechunk_save"], case["tgt_plugin"], case["comp_plugin"])
        proc = case["processor"]

        def fresh():
            return context([d], [src, dst])
        st = fresh()
        with quiet():
            base_lineage = st.lineage(RUN, "dst")
            final_key = str(st.key_for(RUN, "dst"))
        fpath = os.path.join(d, final_key)
        # directly made data
        try:
            with quiet():
                st.make(RUN, "dst", progress_bar=False, processor=proc)
            direct = show_dir(fpath)
            direct_bytes = all_bytes(fpath)
            direct_rng = (read_md(fpath)["start"], read_md(fpath)["end"])
        except Exception as e:  # noqa
            return "direct err %s" % err_code(e), "making the target directly failed: %s" % str(e)[:200]
        shutil.rmtree(fpath)
        h_src = tree_hash(spath)
        # per-chunk jobs
        jobs, keys, reason = [], [], None
        for g in groups:
            st = fresh()
            try:
                with quiet():
                    st.make(RUN, "dst", chunk_number={"src": list(g)}, progress_bar=False, processor=proc)
                    key = str(st.key_for(RUN, "dst", chunk_number={"src": list(g)}))
                    lin = st.lineage(RUN, "dst", chunk_number={"src": list(g)})
                keys.append(key)
                jobs.append(show_dir(os.path.join(d, key)))
                want_lin = json.loads(json.dumps(base_lineage))
                want_lin["dst"][2]["chunk_number"] = {"src": list(g)}
                if json.loads(json.dumps(lin)) != want_lin:
                    reason = reason or "lineage of the per-chunk job %s is not the base lineage + chunk_number tag" % g
            except Exception as e:  # noqa
                jobs.append("err %s" % err_code(e))
                keys.append(None)
                reason = reason or "per-chunk make for chunks %s failed: %s %s" % (g, type(e).__name__, str(e)[:100])
        if len(set(keys + [final_key])) != len(keys) + 1:
            reason = reason or "storage keys of per-chunk jobs collide (with each other or with the ordinary key): %s" % keys
        if os.path.exists(fpath):
            reason = reason or "a per-chunk job wrote under the ordinary key"
        h_jobs = [tree_hash(os.path.join(d, k)) if k else None for k in keys]
        # merge
        st = fresh()
        tag = "none"
        try:
            with quiet():
                st.merge_per_chunk_storage(RUN, "dst", "src", chunk_number_group=[list(g) for g in groups],
                                           rechunk=bool(case["merge_rechunk"]), rechunk_to_mb=mb(case["rechunk_to"]))
            merged = show_dir(fpath)
        except Exception as e:  # noqa
            merged = "err %s" % err_code(e)
            reason = reason or "merge_per_chunk_storage failed: %s %s" % (type(e).__name__, str(e)[:100])
        out = "jobs=%s tag=%s merged=%s direct=%s" % ("|".join(jobs), tag, merged, direct)
        if reason is None:
            reason = check_dir(fpath, direct_bytes, direct_rng, case["comp_plugin"])
            if reason:
                reason = "merged per-chunk results differ from the directly made data: " + reason
        if reason is None:
            if tree_hash(spath) != h_src:
                reason = "the dependency's stored data changed"
            elif [tree_hash(os.path.join(d, k)) for k in keys] != h_jobs:
                reason = "merge_per_chunk_storage changed the per-chunk results"
        if reason is None:
            with quiet():
                st = fresh()
                arr = st.get_array(RUN, "dst", progress_bar=False)
            if arr.tobytes() != direct_bytes:
                reason = "get_array on the merged data differs from the directly made data"
        return out, reason
    finally:
        shutil.rmtree(d, ignore_errors=True)


def line_perchunk(case):
    groups = case["groups"]
    g = "%d %s" % (len(groups), " ".join("%d %s" % (len(x), " ".join(str(i) for i in x)) for x in groups))
    return "perchunk %d %d %d %d %d %d %d %d %d %s %s" % (
        case["m"], case["r"], case["rechunk_save"], case["tgt_plugin"], COMP[case["comp_plugin"]], case["merge_rechunk"],
        case["rechunk_to"], COMP[case["md_comp"]], case["md_target"], g, enc_layout(unjl(case["layout"]), case["md_target"]))


def cases_perchunk(ctx):
    out = []
    kmax = 5
    pool = [l for l in layouts(ctx, 60 if ctx.thorough else 12, kmax=kmax) if 2 <= len(l) <= kmax]
    budget = 400 if ctx.thorough else (60 if ctx.escalated() else 26)
    i = 0
    for layout in pool:
        k = len(layout)
        comps = list(compositions(k))
        if not ctx.thorough and len(comps) > 4:
            comps = [comps[0], comps[-1]] + ctx.rng.sample(comps[1:-1], 2)
        cfg = {"m": ctx.rng.choice([0, 2, 3]), "r": ctx.rng.choice([0, 1]), "rechunk_save": ctx.rng.choice([0, 1]),
               "tgt_plugin": ctx.rng.choice([1, 2, 50]), "comp_plugin": ctx.rng.choice(COMPS),
               "md_comp": ctx.rng.choice(COMPS), "md_target": ctx.rng.choice([1, 4, 50])}
        for groups in comps:
            out.append(dict(cfg, unit="perchunk", layout=jl(layout), groups=groups,
                            merge_rechunk=ctx.rng.choice([0, 1, 1]), rechunk_to=ctx.rng.choice([1, 2, 3, 50]),
                            processor=["single_thread", "threaded_mailbox"][i % 2]))
            i += 1
        if len(out) >= budget:
            break
    return out[:budget]


# ------------------------------------------------------------------------------------------
# fixed cases outside the theorems' side conditions (each one is a finding on the real code when it fails)
# ------------------------------------------------------------------------------------------

TWO_CHUNKS = [[0, 3, [[0, 1, 0, 0], [2, 3, 1, 0]]], [3, 6000, [[5000, 5001, 2, 0], [5002, 5003, 3, 0]]]]
THREE_CHUNKS = [[0, 10, [[1, 2, 0, 0]]], [10, 20, [[11, 12, 1, 0]]], [20, 30, [[21, 22, 2, 0]]]]

SAME_DIR_CASES = [
    {"unit": "rechunker_same_dir", "layout": TWO_CHUNKS, "md_comp": "blosc", "md_target": 2, "dest": "parent",
     "comp": "zstd", "tgt": None, "rechunk": 1},
]
MERGE_HOLE_CASES = [
    {"unit": "merge_hole", "layout": THREE_CHUNKS, "md_comp": "blosc", "md_target": 4, "groups": [[0], [2]],
     "m": 0, "r": 0, "rechunk_save": 1, "tgt_plugin": 4, "comp_plugin": "blosc", "merge_rechunk": 1, "rechunk_to": 4,
     "processor": "single_thread"},
]
FAULT_CASES = [
    {"unit": "rechunker_fault", "layout": TWO_CHUNKS, "md_comp": "blosc", "md_target": 2, "parallel": False},
    {"unit": "rechunker_fault", "layout": TWO_CHUNKS, "md_comp": "blosc", "md_target": 2, "parallel": "thread"},
]


def real_same_dir(case):
    """strax.rechunker with a dest_directory that resolves to the source directory, replace=False"""
    layout = unjl(case["layout"])
    d = newdir()
    try:
        _, spath = store_layout(os.path.join(d, "a"), layout, case["md_comp"], case["md_target"])
        h0 = tree_hash(spath)
        res = "ok"
        try:
            with quiet():
                strax.rechunker(source_directory=spath, dest_directory=os.path.dirname(spath) if case["dest"] == "parent" else spath,
                                replace=False, compressor=case["comp"],
                                target_size_mb=None if case["tgt"] is None else mb(case["tgt"]),
                                rechunk=bool(case["rechunk"]), progress_bar=True, parallel=False)
        except Exception as e:  # noqa
            res = "err %s" % err_code(e)
        out = "%s src=%s" % (res, show_dir(spath))
        reason = None
        if tree_hash(spath) != h0:
            reason = ("strax.rechunker(replace=False) with a dest_directory that resolves to the source directory "
                      "removed the source data (%s)" % res)
        return out, reason
    finally:
        shutil.rmtree(d, ignore_errors=True)


def line_same_dir(case):
    return "rechunker_same %d %d %d %d %d %s" % (
        -1 if case["comp"] is None else COMP[case["comp"]], -1 if case["tgt"] is None else case["tgt"], case["rechunk"],
        COMP[case["md_comp"]], case["md_target"], enc_layout(unjl(case["layout"]), case["md_target"]))


def real_merge_hole(case):
    """merge_per_chunk_storage with groups that leave out a chunk of the dependency"""
    layout = unjl(case["layout"])
    d = newdir()
    try:
        src, spath = store_layout(d, layout, case["md_comp"], case["md_target"])
        dst = mk_dst(case["m"], case["r"], case["rechunk_save"], case["tgt_plugin"], case["comp_plugin"])
        st = context([d], [src, dst])
        with quiet():
            final_key = str(st.key_for(RUN, "dst"))
            st.make(RUN, "dst", progress_bar=False)
        fpath = os.path.join(d, final_key)
        direct = show_dir(fpath)
        direct_bytes = all_bytes(fpath)
        shutil.rmtree(fpath)
        jobs = []
        for g in case["groups"]:
            st = context([d], [src, dst])
            with quiet():
                st.make(RUN, "dst", chunk_number={"src": list(g)}, progress_bar=False, processor=case["processor"])
                jobs.append(show_dir(os.path.join(d, str(st.key_for(RUN, "dst", chunk_number={"src": list(g)})))))
        st = context([d], [src, dst])
        try:
            with quiet():
                st.merge_per_chunk_storage(RUN, "dst", "src", chunk_number_group=[list(g) for g in case["groups"]],
                                           rechunk=bool(case["merge_rechunk"]), rechunk_to_mb=mb(case["rechunk_to"]))
            merged = show_dir(fpath)
        except Exception as e:  # noqa
            merged = "err %s" % err_code(e)
        out = "jobs=%s tag=%s merged=%s direct=%s" % ("|".join(jobs), "none" if os.path.exists(fpath) else "tagged", merged, direct)
        reason = None
        if os.path.exists(fpath):
            st = context([d], [src, dst])
            with quiet():
                stored = st.is_stored(RUN, "dst")
                got = st.get_array(RUN, "dst", progress_bar=False).tobytes() if stored else None
            if stored and got != direct_bytes:
                reason = ("merge_per_chunk_storage with chunk groups %s (a chunk of the dependency is missing) stored "
                          "incomplete data under the ordinary key; get_array now returns it" % case["groups"])
        return out, reason
    finally:
        shutil.rmtree(d, ignore_errors=True)


def real_fault(case):
    """a write failure on the last chunk while strax.rechunker(replace=True) rewrites the data"""
    import time
    import strax.storage.files as sf
    layout = unjl(case["layout"])
    d = newdir()
    orig = sf.FileSaver._save_chunk_metadata
    try:
        _, spath = store_layout(os.path.join(d, "a"), layout, case["md_comp"], case["md_target"])
        want = all_bytes(spath)
        md_src = read_md(spath)
        h0 = tree_hash(spath)
        last_i = len(layout) - 1

        def failing(self, chunk_info):
            if chunk_info["chunk_i"] == last_i:
                if case["parallel"]:
                    time.sleep(1.0)     # the reader of the mailbox has long finished: deterministic order
                raise OSError("No space left on device (injected by the C16 check)")
            return orig(self, chunk_info)
        sf.FileSaver._save_chunk_metadata = failing
        res = "returned normally"
        try:
            with quiet():
                strax.rechunker(source_directory=spath, dest_directory=None, replace=True, compressor=None,
                                target_size_mb=None, rechunk=False, progress_bar=True, parallel=case["parallel"],
                                max_workers=2, _timeout=30)
        except Exception as e:  # noqa
            res = "raised %s" % type(e).__name__
        finally:
            sf.FileSaver._save_chunk_metadata = orig
        out = "%s src=%s" % (res, show_dir(spath))
        reason = None
        if tree_hash(spath) != h0:
            why = check_dir(spath, want, (md_src["start"], md_src["end"]), case["md_comp"])
            if why:
                reason = ("a write failure on the last chunk during strax.rechunker(replace=True, parallel=%r): the call %s "
                          "and the source path now holds neither the complete old nor the complete new data (%s)"
                          % (case["parallel"], res, why))
        return out, reason
    finally:
        sf.FileSaver._save_chunk_metadata = orig
        shutil.rmtree(d, ignore_errors=True)


# ------------------------------------------------------------------------------------------
# unit: staged merges — merge_per_chunk_storage on sub-lists of the jobs of one grouping
# ------------------------------------------------------------------------------------------

SIX_CHUNKS = [[i * 10, i * 10 + 10, [[i * 10 + 1, i * 10 + 2, i, 0]]] for i in range(6)]
STAGED_GROUPINGS = [[[i] for i in range(6)], [[0, 1], [2], [3, 4], [5]]]


def staged_sublists(ctx, grouping, ndep):
    """sub-lists of the jobs of one grouping: contiguous blocks (full, leading, tail, middle) and with holes.
    Sub-lists with a hole that contain both chunk 0 and the last chunk are the merge_hole unit's (known) class."""
    n = len(grouping)
    blocks = [list(range(a, b)) for a in range(n) for b in range(a + 1, n + 1)]
    holes = []
    for k in range(2, n):
        for idx in itertools.combinations(range(n), k):
            if list(idx) != list(range(idx[0], idx[-1] + 1)):
                chunks = [c for i in idx for c in grouping[i]]
                if not (min(chunks) == 0 and max(chunks) == ndep - 1):
                    holes.append(list(idx))
    if not ctx.thorough:
        full = [b for b in blocks if len(b) == n]
        lead = [b for b in blocks if b[0] == 0 and len(b) < n]
        tail = [b for b in blocks if b[-1] == n - 1 and len(b) < n]
        mid = [b for b in blocks if b[0] > 0 and b[-1] < n - 1]
        if n > 4:
            mid = ctx.rng.sample(mid, 4)
            holes = ctx.rng.sample(holes, 4)
        else:
            lead, tail, mid, holes = lead[-1:], tail[:1], mid[:1], holes[:1]
        blocks = full + lead + tail + mid
    return [[grouping[i] for i in idx] for idx in blocks + holes]


def staged_eval(case_base, sublists):
    """one directory: direct make, every job of the grouping once, then one merge per sub-list.
    returns [(out, reason)] with out in {'none', 'tagged', 'err N'} (where the merged data went)"""
    layout = unjl(case_base["layout"])
    ndep = len(layout)
    d = newdir()
    res = []
    try:
        src, spath = store_layout(d, layout, "blosc", 4)
        dst = mk_dst(0, 0, 1, 4, "blosc")

        def fresh():
            return context([d], [src, dst])
        st = fresh()
        with quiet():
            final_key = str(st.key_for(RUN, "dst"))
            st.make(RUN, "dst", progress_bar=False)
        fpath = os.path.join(d, final_key)
        direct_bytes = all_bytes(fpath)
        shutil.rmtree(fpath)
        made = set()
        for sub in sublists:
            for g in sub:
                if tuple(g) not in made:
                    with quiet():
                        fresh().make(RUN, "dst", chunk_number={"src": list(g)}, progress_bar=False, processor="single_thread")
                    made.add(tuple(g))
        keep = set(os.listdir(d))
        for sub in sublists:
            combined = [c for g in sub for c in g]
            full = sorted(combined) == list(range(ndep))
            out, reason = None, None
            try:
                with quiet():
                    fresh().merge_per_chunk_storage(RUN, "dst", "src", chunk_number_group=[list(g) for g in sub])
            except Exception as e:  # noqa
                out = "err %s" % err_code(e)
            with quiet():
                st = fresh()
                plain = st.is_stored(RUN, "dst")
                got = st.get_array(RUN, "dst", progress_bar=False).tobytes() if plain else None
                try:
                    tagged = st.is_stored(RUN, "dst", chunk_number={"src": combined}) if not full else False
                except ValueError:      # chunk numbers with a hole are no valid tag
                    tagged = False
            if out is None:
                out = "none" if plain else ("tagged" if tagged else "nowhere")
            if plain and got != direct_bytes:
                reason = ("after merge_per_chunk_storage(chunk_number_group=%s) of a %d-chunk dependency the target is "
                          "reported as stored under the ordinary key but get_array returns %d bytes of rows, the directly "
                          "made data has %d (partial merges must stay under tagged keys or be refused)"
                          % (sub, ndep, len(got), len(direct_bytes)))
            elif full and not plain:
                reason = "merging all per-chunk results (%s) did not produce the data under the ordinary key: %s" % (sub, out)
            res.append((out, reason))
            for x in set(os.listdir(d)) - keep:
                shutil.rmtree(os.path.join(d, x))
        return res
    finally:
        shutil.rmtree(d, ignore_errors=True)


def real_staged(case):
    return staged_eval(case, [case["groups"]])[0]


def line_staged(case):
    groups = case["groups"]
    return "merge_tag %d %d %s" % (len(case["layout"]), len(groups),
                                   " ".join("%d %s" % (len(x), " ".join(str(i) for i in x)) for x in groups))


def run_staged(ctx):
    unit = "staged_merge"
    dist, n, nontriv = {}, 0, set()
    for grouping in STAGED_GROUPINGS:
        base = {"unit": unit, "layout": SIX_CHUNKS}
        subs = staged_sublists(ctx, grouping, len(SIX_CHUNKS))
        cases = [dict(base, groups=sub) for sub in subs]
        mout = lib.run_model("C16", [line_staged(c) for c in cases])
        for case, mo, (out, reason) in zip(cases, mout, staged_eval(base, subs)):
            n += 1
            nontriv.add(lib.canon(case))
            k = "%s (model %s)" % (out, mo)
            dist[k] = dist.get(k, 0) + 1
            if reason:
                ctx.violation(unit, reason, {"input": case, "unit": unit, "impl": out, "model": mo})
            elif out != mo:
                ctx.violation(unit, "model and implementation disagree on where a staged merge is stored (impl %s | model %s), "
                              "groups %s" % (out, mo, case["groups"]),
                              {"input": "corr:C16/%s" % unit, "case": case, "unit": unit, "impl": out, "model": mo},
                              no_failing_input=True)
    ctx.count(unit, n, len(nontriv), dist)


def run_fixed(ctx):
    groups = [("rechunker_same_dir", SAME_DIR_CASES, line_same_dir, real_same_dir),
              ("merge_hole", MERGE_HOLE_CASES, line_perchunk, real_merge_hole),
              ("rechunker_fault", FAULT_CASES, None, real_fault)]
    for unit, cases, line_fn, real_fn in groups:
        mout = lib.run_model("C16", [line_fn(c) for c in cases]) if line_fn else [None] * len(cases)
        dist = {}
        for case, mo in zip(cases, mout):
            out, reason = real_fn(case)
            k = "property fails (finding)" if reason else "property holds"
            dist[k] = dist.get(k, 0) + 1
            if reason:
                ctx.violation(unit, reason, {"input": case, "unit": unit, "impl": out, "model": mo})
            elif mo is not None and out != mo:
                ctx.violation(unit, "model and implementation disagree on %s (impl %s | model %s)" % (unit, out[:400], mo[:400]),
                              {"input": "corr:C16/%s" % unit, "case": case, "unit": unit, "impl": out, "model": mo},
                              no_failing_input=True)
            if mo is not None and reason and out != mo:
                ctx.notes.append("%s: the model predicts %s, the implementation gave %s" % (unit, mo[:300], out[:300]))
        ctx.count(unit, len(cases), len(cases), dist)


FIXED_REAL = {"rechunker_same_dir": real_same_dir, "merge_hole": real_merge_hole, "rechunker_fault": real_fault,
              "staged_merge": real_staged}

# ------------------------------------------------------------------------------------------
# driver
# ------------------------------------------------------------------------------------------

UNITS = {
    "copy": (cases_copy, line_copy, real_copy, None),
    "rechunker": (cases_rechunker, line_rechunker, real_rechunker, norm_model_rechunker),
    "onload": (cases_onload, line_onload, real_onload, None),
    "perchunk": (cases_perchunk, line_perchunk, real_perchunk, None),
}


def dist_key(unit, case, out):
    head = out.split(" ")[0] + (" " + out.split(" ")[1] if out.startswith("err") else "")
    if unit == "copy":
        return "%s rechunk=%d comp=%s dst_state=%d" % (head, case["rechunk"], case["comp"], case["dst_state"])
    if unit == "rechunker":
        return "%s replace=%d parallel=%s rechunk=%d" % (head, case["replace"], case["parallel"], case["rechunk"])
    if unit == "onload":
        return "%s sel=%s %s" % ("ok" if not out.startswith("err") else head, "all" if case["sel"] is None else "some", case["processor"])
    return "%d groups of %d chunks, %s" % (len(case["groups"]), len(case["layout"]), case["processor"])


def coq_store(case):
    chunks = "; ".join("mkchunk (%d) (%d) [%s] 1 1 (Some 7) (%d)" % (
        s, e, "; ".join("mkrow (%d) (%d) (%d) (%d)" % tuple(r) for r in rows), case["md_target"])
        for s, e, rows in unjl(case["layout"]))
    return "(c16_store_of 1 1 %d %d [%s])" % (COMP[case["md_comp"]], case["md_target"], chunks)


def coq_shapes(loaded):
    """'[s e run=7 n=N ids=a,b ch=.. tgt=T] ...' -> Coq term of type option (list (Z * Z * list Z))"""
    if loaded.startswith("err") or loaded == "absent":
        return "None"
    out = []
    for part in loaded.replace("] [", "]|[").split("|"):
        f = part.strip("[]").split()
        ids = f[4][4:]
        out.append("((%s), (%s), [%s])" % (f[0], f[1], "; ".join("(%s)" % x for x in ids.split(",")) if ids else ""))
    return "(Some [%s])" % "; ".join(out)


def crosscheck(ctx, unit, cases, mout):
    """re-evaluate a sample of the model's results inside Coq (vm_compute) against the OCaml driver's output"""
    if unit not in ("copy", "onload") or not cases:
        return
    idxs = sorted(ctx.rng.sample(range(len(cases)), min(25 if ctx.thorough else 8, len(cases))))
    eqs = []
    for i in idxs:
        c, mo = cases[i], mout[i]
        if unit == "copy":
            dst = mo.split(" dst=", 1)[1]
            loaded = "absent" if dst == "absent" else dst.rsplit(" | ", 1)[1].rstrip("}")
            eqs.append("c16_copy_shapes %s (%d) %s %s (%d) = %s" % (
                coq_store(c), c["dst_state"], "None" if c["comp"] is None else "(Some %d)" % COMP[c["comp"]],
                "true" if c["rechunk"] else "false", c["rechunk_to"], coq_shapes(loaded)))
        else:
            sel = "None" if c["sel"] is None else "(Some [%s])" % "; ".join("%d%%nat" % i for i in c["sel"])
            eqs.append("c16_onload_shapes %s %s (%d) = %s" % (coq_store(c), sel, c["tgt"], coq_shapes(mo)))
    n, fails = lib.coq_crosscheck("C16", "From SV Require Import Model.Rows Model.Chunk Model.CopyRechunk Model.C16Run.", eqs)
    ctx.coverage.setdefault("kernel_crosscheck", {})[unit] = {"equations": n, "failed_files": len(fails)}
    if fails:
        ctx.violation(unit, "extracted model and Coq vm_compute disagree: " + fails[0][-400:],
                      {"input": "corr:C16/%s/extraction-crosscheck" % unit, "log": fails[0]}, no_failing_input=True)


def run_unit(ctx, unit):
    gen_cases, line_fn, real_fn, norm = UNITS[unit]
    cases = gen_cases(ctx)
    mout = lib.run_model("C16", [line_fn(c) for c in cases])
    if norm:
        mout = [norm(m) for m in mout]
    nontriv, dist, bad = set(), {}, 0
    for case, mo in zip(cases, mout):
        out, reason = real_fn(case)
        k = dist_key(unit, case, out)
        dist[k] = dist.get(k, 0) + 1
        if nontrivial_layout(unjl(case["layout"])):
            nontriv.add(lib.canon(case))
        if reason:
            ctx.violation(unit, "%s does not preserve the data: %s" % (unit, reason),
                          {"input": case, "unit": unit, "impl": out, "model": mo})
            bad += 1
        elif out != mo:
            ctx.violation(unit, "model and implementation disagree on %s although the data is preserved on this input "
                          "(impl %s | model %s)" % (unit, out[:400], mo[:400]),
                          {"input": "corr:C16/%s" % unit, "case": case, "unit": unit, "impl": out, "model": mo},
                          no_failing_input=True)
            bad += 1
        if bad > 5:
            break
    ctx.count(unit, len(cases), len(nontriv), dist)
    if cases:
        k = len(cases) // 2
        ctx.sample({"unit": unit, "case": cases[k], "model": mout[k][:600]})
    crosscheck(ctx, unit, cases, mout)


def run(ctx):
    ctx.coverage["rule"] = (
        "Stored layouts: five fixed layouts (one eligible gap beyond the target; the same behind an earlier chunk; "
        "empty and zero-duration chunks; overlapping rows; rows ending on a boundary) plus seeded random contiguous "
        "chunkings (<= 9 rows with gaps on both sides of the 1000 ns threshold, zero-length rows, <= 4-5 chunks). "
        "Each layout is written by a source plugin into a DataDirectory and goes through real copy_to_frontend "
        "(compressor x rechunk x target rows x existing/broken destination), strax.rechunker (compressor x target x "
        "rechunk x replace x temp/explicit destination x serial/thread[/process in thorough]), a rechunk_on_load "
        "plugin (all chunks / a chunk_number range, both processors) and per-chunk make for groupings of the "
        "dependency's chunks into consecutive jobs + merge_per_chunk_storage (both processors). "
        "Non-trivial: at least two non-empty stored chunks. Distinct by canonical JSON of the whole case.")
    ctx.assumptions += [
        "compressors and the numpy buffer are an abstract codec in the model; the four real codecs are exercised",
        "rmtree / rename / move of a directory are atomic steps in the model; the real run is observed before and "
        "after every such call (source path classified old / absent / new)",
        "thread / process parallel modes of strax.rechunker are exercised differentially, not modelled",
        "the per-chunk plugin is a row-wise filter + map with one dependency",
    ]
    import threading
    shutil.rmtree(TMPROOT, ignore_errors=True)
    hook = threading.excepthook
    threading.excepthook = lambda args: None     # failures of worker threads are judged by their effects
    try:
        for unit in UNITS:
            run_unit(ctx, unit)
        run_fixed(ctx)
        run_staged(ctx)
    finally:
        threading.excepthook = hook
        shutil.rmtree(TMPROOT, ignore_errors=True)


def replay(ctx, obj):
    import threading
    r = obj["replay"]
    case = r.get("case") if isinstance(r.get("input"), str) else r.get("input")
    unit = case["unit"]
    threading.excepthook = lambda args: None
    try:
        out, reason = (FIXED_REAL[unit] if unit in FIXED_REAL else UNITS[unit][2])(case)
    finally:
        shutil.rmtree(TMPROOT, ignore_errors=True)
    print("impl:", out[:1500])
    print("property:", reason or "holds")
    return 1 if reason else 0
