"""C11 — only what is missing is computed, and only what policy allows is saved.

Correspondence of the extracted planner model (coq/Model/Planner.v) with the real
Context.get_components / get_array / make and both processors' wiring, on generated plugin graphs,
stored subsets, requests, modifiers and storage-frontend filters; plus the property's own
predicates (declarative `needed` set, save-policy table, explicit errors, one origin per topic)
evaluated on the implementation's behaviour.
"""
import copy
import json
import os
import shutil
import time

import strax

from harness import lib
from harness import c11_impl as I

MODEL_PROPS = ["C11"]
LEVEL = "proof"

TMP = os.path.join(lib.BUILD, "tmp", "c11")

# ------------------------------------------------------------------------------------------------
# Canonical (minimised) witnesses of the two findings on the pinned tree
# ------------------------------------------------------------------------------------------------

# D5 (repaired in /repo by e1cd0b8): a multi-output plugin with one stored (loader-fed) output and one output
# that must be recomputed.  Same configuration as coq/Proof/PlannerExamples.v: d5_graph / d5_ctx / d5_req.
# It is replayed on the real threaded processor on every run: a revert of the fix is a VIOLATION with this input.
WITNESS_D5 = {
    "graph": {"n": 3, "kinds": [0, 1, 2],
              "plugins": [{"prov": [0, 1], "deps": [], "sw": [3, 3]},
                          {"prov": [2], "deps": [0, 1], "sw": [3]}]},
    "case": {"frontends": [{"readonly": 0, "take_only": [], "exclude": [], "stored": [0]}],
             "forbid": [], "forbid_all": 0, "fuzzy": 0, "allow_incomplete": 0,
             "targets": [2], "save": [], "time_range": 0, "selection": 0, "columns": 0},
    "processor": "threaded_mailbox",
}

# Several same-kind targets are merged by a temporary plugin before get_components sees them; the
# `TARGET` policy is then evaluated against the temporary target and the user's targets are not saved.
WITNESS_MT = {
    "graph": {"n": 3, "kinds": [0, 1, 1],
              "plugins": [{"prov": [0], "deps": [], "sw": [3]},
                          {"prov": [1], "deps": [0], "sw": [2]},
                          {"prov": [2], "deps": [0], "sw": [2]}]},
    "case": {"frontends": [{"readonly": 0, "take_only": [], "exclude": [], "stored": []}],
             "forbid": [], "forbid_all": 0, "fuzzy": 0, "allow_incomplete": 0,
             "targets": [1, 2], "save": [], "time_range": 0, "selection": 0, "columns": 0},
    "entry": "make",
}


# ------------------------------------------------------------------------------------------------
# Encoding for the model driver / Coq
# ------------------------------------------------------------------------------------------------

def _lst(xs):
    return [len(xs)] + list(xs)


def enc_line(graph, case, mode):
    out = [mode, len(graph["plugins"])]
    for p in graph["plugins"]:
        out.append(len(p["prov"]))
        for d, s in zip(p["prov"], p["sw"]):
            out += [d, s]
        out += _lst(p["deps"])
        out.append(1 if p.get("temp") else 0)
    out += _lst(graph["kinds"])
    out.append(len(case["frontends"]))
    for fe in case["frontends"]:
        out.append(1 if fe["readonly"] else 0)
        out += _lst(fe["take_only"]) + _lst(fe["exclude"]) + _lst(fe["stored"])
    out += _lst(case["forbid"])
    out += [1 if case.get("forbid_all") else 0, 1 if case.get("fuzzy") else 0,
            1 if case.get("allow_incomplete") else 0]
    out += _lst(case["targets"]) + _lst(case["save"])
    out += [1 if case.get("time_range") else 0, 1 if case.get("selection") else 0,
            1 if case.get("columns") else 0]
    return "plan " + " ".join(str(int(x)) for x in out)


def _ints(s):
    return [int(x) for x in s.split(",") if x != ""]


def parse_model(s):
    toks = s.split()
    if toks[0] == "err":
        return {"err": int(toks[1]), "wf": int(toks[2].split("=")[1])}
    if toks[0] != "ok":
        raise RuntimeError("model driver: " + s)
    out = {"err": 0}
    for t in toks[1:]:
        if t.startswith("wf="):
            out["wf"] = int(t[3:])
            continue
        k, v = t.split(":", 1)
        if k in ("T", "P", "L", "F", "R", "C", "MP", "MF", "MS"):
            out[k] = _ints(v)
        elif k == "S":
            out["S"] = {}
            for item in v.split(";"):
                if item:
                    d, fl = item.split("=")
                    out["S"][int(d)] = _ints(fl)
        elif k in ("WP", "WF", "WS"):
            out[k] = v if v.startswith("err") else sorted(x for x in v.split(",") if x)
    return out


def _coq_nats(xs):
    return "[" + "; ".join(str(int(x)) for x in xs) + "]"


def coq_case(graph, case, mode):
    ps = []
    for p in graph["plugins"]:
        outs = "[" + "; ".join("(%d, (%d)%%Z)" % (d, s) for d, s in zip(p["prov"], p["sw"])) + "]"
        ps.append("mkplugin %s %s %s" % (outs, _coq_nats(p["deps"]), "true" if p.get("temp") else "false"))
    fes = []
    for fe in case["frontends"]:
        fes.append("mkfe %s %s %s %s" % ("true" if fe["readonly"] else "false", _coq_nats(fe["take_only"]),
                                         _coq_nats(fe["exclude"]), _coq_nats(fe["stored"])))
    b = lambda k: "true" if case.get(k) else "false"  # noqa
    cx = "(mkctx [%s] %s %s %s %s)" % ("; ".join(fes), _coq_nats(case["forbid"]), b("forbid_all"), b("fuzzy"),
                                      b("allow_incomplete"))
    rq = "(mkreq %s %s %s %s %s)" % (_coq_nats(case["targets"]), _coq_nats(case["save"]), b("time_range"),
                                    b("selection"), b("columns"))
    return "c11_summary %d [%s] %s %s %s" % (mode, "; ".join(ps), _coq_nats(graph["kinds"]), cx, rq)


def coq_expected(m):
    if m["err"]:
        return "Err (%d)%%Z" % m["err"]
    sv = "[" + "; ".join("(%d, %s)" % (d, _coq_nats(fl)) for d, fl in m["S_order"]) + "]"
    return "Ok (%s, %s, %s, %s, %s, %s)" % (_coq_nats(m["P"]), _coq_nats(m["L"]), sv, _coq_nats(m["R"]),
                                            _coq_nats(m["MP"]), _coq_nats(m["MF"]))


# ------------------------------------------------------------------------------------------------
# The property's own predicates (spec side of the theorems), written independently of the model
# ------------------------------------------------------------------------------------------------

def rewrite_targets(graph, targets):
    """get_iter: several targets of one kind -> temporary merge plugin; returns (graph', targets', err)."""
    ded = []
    for t in targets:
        if t not in ded:
            ded.append(t)
    if len(targets) <= 1:
        return graph, ded, 0
    if len({graph["kinds"][t] if t < len(graph["kinds"]) else -1 for t in ded}) != 1:
        return graph, ded, 5
    g2 = copy.deepcopy(graph)
    g2["plugins"].append({"prov": [graph["n"]], "deps": list(ded), "sw": [1], "temp": 1})
    g2["kinds"] = list(graph["kinds"]) + [graph["kinds"][ded[0]]]
    g2["n"] = graph["n"] + 1
    return g2, [graph["n"]], 0


class Spec:
    """Declarative reading of the property for one (graph, case, effective targets)."""

    def __init__(self, graph, case, targets):
        self.g = graph
        self.c = case
        self.targets = list(targets)
        self.prov_of = {}
        for j, p in enumerate(graph["plugins"]):
            for d in p["prov"]:
                self.prov_of.setdefault(d, j)
        self.partial = bool(case.get("time_range") or case.get("selection") or case.get("columns")
                            or case.get("fuzzy") or case.get("allow_incomplete"))
        # needed = least set containing the targets and the dependencies of every needed unstored type
        self.needed = set()
        todo = list(self.targets)
        while todo:
            d = todo.pop()
            if d in self.needed:
                continue
            self.needed.add(d)
            if d in self.prov_of and not self.loadable(d):
                todo += self.g["plugins"][self.prov_of[d]]["deps"]
        self.unknown = [d for d in self.needed if d not in self.prov_of]
        self.compute = {d for d in self.needed if d in self.prov_of and not self.loadable(d)}
        self.load = {d for d in self.needed if d in self.prov_of and self.loadable(d)}
        self.run = sorted({self.prov_of[d] for d in self.compute})

    def takes(self, fe, d):
        return not (d in fe["exclude"] or (fe["take_only"] and d not in fe["take_only"]))

    def loadable(self, d):
        return any(self.takes(fe, d) and d in fe["stored"] for fe in self.c["frontends"])

    def writers(self, d):
        return [k for k, fe in enumerate(self.c["frontends"]) if self.takes(fe, d) and not fe["readonly"]]

    def sw(self, d):
        p = self.g["plugins"][self.prov_of[d]]
        return p["sw"][p["prov"].index(d)]

    def admits(self, d, targets=None):
        """save policy table: ALWAYS / TARGET and a target / EXPLICIT and listed in save= / never for NEVER"""
        targets = self.targets if targets is None else targets
        s = self.sw(d)
        if s == 0:
            return False
        if s == 2:
            return d in targets
        if s == 1:
            return d in self.c["save"]
        return True

    def blocked(self, d):
        return bool(self.c.get("forbid_all") or d in self.c["forbid"]
                    or (self.c.get("time_range") and self.sw(d) > 1))

    def dna_cond(self):
        return any(self.blocked(d) for d in self.compute)

    def value_cond(self):
        for d in self.compute:
            p = self.g["plugins"][self.prov_of[d]]
            if p.get("temp"):
                continue
            if self.sw(d) == 0 and d in self.c["save"]:
                return True
            if not self.partial and (self.admits(d) or len(p["prov"]) > 1):
                for d2 in p["prov"]:
                    if not self.loadable(d2) and self.sw(d2) == 0 and d2 in self.c["save"]:
                        return True
        return False

    def expected_savers(self, targets=None):
        out = {}
        if self.partial:
            return out
        for j in self.run:
            p = self.g["plugins"][j]
            if p.get("temp"):
                continue
            visited = [d for d in p["prov"] if d in self.compute]
            if not any(self.admits(d, targets) or len(p["prov"]) > 1 for d in visited):
                continue
            for d2 in p["prov"]:
                if not self.loadable(d2) and self.admits(d2, targets) and self.writers(d2):
                    out[d2] = self.writers(d2)
        return out


def check_plan_against_spec(sp, obs):
    """Returns None if the implementation's plan `obs` satisfies the planner theorems' statements."""
    if sp.unknown:
        return None if obs["err"] == 4 else "a needed data type has no plugin but no KeyError was raised"
    dna, val = sp.dna_cond(), sp.value_cond()
    if obs["err"] == 0:
        if dna:
            bad = sorted(d for d in sp.compute if sp.blocked(d))
            return "needed unstored data type(s) %s may not be created, yet a plan was returned" % bad
        if val:
            return "a NEVER-saved data type listed in save= is computed, yet no error was raised"
        if set(obs["plugins"]) != sp.compute:
            return "computed %s, but the needed unstored data types are %s" % (sorted(obs["plugins"]), sorted(sp.compute))
        if len(set(obs["plugins"])) != len(obs["plugins"]) or len(set(obs["loaders"])) != len(obs["loaders"]):
            return "duplicate keys"
        if set(obs["loaders"]) != sp.load:
            return "loads %s, but the needed stored data types are %s" % (sorted(obs["loaders"]), sorted(sp.load))
        exp = sp.expected_savers()
        got = {int(k): v for k, v in obs["savers"].items()}
        if got != exp:
            return "savers %s, but the save policies dictate %s" % (got, exp)
        return None
    if obs["err"] == 1:
        return None if dna else "DataNotAvailable raised although every needed unstored type may be created"
    if obs["err"] == 2:
        return None if val else "ValueError raised although no NEVER-saved type listed in save= is computed"
    return "unexpected exception %s: %s" % (obs.get("exc"), obs.get("msg"))


def wiring_one_origin(wires, consumed):
    """wires: list of '<topic><L|P><id>' strings.  None if every topic has at most one sender and every
    consumed topic has one."""
    by = {}
    for w in wires:
        i = 0
        while w[i].isdigit():
            i += 1
        by.setdefault(int(w[:i]), []).append(w[i:])
    multi = sorted(t for t, o in by.items() if len(o) > 1)
    if multi:
        return "topic(s) %s have several producers: %s" % (multi, {t: by[t] for t in multi})
    missing = sorted(t for t in set(consumed) if t not in by)
    if missing:
        return "consumed topic(s) %s have no producer" % missing
    return None


# ------------------------------------------------------------------------------------------------
# Generators
# ------------------------------------------------------------------------------------------------

def fe(stored, readonly=0, take_only=(), exclude=()):
    return {"readonly": readonly, "take_only": list(take_only), "exclude": list(exclude), "stored": list(stored)}


def mk_case(frontends, targets, save=(), **kw):
    c = {"frontends": frontends, "forbid": [], "forbid_all": 0, "fuzzy": 0, "allow_incomplete": 0,
         "targets": list(targets), "save": list(save), "time_range": 0, "selection": 0, "columns": 0}
    c.update(kw)
    return c


FIXED_GRAPHS = [
    # chain with ALWAYS / TARGET / EXPLICIT
    {"n": 3, "kinds": [0, 1, 2], "plugins": [{"prov": [0], "deps": [], "sw": [3]},
                                             {"prov": [1], "deps": [0], "sw": [2]},
                                             {"prov": [2], "deps": [1], "sw": [1]}]},
    # the D5 shape: source, two-output plugin, consumer of both outputs
    {"n": 4, "kinds": [0, 1, 2, 3], "plugins": [{"prov": [0], "deps": [], "sw": [3]},
                                                {"prov": [1, 2], "deps": [0], "sw": [3, 3]},
                                                {"prov": [3], "deps": [1, 2], "sw": [3]}]},
    # multi-output source
    WITNESS_D5["graph"],
    # diamond with a NEVER middle
    {"n": 4, "kinds": [0, 1, 1, 3], "plugins": [{"prov": [0], "deps": [], "sw": [3]},
                                                {"prov": [1], "deps": [0], "sw": [0]},
                                                {"prov": [2], "deps": [0], "sw": [2]},
                                                {"prov": [3], "deps": [2, 1], "sw": [3]}]},
    # per-output policies NEVER / TARGET / ALWAYS (the shape of strax's own test) + EXPLICIT consumer
    {"n": 5, "kinds": [0, 1, 2, 3, 4], "plugins": [{"prov": [0], "deps": [], "sw": [3]},
                                                   {"prov": [1, 2, 3], "deps": [0], "sw": [0, 2, 3]},
                                                   {"prov": [4], "deps": [1], "sw": [1]}]},
]


def gen_graph(rng, nmax):
    n = rng.randint(2, nmax)
    plugins = []
    nxt = 0
    while nxt < n:
        k = 1 if rng.random() < 0.55 else rng.randint(2, 3)
        k = min(k, n - nxt)
        prov = list(range(nxt, nxt + k))
        if nxt == 0 or rng.random() < 0.1:
            deps = []
        else:
            deps = rng.sample(range(nxt), rng.randint(1, min(3, nxt)))
        sw = [rng.choice([0, 1, 2, 3, 3, 3, 2, 1]) for _ in prov]
        plugins.append({"prov": prov, "deps": deps, "sw": sw})
        nxt += k
    if rng.random() < 0.5:
        kinds = list(range(n))
    else:
        nk = max(1, n // 2)
        kinds = [rng.randrange(nk) for _ in range(n)]
    return {"n": n, "kinds": kinds, "plugins": plugins}


def gen_frontends(rng, n):
    out = []
    for _ in range(1 if rng.random() < 0.55 else 2):
        dens = rng.choice([0.15, 0.5, 0.8])
        stored = [d for d in range(n) if rng.random() < dens]
        take = rng.sample(range(n), rng.randint(1, n)) if rng.random() < 0.2 else []
        excl = rng.sample(range(n), rng.randint(1, min(2, n))) if rng.random() < 0.2 else []
        out.append(fe(stored, readonly=1 if rng.random() < 0.22 else 0, take_only=sorted(take), exclude=sorted(excl)))
    return out


def gen_request(rng, graph, frontends):
    n = graph["n"]
    u = rng.random()
    nt = 1 if u < 0.65 else (2 if u < 0.9 else 3)
    pool = list(range(n)) + list(range(n // 2, n))
    targets = [rng.choice(pool) for _ in range(nt)]
    save = [] if rng.random() < 0.3 else [d for d in range(n) if rng.random() < 0.25]
    c = mk_case(frontends, targets, save)
    if rng.random() < 0.12:
        c["time_range"] = 1
    if rng.random() < 0.07:
        c["selection"] = 1
    if rng.random() < 0.07:
        c["columns"] = 1
    v = rng.random()
    if v < 0.06:
        c["fuzzy"] = 1
    elif v < 0.12:
        c["allow_incomplete"] = 1
    if rng.random() < 0.2:
        c["forbid"] = sorted(rng.sample(range(n), rng.randint(1, min(2, n))))
    if rng.random() < 0.04:
        c["forbid_all"] = 1
    return c


def all_subsets(n):
    for m in range(1 << n):
        yield [d for d in range(n) if m >> d & 1]


# ------------------------------------------------------------------------------------------------
# Units
# ------------------------------------------------------------------------------------------------

class _P:
    def __init__(self, sw, d):
        self.save_when = {d: sw}


def unit_should_save(ctx):
    """Context._target_should_be_saved has a finite domain: compare completely."""
    cases, lines = [], []
    for sw in (0, 1, 2, 3):
        for it in (0, 1):
            for isv in (0, 1):
                cases.append((sw, it, isv))
                lines.append("should_save %d %d %d" % (sw, it, isv))
    mout = lib.run_model("C11", lines)
    dist = {"true": 0, "false": 0, "ValueError": 0}
    for (sw, it, isv), mo in zip(cases, mout):
        try:
            r = strax.Context._target_should_be_saved(_P(strax.SaveWhen(sw), "tt"), "tt",
                                                      ("tt",) if it else ("xx",), ("tt",) if isv else ())
            io = "ok %d" % (1 if r else 0)
        except ValueError:
            io = "err 2"
        # the policy table of the property statement
        want = {0: "err 2" if isv else "ok 0", 1: "ok %d" % isv, 2: "ok %d" % it, 3: "ok 1"}[sw]
        dist["ValueError" if io == "err 2" else ("true" if io == "ok 1" else "false")] += 1
        if io != want:
            ctx.violation("should_save", "_target_should_be_saved(save_when=%d, is_target=%d, in_save=%d) = %s, the "
                          "policy table says %s" % (sw, it, isv, io, want),
                          {"input": {"unit": "should_save", "sw": sw, "in_targets": it, "in_save": isv}, "impl": io})
        elif io != mo:
            ctx.violation("should_save", "model/implementation disagree on _target_should_be_saved%s: impl %s model %s"
                          % ((sw, it, isv), io, mo), {"input": "corr:C11/should_save", "case": [sw, it, isv]},
                          no_failing_input=True)
    ctx.count("should_save", len(cases), len(cases), dist)


def _obs_plan_str(o):
    if o["err"]:
        return "err %d" % o["err"]
    return "P:%s L:%s S:%s" % (o["plugins"], sorted(o["loaders"]), sorted((int(k), v) for k, v in o["savers"].items()))


def _model_plan_str(m):
    if m["err"]:
        return "err %d" % m["err"]
    return "P:%s L:%s S:%s" % (m["P"], sorted(m["L"]), sorted(m["S"].items()))


def compare_plan(ctx, unit, graph, case, mode, obs, m, sp, extra=None):
    """Correspondence diff + property predicate for one plan.  Returns True when model and code agree."""
    agree = _obs_plan_str(obs) == _model_plan_str(m)
    if agree and not obs["err"] and len(m["T"]) > 1:
        # the processor takes components.targets[0]; the model gives the admissible candidates
        agree = (not obs["final"] and not m["F"]) or (obs["final"] and obs["final"][0] in m["F"])
    reason = check_plan_against_spec(sp, obs)
    inp = {"graph": graph, "case": case, "mode": mode}
    if extra:
        inp.update(extra)
    if reason:
        ctx.violation(unit, "planner property violated on the implementation: %s (impl %s, model %s)"
                      % (reason, _obs_plan_str(obs), _model_plan_str(m)), {"input": inp, "impl": obs, "model": m})
    elif not agree:
        ctx.violation(unit, "model/implementation disagree (impl %s final %s, model %s final %s) but the planner "
                      "predicates hold on this input" % (_obs_plan_str(obs), obs.get("final"), _model_plan_str(m), m.get("F")),
                      {"input": "corr:C11/%s" % unit, "case": inp, "impl": obs, "model": m}, no_failing_input=True)
    return agree and not reason


class Work:
    """One graph with its classes and master data."""

    def __init__(self, graph, idx):
        self.graph = graph
        self.idx = idx
        self.dir = os.path.join(TMP, "g%03d" % idx)
        self.master = os.path.join(self.dir, "master")
        self.classes = I.build_classes(graph, tag="G%03d" % idx)
        self.dirs = I.prepare_master(graph, self.classes, self.master)

    def close(self):
        shutil.rmtree(self.dir, ignore_errors=True)


def escalated(ctx):
    """Anchors of this property drifted, or a constant the planner model uses could not be re-read."""
    cd = ctx.build.constants_drift if ctx.build else []
    return bool(ctx.drift) or any(k.startswith("SAVEWHEN") or "plugin.py" in k for k in cd)


def build_workload(ctx):
    """[(graph, [(frontends, [request cases])])] — fixed shapes exhaustively, random graphs sampled."""
    rng = ctx.rng
    big = ctx.thorough or escalated(ctx)
    work = []
    # fixed shapes: every stored subset (one frontend) x every single target x save in {(), (target,), NEVER/EXPLICIT types}
    for g in FIXED_GRAPHS:
        groups = []
        n = g["n"]
        for stored in all_subsets(n):
            fes = [fe(stored)]
            reqs = []
            for t in range(n):
                reqs.append(mk_case(fes, [t]))
                reqs.append(mk_case(fes, [t], [t]))
                if big or (t + len(stored)) % 3 == 0:
                    reqs.append(mk_case(fes, [t], [], time_range=1))
                    reqs.append(mk_case(fes, [t], list(range(n))))
                    reqs.append(mk_case(fes, [t], [], forbid=[max(0, t - 1)]))
            if n >= 2:
                reqs.append(mk_case(fes, [n - 1, n - 2]))
            groups.append((fes, reqs))
        work.append((g, groups))
    fixed, work = work, []
    # random graphs
    n_graphs = (420 if ctx.thorough else 110) if big else 45
    n_cfg = 10 if big else 6
    n_req = 9 if big else 7
    for _ in range(n_graphs):
        g = gen_graph(rng, (8 if ctx.thorough else 7) if big else 6)
        groups = []
        if g["n"] <= 4 and rng.random() < 0.5:
            cfgs = [[fe(s)] for s in all_subsets(g["n"])]
        else:
            cfgs = [gen_frontends(rng, g["n"]) for _ in range(n_cfg)]
        for fes in cfgs:
            reqs = [gen_request(rng, g, fes) for _ in range(n_req)]
            if rng.random() < 0.05:
                reqs.append(mk_case(fes, [g["n"]]))      # malformed: unknown target -> KeyError
            groups.append((fes, reqs))
        work.append((g, groups))
    # interleave: a fixed shape after every third random graph, so that a time limit cuts both kinds evenly
    out = []
    for i, w_ in enumerate(work):
        out.append(w_)
        if i % 3 == 2 and fixed:
            out.append(fixed.pop(0))
    return out + fixed


def run(ctx):
    ctx.coverage["rule"] = (
        "plan: 5 fixed graph shapes x every stored subset x every single target x save/time-range/forbid variants, plus "
        "seeded random DAGs (<=6 data types quick, <=7 escalated, <=8 thorough; single- and multi-output plugins with per-output "
        "save_when) x stored subsets (all subsets for <=4 types half of the time, random otherwise) over 1-2 "
        "DataDirectory frontends with readonly/take_only/exclude x random targets/save=/modifiers/forbid_creation_of; "
        "non-trivial = the plan mixes loaded and computed data types, or saves something, or is an explicit error; "
        "distinct by canonical JSON of (graph, case, mode).  exec: a sample of the same cases run end to end "
        "(get_array / make, single-thread; threaded on a sample) comparing compute-call counters, directory "
        "listings and the plan seen inside get_iter.")
    ctx.assumptions.append("fuzzy matching together with allow_incomplete is outside the modelled domain "
                           "(model: explicit Err E_UNSUPPORTED; never generated)")
    ctx.assumptions.append("superruns, chunk_number, combining and multiprocess inlining are outside the model (C14 / C01)")
    shutil.rmtree(TMP, ignore_errors=True)
    os.makedirs(TMP, exist_ok=True)
    try:
        unit_should_save(ctx)
        try:
            _run_main(ctx)
        except I.MasterFailed as e:
            g = copy.deepcopy(e.graph)
            for p in g["plugins"]:
                p["sw"] = [3] * len(p["sw"])
            ctx.violation("exec", "computing and saving a data type from empty storage fails (single-thread processor): %s" % e,
                          {"input": {"graph": g, "case": mk_case([fe([])], [e.d]), "entry": "make",
                                     "processor": "single_thread", "from_scratch": True}})
    finally:
        shutil.rmtree(TMP, ignore_errors=True)


def _run_main(ctx):
    rng = ctx.rng
    t_start = time.time()                              # the (normally no-op) Coq build is not charged to the cases
    budget = (24 * 60) if ctx.thorough else 100      # seconds for plan + exec units (safety net; sizes are count-based)
    work = build_workload(ctx)
    # ---- model side: all plan lines in one batch
    lines, index = [], []
    for gi, (g, groups) in enumerate(work):
        for ci, (fes, reqs) in enumerate(groups):
            for ri, rq in enumerate(reqs):
                index.append((gi, ci, ri))
                lines.append(enc_line(g, rq, 0))
                lines.append(enc_line(g, rq, 1))
    mout = lib.run_model_parallel("C11", lines)
    ctx.notes.append("timing: workload of %d model lines generated and evaluated at %.0fs" % (len(lines), time.time() - t_start))
    model = {}
    for k, key in enumerate(index):
        model[key] = (mout[2 * k], mout[2 * k + 1])

    dist = {"ok": 0, "err_DataNotAvailable": 0, "err_ValueError": 0, "err_KeyError": 0, "err_other": 0,
            "mixed_load_compute": 0, "with_savers": 0, "multi_target": 0, "two_frontends": 0,
            "partial_request": 0, "multi_output_running": 0}
    nontriv = set()
    n_plan = 0
    wiring_stats = {"single_equal": 0, "single_diff": 0, "threaded_eq_both": 0, "threaded_eq_pinned_only": 0,
                    "threaded_eq_fixed_only": 0, "threaded_neither": 0}
    d5_cases = []            # cases where the two candidate wirings differ (a loader-fed output of a running multi-output plugin)
    exec_pool = []
    crosscheck = []
    stop = False
    n_graph_done = 0
    for gi, (g, groups) in enumerate(work):
        if stop:
            break
        w = Work(g, gi)
        try:
            for ci, (fes, reqs) in enumerate(groups):
                if time.time() - t_start > budget * 0.6 or len(ctx.violations) >= 20:
                    stop = True
                    break
                cfg_dir = os.path.join(w.dir, "cfg")
                paths = I.make_dirs(reqs[0], w.master, w.dirs, cfg_dir)
                for ri, rq in enumerate(reqs):
                    m0 = parse_model(model[(gi, ci, ri)][0])
                    if m0.get("wf") != 1:
                        raise RuntimeError("generator produced an ill-formed graph: %s" % g)
                    st = I.make_context(g, w.classes, rq, paths)
                    obs, comps = I.observe_components(st, g, rq)
                    sp = Spec(g, rq, rq["targets"])
                    ok = compare_plan(ctx, "plan", g, rq, 0, obs, m0, sp)
                    n_plan += 1
                    # statistics
                    if obs["err"] == 0:
                        dist["ok"] += 1
                        if obs["loaders"] and obs["plugins"]:
                            dist["mixed_load_compute"] += 1
                        if obs["savers"]:
                            dist["with_savers"] += 1
                    else:
                        dist[{1: "err_DataNotAvailable", 2: "err_ValueError", 4: "err_KeyError"}.get(obs["err"], "err_other")] += 1
                    if len(set(rq["targets"])) > 1:
                        dist["multi_target"] += 1
                    if len(fes) > 1:
                        dist["two_frontends"] += 1
                    if sp.partial:
                        dist["partial_request"] += 1
                    if obs["err"] or (obs["loaders"] and obs["plugins"]) or obs["savers"]:
                        nontriv.add(lib.canon([g, rq, 0]))
                    if len(crosscheck) < 400 and rng.random() < 0.08:
                        crosscheck.append((g, rq, 0, model[(gi, ci, ri)][0]))
                    # ---- wiring of both processors on this plan
                    if ok and comps is not None and m0["F"]:
                        if any(len(g["plugins"][j]["prov"]) > 1 for j in m0["R"] if j < len(g["plugins"])):
                            dist["multi_output_running"] += 1
                        _wiring(ctx, g, rq, comps, m0, wiring_stats, d5_cases)
                    exec_pool.append((gi, ci, ri))
                    for p in paths:
                        I.clean_temp(p)      # savers made by get_components leave *_temp directories behind
            n_graph_done += 1
        finally:
            w.close()
    ctx.count("plan", n_plan, len(nontriv), dist)
    ctx.notes.append("timing: plan unit finished at %.0fs" % (time.time() - t_start))
    ctx.coverage.setdefault("wiring", {}).update(wiring_stats)
    ctx.notes.append("plan unit: %d graphs of %d generated were run inside the time budget" % (n_graph_done, len(work)))
    if lines:
        k = len(index) // 3
        ctx.sample({"unit": "plan", "line": lines[2 * k], "model": mout[2 * k]})

    # ---- which wiring does the code implement?
    code_wiring = _decide_wiring(ctx, wiring_stats)
    ctx.coverage["threaded_wiring_matches"] = code_wiring

    # ---- end-to-end executions
    _unit_exec(ctx, work, model, exec_pool, t_start, budget, code_wiring)

    ctx.notes.append("timing: exec unit finished at %.0fs" % (time.time() - t_start))
    # ---- D5: dynamic confirmation on the real threaded processor
    _unit_d5(ctx, work, d5_cases, code_wiring)

    # ---- multi-target policy finding
    _unit_multi_target(ctx)

    ctx.notes.append("timing: finding units finished at %.0fs" % (time.time() - t_start))
    # ---- kernel cross-check of the extraction
    eqs = []
    for (g, rq, mode, mo) in crosscheck[:80 if not ctx.thorough else 400]:
        m = parse_model(mo)
        if not m["err"]:
            # savers in the driver's order
            m["S_order"] = []
            for tok in mo.split():
                if tok.startswith("S:"):
                    for item in tok[2:].split(";"):
                        if item:
                            d, fl = item.split("=")
                            m["S_order"].append((int(d), _ints(fl)))
        eqs.append("%s = %s" % (coq_case(g, rq, mode), coq_expected(m)))
    n, fails = lib.coq_crosscheck("C11", "From SV Require Import Model.Planner Model.C11Run.\nOpen Scope nat_scope.", eqs)
    ctx.coverage.setdefault("kernel_crosscheck", {})["plan"] = {"equations": n, "failed_files": len(fails)}
    if fails:
        ctx.violation("plan", "extracted model and Coq vm_compute disagree: " + fails[0][-400:],
                      {"input": "corr:C11/plan/extraction-crosscheck", "log": fails[0]}, no_failing_input=True)


def _wiring(ctx, g, rq, comps, m, stats, d5_cases):
    sw_ = I.observe_single_wiring(comps, g)
    inp = {"graph": g, "case": rq, "mode": 0}
    if sw_["err"]:
        got = "err%d" % sw_["err"]
    else:
        got = sw_["wires"]
    if got == m["WS"]:
        stats["single_equal"] += 1
    else:
        stats["single_diff"] += 1
    if sw_["err"] or (not sw_["err"] and wiring_one_origin(sw_["wires"], m["C"])):
        why = sw_.get("msg") or wiring_one_origin(sw_["wires"], m["C"])
        ctx.violation("one_origin_single", "single-thread processor: %s" % why,
                      {"input": dict(inp, processor="single_thread"), "impl": sw_, "model": m["WS"]})
    elif got != m["WS"]:
        ctx.violation("one_origin_single", "model/implementation disagree on the post-office wiring (impl %s, model %s)"
                      % (got, m["WS"]), {"input": "corr:C11/wiring_single", "case": inp}, no_failing_input=True)
    tw = I.observe_threaded_wiring(comps, g)
    if tw["err"]:
        stats["threaded_neither"] += 1
        ctx.violation("one_origin_threaded", "ThreadedMailboxProcessor could not be built: %s" % tw.get("msg"),
                      {"input": dict(inp, processor="threaded_mailbox"), "impl": tw})
        return
    eq_p, eq_f = tw["wires"] == m["WP"], tw["wires"] == m["WF"]
    if eq_p and eq_f:
        stats["threaded_eq_both"] += 1
    elif eq_p:
        stats["threaded_eq_pinned_only"] += 1
    elif eq_f:
        stats["threaded_eq_fixed_only"] += 1
    else:
        stats["threaded_neither"] += 1
        ctx.violation("wiring_threaded", "model/implementation disagree on the mailbox wiring (impl %s, pinned model %s, "
                      "fixed model %s)" % (tw["wires"], m["WP"], m["WF"]),
                      {"input": "corr:C11/wiring_threaded", "case": inp}, no_failing_input=True)
    if m["WP"] != m["WF"]:
        d5_cases.append((g, rq, tw["wires"], wiring_one_origin(tw["wires"], m["C"])))


def _decide_wiring(ctx, s):
    if s["threaded_neither"]:
        r = "neither"
    elif s["threaded_eq_pinned_only"] and not s["threaded_eq_fixed_only"]:
        r = "wiring_pinned"
    elif s["threaded_eq_fixed_only"] and not s["threaded_eq_pinned_only"]:
        r = "wiring_fixed"
    elif not s["threaded_eq_pinned_only"] and not s["threaded_eq_fixed_only"]:
        r = "undetermined (no generated case distinguishes the two)"
    else:
        r = "mixed"
    ctx.notes.append("ThreadedMailboxProcessor wiring of the code under test matches the model's %s; expected: "
                     "wiring_fixed (since /repo e1cd0b8) (cases where the pre-fix wiring_pinned and wiring_fixed "
                     "differ: pinned %d, fixed %d)" % (r, s["threaded_eq_pinned_only"], s["threaded_eq_fixed_only"]))
    return r


def check_exec_against_spec(graph, case, entry, ob):
    """End-to-end predicate: what ran, what was saved, what came back.  None if fine."""
    g2, t2, rerr = rewrite_targets(graph, case["targets"])
    n_real = len(graph["plugins"])
    sp_user = Spec(graph, case, case["targets"])
    if entry == "make" and all(sp_user.loadable(t) for t in case["targets"] if t in sp_user.prov_of) \
            and not sp_user.unknown:
        if ob["err"] or ob["counts"] or ob["after"] != ob["before"]:
            return "make of fully stored targets did something: %s" % {k: ob[k] for k in ("err", "counts", "after")}
        return None
    if rerr:
        return None if ob["err"] == 5 else "targets of different kinds were not refused"
    sp = Spec(g2, case, t2)
    if sp.unknown:
        return None if ob["err"] == 4 else "unknown target: expected KeyError"
    dna, val = sp.dna_cond(), sp.value_cond()
    if dna or val:
        if ob["err"] == 0:
            return "request succeeded although %s" % ("a needed unstored type may not be created" if dna else
                                                       "a NEVER-saved type is listed in save=")
        if ob["counts"]:
            return "an error was raised but plugins were computed first: %s" % ob["counts"]
        if ob["after"] != ob["before"]:
            return "an error was raised but storage changed"
        return None
    if ob["err"]:
        return "unexpected failure %s: %s" % (ob.get("exc"), ob.get("msg"))
    ran = {j for j, c in ob["counts"].items() if c > 0}
    want = {j for j in sp.run if j < n_real}
    if ran != want:
        return "plugins %s computed, but exactly %s have a needed unstored output" % (sorted(ran), sorted(want))
    if any(c != I.N_CHUNKS for c in ob["counts"].values()):
        return "a plugin was called %s times for %d chunks (delivered more or less than once)" % (ob["counts"], I.N_CHUNKS)
    exp = sp.expected_savers()
    for k, (b, a) in enumerate(zip(ob["before"], ob["after"])):
        want_after = sorted(set(b) | {d for d, fl in exp.items() if k in fl})
        if a != want_after:
            return "frontend %d holds %s afterwards, the save policies dictate %s" % (k, a, want_after)
    if entry != "make":
        if ob["rows"] != I.N_CHUNKS * I.ROWS_PER_CHUNK:
            return "got %s rows, expected %d" % (ob["rows"], I.N_CHUNKS * I.ROWS_PER_CHUNK)
    return None


def _exec_one(w, g, rq, entry, processor, tag="x", timeout=8):
    paths = I.make_dirs(rq, w.master, w.dirs, os.path.join(w.dir, tag))
    st = I.make_context(g, w.classes, rq, paths, timeout=timeout)
    return I.run_exec(st, g, rq, paths, entry=entry, processor=processor)


def _unit_exec(ctx, work, model, pool, t_start, budget, code_wiring):
    rng = ctx.rng
    n_want = 12000 if ctx.thorough else 600
    pool = list(pool)
    rng.shuffle(pool)
    pool = sorted(pool[:n_want])
    dist = {"get_array": 0, "make": 0, "ok": 0, "error": 0, "threaded": 0, "multi_target_merged": 0}
    nontriv = set()
    n = 0
    cur_gi, w = None, None
    try:
        for (gi, ci, ri) in pool:
            if time.time() - t_start > budget * 0.9 or len(ctx.violations) >= 20:
                ctx.notes.append("exec unit stopped at the time budget after %d cases" % n)
                break
            g, groups = work[gi]
            rq = groups[ci][1][ri]
            if rq["targets"] and max(rq["targets"]) >= g["n"]:
                continue
            if gi != cur_gi:
                if w:
                    w.close()
                w = Work(g, gi)
                cur_gi = gi
            m1 = parse_model(model[(gi, ci, ri)][1])
            entry = "make" if rng.random() < 0.3 else "get_array"
            ob = _exec_one(w, g, rq, entry, "single_thread")
            n += 1
            dist[entry] += 1
            dist["ok" if not ob["err"] else "error"] += 1
            reason = check_exec_against_spec(g, rq, entry, ob)
            inp = {"graph": g, "case": rq, "entry": entry, "processor": "single_thread"}
            # correspondence with the model's plan as seen inside get_iter
            agree = True
            if ob["components"] is not None:
                if m1["err"]:
                    agree = False
                else:
                    agree = _obs_plan_str(ob["components"]) == _model_plan_str(m1)
                    if len(m1["T"]) == 1 and m1["T"][0] == g["n"]:
                        dist["multi_target_merged"] += 1
            elif ob["n_plans"] == 0 and not ob["err"] and entry == "make":
                agree = True
            else:
                agree = (ob["err"] == m1["err"])
            if reason:
                ctx.violation("exec", "end-to-end request violates the property: %s" % reason,
                              {"input": inp, "impl": ob, "model": m1})
            elif not agree:
                ctx.violation("exec", "model/implementation disagree on the plan inside get_iter (impl %s, model %s)"
                              % (ob["components"] and _obs_plan_str(ob["components"]) or ob["err"], _model_plan_str(m1)),
                              {"input": "corr:C11/exec", "case": inp, "impl": ob, "model": m1}, no_failing_input=True)
            if ob["err"] or (ob["counts"] and ob["components"] and ob["components"]["loaders"]) or ob["after"] != ob["before"]:
                nontriv.add(lib.canon([g, rq, entry]))
            if not reason and not ob["err"] and len(rq["targets"]) > 1:
                mt = user_target_deviation(g, rq, ob)
                if mt:
                    dist["user_target_policy_deviation"] = dist.get("user_target_policy_deviation", 0) + 1
                    ctx.coverage.setdefault("multi_target_deviation_example", {"graph": g, "case": rq, "entry": entry, "what": mt})
            # the threaded processor (on code with the pre-fix wiring only where both candidate wirings agree;
            # the cases in between belong to the one_origin_threaded unit)
            sibling = not m1["err"] and m1["WP"] != m1["WF"]
            if sibling:
                dist["loader_fed_sibling"] = dist.get("loader_fed_sibling", 0) + 1
            if not reason and not ob["err"] and not m1["err"] and ob["components"] is not None \
                    and ((not sibling and rng.random() < 0.25) or (sibling and code_wiring == "wiring_fixed")):
                ob2 = _exec_one(w, g, rq, entry, "threaded_mailbox", tag="y")
                dist["threaded"] += 1
                r2 = check_exec_against_spec(g, rq, entry, ob2)
                if not r2 and ob2["multi_sender_mailboxes"]:
                    r2 = "mailboxes with several sending threads: %s" % ob2["multi_sender_mailboxes"]
                if r2 and "imeout" in (str(ob2.get("exc")) + str(ob2.get("msg"))):
                    # a mailbox timeout on a loaded machine is not evidence about the planner
                    dist["threaded_timeouts_ignored"] = dist.get("threaded_timeouts_ignored", 0) + 1
                    r2 = None
                if r2:
                    ctx.violation("exec_threaded", "threaded processor: %s" % r2,
                                  {"input": dict(inp, processor="threaded_mailbox"), "impl": ob2, "model": m1})
            if n == 5:
                ctx.sample({"unit": "exec", "graph": g, "case": rq, "entry": entry,
                            "counts": ob["counts"], "before": ob["before"], "after": ob["after"]})
    finally:
        if w:
            w.close()
    ctx.count("exec", n, len(nontriv), dist)


def static_threaded_origin(w, graph, case, tag="d5c"):
    """Build the real ThreadedMailboxProcessor for the request (threads are not started) and evaluate
    `exactly one producer per consumed topic` on its mailboxes.  Returns (reason or None, wires)."""
    paths = I.make_dirs(case, w.master, w.dirs, os.path.join(w.dir, tag))
    st = I.make_context(graph, w.classes, case, paths)
    obs, comps = I.observe_components(st, graph, case)
    if comps is None:
        return None, None
    m = parse_model(lib.run_model("C11", [enc_line(graph, case, 0)])[0])
    tw = I.observe_threaded_wiring(comps, graph)
    if tw["err"]:
        return "processor could not be built: %s" % tw.get("msg"), None
    return wiring_one_origin(tw["wires"], m.get("C", [])), tw["wires"]


def replay_d5(graph, case, idx=900):
    """The request on the real threaded processor: static wiring predicate + an actual run.
    Returns (reason or None, run observation, single-thread reason or None)."""
    w = Work(graph, idx)
    try:
        static_reason, wires = static_threaded_origin(w, graph, case)
        # (a run that survives the double sender leaves a starved thread waiting for the mailbox timeout)
        ob = _exec_one(w, graph, case, "get_array", "threaded_mailbox", tag="d5", timeout=2)
        ob["static_wiring"] = wires
        dyn = check_exec_against_spec(graph, case, "get_array", ob)
        if not dyn and ob["multi_sender_mailboxes"]:
            dyn = "mailboxes with several sending threads: %s" % ob["multi_sender_mailboxes"]
        ob["run_fails"] = dyn
        reason = None
        if static_reason:
            reason = static_reason + ("; the run dies: %s" % dyn if dyn else "; this run happened to survive")
        elif dyn:
            reason = dyn
        # the same request on the single-thread processor must be fine
        ob1 = _exec_one(w, graph, case, "get_array", "single_thread", tag="d5s")
        r1 = check_exec_against_spec(graph, case, "get_array", ob1)
        return reason, ob, r1
    finally:
        w.close()


def _unit_d5(ctx, work, d5_cases, code_wiring):
    """one_origin_per_topic on the real ThreadedMailboxProcessor."""
    bad = [c for c in d5_cases if c[3]]
    dist = {"cases_with_loader_fed_sibling": len(d5_cases), "static_double_sender": len(bad), "dynamic_runs": 0,
            "dynamic_failures": 0}
    for (g, rq, wires, why) in d5_cases[: (40 if ctx.thorough else 4)]:
        if len(set(rq["targets"])) != 1:
            continue
        reason, ob, r1 = replay_d5(g, dict(rq, targets=[rq["targets"][0]]), idx=901)
        dist["dynamic_runs"] += 1
        if ob.get("run_fails"):
            dist["dynamic_failures"] += 1
            if not why and "imeout" not in str(ob.get("run_fails")):
                ctx.violation("one_origin_threaded", "threaded run fails on a request with a loader-fed sibling output "
                              "although the wiring has one producer per topic: %s" % ob["run_fails"],
                              {"input": {"graph": g, "case": dict(rq, targets=[rq["targets"][0]]),
                                         "processor": "threaded_mailbox"}})
        if r1:
            ctx.violation("exec", "single-thread processor fails on a loader-fed-sibling case: %s" % r1,
                          {"input": {"graph": g, "case": rq, "entry": "get_array", "processor": "single_thread"}})
    # the canonical witness (the Coq `_refuted` configuration) is always replayed
    reason, ob, r1 = replay_d5(WITNESS_D5["graph"], WITNESS_D5["case"], idx=902)
    dist["witness_fails"] = 1 if reason else 0
    ctx.count("one_origin_threaded", len(d5_cases) + 1, len(d5_cases) + 1, dist)
    ctx.coverage["d5_witness"] = {"fails_on_code": bool(reason), "what": reason, "single_thread_ok": not r1,
                                  "run": {k: ob.get(k) for k in ("err", "exc", "msg", "static_wiring")}}
    if r1:
        ctx.violation("exec", "single-thread processor fails on the D5 witness: %s" % r1,
                      {"input": dict(WITNESS_D5_INPUT, processor="single_thread", entry="get_array")})
    if reason:
        ctx.violation("one_origin_threaded",
                      "ThreadedMailboxProcessor wires the divider of a multi-output plugin to the mailbox of an output that "
                      "is loader-fed (two producers for one topic): %s" % reason, {"input": WITNESS_D5_INPUT})
    elif bad:
        g, rq, wires, why = bad[0]
        ctx.violation("one_origin_threaded", "ThreadedMailboxProcessor: %s" % why,
                      {"input": {"graph": g, "case": rq, "processor": "threaded_mailbox"}, "wires": wires})


WITNESS_D5_INPUT = {"graph": WITNESS_D5["graph"], "case": WITNESS_D5["case"], "processor": "threaded_mailbox"}
WITNESS_MT_INPUT = {"graph": WITNESS_MT["graph"], "case": WITNESS_MT["case"], "entry": "make"}


def user_target_deviation(graph, case, ob):
    """The save-policy table read against the targets the *user* listed (not the temporary merge target)."""
    g2, t2, _ = rewrite_targets(graph, case["targets"])
    sp = Spec(g2, case, t2)
    exp_user = sp.expected_savers(targets=list(case["targets"]) + t2)
    for k, (b, a) in enumerate(zip(ob["before"], ob["after"])):
        want_after = sorted(set(b) | {d for d, fl in exp_user.items() if k in fl})
        if a != want_after:
            return ("frontend %d holds %s afterwards; with the requested targets %s the save policies dictate %s"
                    % (k, a, case["targets"], want_after))
    return None


def replay_mt(graph, case, entry="make", idx=903):
    """Policy table against the *user's* targets.  Returns reason or None."""
    w = Work(graph, idx)
    try:
        ob = _exec_one(w, graph, case, entry, "single_thread", tag="mt")
        if ob["err"]:
            return "failed: %s" % ob.get("msg"), ob
        return user_target_deviation(graph, case, ob), ob
    finally:
        w.close()


def _unit_multi_target(ctx):
    reason, ob = replay_mt(WITNESS_MT["graph"], WITNESS_MT["case"])
    ctx.count("saves_by_policy_user_targets", 1, 1, {"witness_fails": 1 if reason else 0})
    ctx.coverage["multi_target_witness"] = {"fails_on_code": bool(reason), "what": reason}
    if reason:
        ctx.violation("saves_by_policy_user_targets",
                      "several same-kind targets are replaced by a temporary merge target before the save policy is "
                      "evaluated, so SaveWhen.TARGET outputs that the user asked for are not saved: %s" % reason,
                      {"input": WITNESS_MT_INPUT})


# ------------------------------------------------------------------------------------------------
# Replay
# ------------------------------------------------------------------------------------------------

def replay(ctx, obj):
    r = obj["replay"]
    inp = r.get("input")
    if not isinstance(inp, dict):
        inp = r.get("case")
    if not isinstance(inp, dict):
        print("nothing to replay:", r)
        return 0
    os.makedirs(TMP, exist_ok=True)
    try:
        if inp.get("unit") == "should_save":
            try:
                res = strax.Context._target_should_be_saved(_P(strax.SaveWhen(inp["sw"]), "tt"), "tt",
                                                            ("tt",) if inp["in_targets"] else ("xx",),
                                                            ("tt",) if inp["in_save"] else ())
            except ValueError:
                res = "ValueError"
            print("impl:", res)
            want = {0: "ValueError" if inp["in_save"] else False, 1: bool(inp["in_save"]),
                    2: bool(inp["in_targets"]), 3: True}[inp["sw"]]
            return 0 if res == want else 1
        g, case = inp["graph"], inp["case"]
        if inp.get("from_scratch"):
            try:
                Work(g, 906).close()
            except I.MasterFailed as e:
                print("impl:", e)
                print("property: violated (nothing stored, nothing forbidden, yet the request fails)")
                return 1
            print("property: holds")
            return 0
        if obj.get("unit") == "saves_by_policy_user_targets":
            reason, ob = replay_mt(g, case, inp.get("entry", "make"))
            print("impl:", {k: ob.get(k) for k in ("err", "msg", "counts", "before", "after")})
            print("property:", reason or "holds")
            return 1 if reason else 0
        if inp.get("processor") == "threaded_mailbox":
            reason, ob, r1 = replay_d5(g, case)
            print("impl (threaded):", {k: ob.get(k) for k in ("err", "exc", "msg", "counts", "static_wiring", "senders")})
            print("property:", reason or "holds", "| single-thread:", r1 or "holds")
            return 1 if reason else 0
        if "entry" in inp:
            w = Work(g, 904)
            try:
                ob = _exec_one(w, g, case, inp["entry"], inp.get("processor", "single_thread"))
            finally:
                w.close()
            reason = check_exec_against_spec(g, case, inp["entry"], ob)
            print("impl:", {k: ob.get(k) for k in ("err", "exc", "msg", "counts", "before", "after", "rows")})
            print("property:", reason or "holds")
            return 1 if reason else 0
        # a plan
        w = Work(g, 905)
        try:
            paths = I.make_dirs(case, w.master, w.dirs, os.path.join(w.dir, "cfg"))
            st = I.make_context(g, w.classes, case, paths)
            obs, comps = I.observe_components(st, g, case)
            reason = check_plan_against_spec(Spec(g, case, case["targets"]), obs)
            print("impl:", obs)
            if not reason and comps is not None:
                m = parse_model(lib.run_model("C11", [enc_line(g, case, 0)])[0])
                sw_ = I.observe_single_wiring(comps, g)
                if sw_["err"]:
                    reason = "single-thread wiring: %s" % sw_.get("msg")
                else:
                    reason = wiring_one_origin(sw_["wires"], m.get("C", []))
            print("property:", reason or "holds")
            return 1 if reason else 0
        finally:
            w.close()
    finally:
        shutil.rmtree(TMP, ignore_errors=True)
