"""Extraction cross-check for C01: turn a driver line (see driver/c01_main.ml) into a Coq term, so that
`eval_graph` can be re-evaluated inside Coq by vm_compute and compared with the OCaml driver's answer."""

NONE_RUN = -999999


def z(n):
    n = int(n)
    return "(%d)" % n if n < 0 else str(n)


def zlist(l):
    return "[" + "; ".join(z(x) for x in l) + "]"


class Toks:
    def __init__(self, toks):
        self.t = [int(x) for x in toks]
        self.i = 0

    def next(self):
        v = self.t[self.i]
        self.i += 1
        return v

    def take(self, n):
        v = self.t[self.i:self.i + n]
        self.i += n
        return v


def rows_term(tk):
    n = tk.next()
    rows = []
    for _ in range(n):
        t, e, rid, v = tk.take(4)
        rows.append("mkrow %s %s %s %s" % (z(t), z(e), z(rid), z(v)))
    return "[" + "; ".join(rows) + "]"


def chunk_term(tk):
    s, e, dt, kind, run, tgt = tk.take(6)
    rows = rows_term(tk)
    runt = "None" if run == NONE_RUN else "(Some %s)" % z(run)
    return "mkchunk %s %s %s %s %s %s %s" % (z(s), z(e), rows, z(dt), z(kind), runt, z(tgt))


def comp_term(tk):
    code = tk.next()
    if code == 0:
        return "CSrc"
    if code == 1:
        a, b = tk.take(2)
        return "(CLocal (h_rowwise %s %s))" % (z(a), z(b))
    if code == 2:
        a, b, md, rem = tk.take(4)
        return "(CLocal (h_filter %s %s %s %s))" % (z(a), z(b), z(md), z(rem))
    if code == 3:
        a, b, nm = tk.take(3)
        return "(CExhaust (f_exhaust %s %s %s))" % (z(a), z(b), z(nm))
    if code == 4:
        a, b, k = tk.take(3)
        return "(CDown (h_rowwise %s %s) (down_cut %d%%nat))" % (z(a), z(b), k)
    if code == 5:
        a1, a2, b, nb = tk.take(4)
        return "(CPair true (h_merge2 %s %s %s) %s)" % (z(a1), z(a2), z(b), zlist(tk.take(nb)))
    if code == 6:
        a1, a2, b, md, rem, nb = tk.take(6)
        return "(CPair true (h_merge2_filter %s %s %s %s %s) %s)" % (z(a1), z(a2), z(b), z(md), z(rem), zlist(tk.take(nb)))
    if code == 7:
        a, b, nb = tk.take(3)
        return "(CPair false (h_loop %s %s) %s)" % (z(a), z(b), zlist(tk.take(nb)))
    raise ValueError(code)


def parse_line(line):
    toks = line.split()
    assert toks[0] == "eval"
    tk = Toks(toks[1:])
    k = tk.next()
    nodes, givens = [], []
    for _ in range(k):
        nid = tk.next()
        nd = tk.next()
        deps = tk.take(nd)
        comp = comp_term(tk)
        dt, kind, run, tgt, save, given = tk.take(6)
        runt = "None" if run == NONE_RUN else "(Some %s)" % z(run)
        nodes.append("mknode %s %s %s (mkometa %s %s %s %s)" % (z(nid), zlist(deps), comp, z(dt), z(kind), runt, z(tgt)))
        if given == 1:
            nc = tk.next()
            givens.append((nid, "[" + "; ".join(chunk_term(tk) for _ in range(nc)) + "]"))
    return nodes, givens


def equation(line, target_id, expected_stream):
    """Coq equation: the target's stream computed by eval_graph inside Coq = what the OCaml driver printed.
    expected_stream: list of [start, end, [ids]] or None when the driver reported an error."""
    nodes, givens = parse_line(line)
    given = "(fun d => " + "".join("if d =? %s then Some %s else " % (z(d), cs) for d, cs in givens) + "None)"
    lhs = ("match eval_graph (fun bs => align_by_bounds bs) %s [] [%s] with "
           "| Ok env => option_map (map (fun c => (cstart c, cend c, map rid (crows c)))) (lookup %s env) "
           "| Err _ => None end" % (given, "; ".join(nodes), z(target_id)))
    if expected_stream is None:
        rhs = "None"
    else:
        rhs = "Some [" + "; ".join("(%s, %s, %s)" % (z(s), z(e), zlist(ids)) for s, e, ids in expected_stream) + "]"
    return "(%s) = %s" % (lhs, rhs)


IMPORTS = "From SV Require Import Model.Rows Model.SplitArray Model.Chunk Model.Rechunker Model.Network.\n"
