"""C15 - loading many runs in parallel equals loading them one by one.

Units
  multi_run/fake      real strax.utils.multi_run driven by a fake executor (every admissible completion
                      order / batching for small scopes, random beyond) vs Model/MultiRun.v and vs the
                      sequential oracle
  multi_run/threads   the same with the real ThreadPoolExecutor and gated per-run functions
  ctx_race/*, context_multi_run/os_schedule   see c15_ctx (the Context code shared by the workers)
"""
import contextlib
import io
import json
import logging
import os
import sys

import numpy as np
import strax

from harness import lib
from harness.props import c15_mr as mr

MODEL_PROPS = ["C15"]
LEVEL = "proof"


@contextlib.contextmanager
def quiet():
    """strax prints (e.g. 'Source finished!') and logs; the check may only print verdict lines."""
    old_out = sys.stdout
    sys.stdout = io.StringIO()
    logging.disable(logging.CRITICAL)
    try:
        yield
    finally:
        sys.stdout = old_out
        logging.disable(logging.NOTSET)


# ------------------------------------------------------------------------------------------------
# multi_run
# ------------------------------------------------------------------------------------------------

NAME_STYLES = ["padded", "unpadded", "mixed", "super", "dup"]


def make_names(rng, n, style):
    if style == "padded":
        pool = ["%03d" % i for i in rng.sample(range(1, 60), n)]
    elif style == "unpadded":
        pool = [str(i) for i in rng.sample([1, 2, 3, 9, 10, 11, 19, 20, 100, 101], n)]
    elif style == "mixed":
        pool = rng.sample(["a", "ab", "b", "B", "0", "00", "z9", "Z", "10", "2"], n)
    elif style == "super":
        pool = ["%03d" % i for i in rng.sample(range(1, 60), n)]
        pool[rng.randrange(n)] = "_sup%d" % rng.randint(0, 9)
    else:  # duplicates
        base = ["%03d" % i for i in rng.sample(range(1, 60), max(1, n - 1))]
        pool = base + [rng.choice(base)] if n > 1 else base
    rng.shuffle(pool)
    return pool


def mr_case(rng, n, w, schedule, style=None, fails_mode=None):
    style = style or rng.choice(NAME_STYLES)
    names = make_names(rng, n, style)
    payload = {}
    for i, nm in enumerate(sorted(set(names))):
        k = rng.choice([0, 1, 2, 2, 3])
        payload[nm] = [100 * (i + 1) + j for j in range(k)]
    fails_mode = fails_mode if fails_mode is not None else rng.choice([0, 0, 1, 1, 2])
    fails = set(rng.sample(sorted(set(names)), min(fails_mode, len(set(names)))))
    ignore = rng.random() < 0.5
    throw = rng.random() < 0.2
    addid_kw = rng.choice([None, None, None, True, False])
    as_bytes = rng.random() < 0.15
    return dict(names=names, w=w, schedule=schedule, payload=payload, fails=sorted(fails), ignore=ignore,
                throw=throw, addid_kw=addid_kw, as_bytes=as_bytes, style=style)


def mr_addid(case):
    if case["addid_kw"] is not None:
        return bool(case["addid_kw"])
    return not any(r.startswith("_") for r in case["names"])


def mr_eval(case, mode):
    """run the implementation on one case; returns (canonical line, spec verdict, realised schedule)"""
    names, w = case["names"], case["w"]
    rank = mr.rank_table(names)
    fails = set(case["fails"])
    extra = {}
    if case["addid_kw"] is not None:
        extra["add_run_id_field"] = case["addid_kw"]
    if case["as_bytes"]:
        extra["run_id_as_bytes"] = True
    addid = mr_addid(case)
    with quiet():
        if mode == "fake":
            out, world, log = mr.call_fake(names, w, case["ignore"], case["throw"], case["schedule"], fails,
                                           case["payload"], extra)
            used, submitted, maxwin = world.used, world.submitted, world.maxwin
        else:
            out, used, log, maxwin = mr.call_threads(names, w, case["ignore"], case["throw"], case["schedule"],
                                                     fails, case["payload"])
            submitted = None
    reason = mr.spec_multi_run(names, rank, case["ignore"], case["throw"], addid, fails, case["payload"], out, w)
    if out[0] == "ok" and reason is None:
        # every run executed exactly once
        if sorted(log) != sorted(names):
            reason = "the per-run function was called for %s, expected each of %s once" % (sorted(log), sorted(names))
        elif maxwin > 2 * w:
            reason = "%d tasks were pending at once, more than 2*max_workers" % maxwin
    if mode == "fake":
        line = mr.canon_result(out, rank, submitted, maxwin)
    else:
        line = None
    return out, line, reason, used, rank, addid, maxwin, log


def unit_multi_run_fake(ctx):
    rng = ctx.rng
    big = ctx.thorough or bool(ctx.drift)
    cases = []
    nmax = 5 if big else 4
    cap = 6000 if big else 700
    for n in range(1, nmax + 1):
        for w in (1, 2, 3):
            scheds = list(mr.all_schedules(n, w))
            if len(scheds) > cap:
                # keep every single-completion schedule (all admissible completion orders), sample the batched
                singles = [s for s in scheds if all(len(b) == 1 for b in s)]
                rest = [s for s in scheds if not all(len(b) == 1 for b in s)]
                scheds = singles + rng.sample(rest, max(0, cap - len(singles)))
            for s in scheds:
                cases.append(mr_case(rng, n, w, s, style="padded", fails_mode=0))
                cases.append(mr_case(rng, n, w, s))
    # exhaustive completion orders for 5 runs (batches of one) in every tier
    if not big:
        for w in (1, 2, 3):
            for s in mr.all_schedules(5, w, max_batch=1):
                cases.append(mr_case(rng, 5, w, s, fails_mode=rng.choice([0, 1])))
    nrand = 6000 if big else 800
    for _ in range(nrand):
        n = rng.randint(2, 8)
        w = rng.randint(1, 8)
        cases.append(mr_case(rng, n, w, mr.random_schedule(rng, n, w)))
    # max_workers = 0 / None
    for _ in range(6):
        c = mr_case(rng, 3, 1, [[0]])
        c["w"] = 0
        cases.append(c)
    lines, evals = [], []
    for c in cases:
        out, line, reason, used, rank, addid, maxwin, log = mr_eval(c, "fake")
        evals.append((out, line, reason, used, rank, addid))
        lines.append(mr.model_line(c["names"], rank, c["w"], c["ignore"], c["throw"], addid, used or c["schedule"],
                                   set(c["fails"]), c["payload"]))
    mout = lib.run_model_parallel("C15", lines)
    dist = {"ok": 0, "raise": 0, "valueerr": 0, "ignored_failures": 0, "batched": 0, "out_of_order": 0}
    nontriv = set()
    bad = 0
    for c, (out, line, reason, used, rank, addid), mo in zip(cases, evals, mout):
        dist[out[0]] += 1
        if c["fails"] and c["ignore"]:
            dist["ignored_failures"] += 1
        order = mr.completion_order(len(c["names"]), max(c["w"], 1), used)
        ooo = order != sorted(order)
        batched = any(len(b) > 1 for b in used)
        dist["batched"] += batched
        dist["out_of_order"] += ooo
        if ooo or batched or c["fails"]:
            nontriv.add(lib.canon([c["names"], c["w"], used, c["fails"], c["ignore"], c["throw"], c["addid_kw"]]))
        mo_c = mr.strip_failures(mo)
        if reason:
            ctx.violation("multi_run", "strax.utils.multi_run: %s (completion schedule %s)" % (reason, used),
                          {"input": dict(c, mode="fake"), "impl": line, "model": mo_c})
            bad += 1
        elif line != mo_c:
            ctx.violation("multi_run", "model and implementation of multi_run disagree (impl %s / model %s) but the "
                          "property predicate holds on this input" % (line[:120], mo_c[:120]),
                          {"input": "corr:C15/multi_run", "case": dict(c, mode="fake"), "impl": line, "model": mo_c},
                          no_failing_input=True)
            bad += 1
        if bad > 6:
            break
    ctx.count("multi_run/fake", len(cases), len(nontriv), dist)
    k = len(cases) // 2
    ctx.sample({"unit": "multi_run/fake", "case": {x: cases[k][x] for x in ("names", "w", "schedule", "fails", "ignore")},
                "model": mout[k][:200]})
    return cases, lines, mout


def unit_multi_run_threads(ctx):
    rng = ctx.rng
    big = ctx.thorough or bool(ctx.drift)
    cases = []
    for n in range(2, 5 if big else 4):
        for w in (1, 2, 3):
            for s in mr.all_schedules(n, w, max_batch=1):
                # keep only schedules the pool can realise: picks among the first w pending tasks
                c = mr_case(rng, n, w, s, style=rng.choice(["padded", "unpadded", "mixed"]))
                cases.append(c)
    for _ in range(400 if big else 60):
        n = rng.randint(2, 8)
        w = rng.randint(1, 8)
        cases.append(mr_case(rng, n, w, mr.random_schedule(rng, n, w, threads=True),
                             style=rng.choice(["padded", "unpadded", "mixed"])))
    lines, evals = [], []
    for c in cases:
        c["addid_kw"] = None
        c["as_bytes"] = False
        out, _, reason, used, rank, addid, maxwin, log = mr_eval(c, "threads")
        evals.append((out, reason, used, rank, maxwin, log))
        lines.append(mr.model_line(c["names"], rank, c["w"], c["ignore"], c["throw"], addid, used,
                                   set(c["fails"]), c["payload"]))
    mout = lib.run_model_parallel("C15", lines)
    dist = {"ok": 0, "raise": 0, "valueerr": 0}
    nontriv = set()
    for c, (out, reason, used, rank, maxwin, log), mo in zip(cases, evals, mout):
        dist[out[0]] += 1
        order = mr.completion_order(len(c["names"]), c["w"], used)
        if order != sorted(order) or c["fails"]:
            nontriv.add(lib.canon([c["names"], c["w"], used, c["fails"], c["ignore"], c["throw"]]))
        # in thread mode the submitted prefix at a raise depends on how far the main thread got: compare
        # the result part only
        mo_c = mr.strip_failures(mo)
        impl = mr.canon_result(out, rank, [], maxwin)
        ok = True
        if out[0] == "ok":
            ok = impl.split(" S ")[0] == mo_c.split(" S ")[0] and mo_c.endswith("M %d" % maxwin)
        elif out[0] == "raise":
            ok = mo_c.startswith("RAISE %d " % rank[out[1]])
        if reason:
            ctx.violation("multi_run", "strax.utils.multi_run with real worker threads: %s (completion schedule %s)"
                          % (reason, used), {"input": dict(c, schedule=used, mode="threads"), "impl": impl, "model": mo_c})
        elif not ok:
            ctx.violation("multi_run", "model and implementation (real threads) disagree: impl %s / model %s"
                          % (impl[:120], mo_c[:120]),
                          {"input": "corr:C15/multi_run", "case": dict(c, schedule=used, mode="threads"),
                           "impl": impl, "model": mo_c}, no_failing_input=True)
    ctx.count("multi_run/threads", len(cases), len(nontriv), dist)


def crosscheck_multi_run(ctx, cases, lines, mout):
    """kernel cross-check of the extraction: re-evaluate a sample inside Coq"""
    idxs = sorted(ctx.rng.sample(range(len(cases)), min(60, len(cases))))
    eqs = []
    for i in idxs:
        toks = [int(x) for x in lines[i].split()[1:]]
        eqs.append("c15_mr_str %s = %s" % (coq_mr_args(toks), coq_mr_out(mout[i])))
    n, fails = lib.coq_crosscheck("C15", "From SV Require Import Base.Prelude Model.MultiRun Model.C15Run.", eqs)
    ctx.coverage.setdefault("kernel_crosscheck", {})["multi_run"] = {"equations": n, "failed_files": len(fails)}
    if fails:
        ctx.violation("multi_run", "extracted model and Coq vm_compute disagree: " + fails[0][-400:],
                      {"input": "corr:C15/multi_run/extraction-crosscheck", "log": fails[0]}, no_failing_input=True)


def zl(xs, nat=False):
    if nat:
        return "[" + "; ".join("%d%%nat" % x for x in xs) + "]"
    return "[" + "; ".join("(%d)" % x for x in xs) + "]"


def coq_mr_args(t):
    w, ig, th, ad, n = t[:5]
    ids = t[5:5 + n]
    p = 5 + n
    m = t[p]
    p += 1
    tbl = []
    for _ in range(m):
        rid, okf, ln = t[p:p + 3]
        pl = t[p + 3:p + 3 + ln]
        p += 3 + ln
        tbl.append("((%d), %s)" % (rid, ("Some %s" % zl(pl)) if okf else "None"))
    nb = t[p]
    p += 1
    sched = []
    for _ in range(nb):
        ln = t[p]
        sched.append(zl(t[p + 1:p + 1 + ln], nat=True))
        p += 1 + ln
    b = lambda x: "true" if x else "false"
    return "[%s] (mkcfg %d%%nat %s %s %s) %s [%s]" % ("; ".join(tbl), w, b(ig), b(th), b(ad), zl(ids), "; ".join(sched))


def coq_mr_out(s):
    """the driver's output line -> the Coq value of c15_mr_str (list Z encoding)"""
    toks = s.split()
    code = {"OK": 0, "RAISE": 1, "VALUEERR": 2, "FUEL": 3, "T": -1, "R": -2, "F": -3, "S": -4, "M": -5}
    out = []
    for x in toks:
        out.append(code[x] if x in code else int(x))
    return zl(out)


# ------------------------------------------------------------------------------------------------

def run(ctx):
    if os.environ.get("C15_WATCHDOG"):
        import faulthandler
        faulthandler.dump_traceback_later(int(os.environ["C15_WATCHDOG"]), exit=True, file=sys.stderr)
    ctx.coverage["rule"] = (
        "multi_run: every schedule (batches of window picks) for <=4 runs (thorough 5) x 1..3 workers, every "
        "completion order for 5 runs, random schedules up to 8 runs x 8 workers; run-id styles padded/unpadded/"
        "mixed/superrun/duplicates, failing runs with ignore_errors on/off, throw_away_result, add_run_id_field, "
        "run_id_as_bytes; non-trivial = completion order differs from run-id order, or a batch of several "
        "completions, or a failing run; distinct by canonical JSON of the case.")
    cases, lines, mout = unit_multi_run_fake(ctx)
    unit_multi_run_threads(ctx)
    crosscheck_multi_run(ctx, cases, lines, mout)
    try:
        from harness.props import c15_ctx
    except ImportError:
        c15_ctx = None
    if c15_ctx is not None:
        c15_ctx.run(ctx)


def replay(ctx, obj):
    r = obj["replay"]
    inp = r.get("case") or r.get("input")
    if isinstance(inp, dict) and inp.get("mode") in ("fake", "threads"):
        out, line, reason, used, rank, addid, maxwin, log = mr_eval(inp, inp["mode"])
        print("impl:", out[0], line, "spec:", reason or "holds")
        return 1 if reason else 0
    from harness.props import c15_ctx
    return c15_ctx.replay(ctx, obj)
