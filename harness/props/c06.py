"""C06 — failures reach the caller and never hang the pipeline.

Unit `post_office`: the single-thread processor's message bus (strax.processors.post_office.PostOffice)
against coq/Model/PostOffice.v on random DAGs with a failure injected at every (producer, position)."""
import strax
from strax.processors.post_office import PostOffice, Spy

from harness import lib

MODEL_PROPS = ["C06"]
LEVEL = "proof"


class Boom(Exception):
    pass


def comb(t, inputs):
    acc = t + 7
    for x in inputs:
        acc = (acc * 31 + x) % 1000003
    return acc


class LogSpy(Spy):
    def __init__(self):
        self.log = []
        self.closed = 0

    def receive(self, msg):
        self.log.append(msg)

    def close(self):
        self.closed += 1


def run_impl(nodes, spies, target, fault):
    """nodes: list of ('src', msgs) | ('stage', deps).  Mirrors SingleThreadProcessor's wiring."""
    po = PostOffice()
    ft, fp = fault if fault else (-1, -1)

    def src_gen(t, msgs):
        for i, m in enumerate(msgs):
            if t == ft and i == fp:
                raise Boom("src %d at %d" % (t, i))
            yield m
        if t == ft and fp == len(msgs):
            raise Boom("src %d at end" % t)

    def stage_gen(t, iters):
        k = 0
        while True:
            inputs = []
            for it in iters:
                try:
                    inputs.append(next(it))
                except StopIteration:
                    return
            if t == ft and k == fp:
                raise Boom("stage %d at %d" % (t, k))
            yield comb(t, inputs)
            k += 1

    for t, nd in enumerate(nodes):
        if nd[0] == "src":
            po.register_producer(src_gen(t, nd[1]), topic=str(t))
        else:
            iters = [po.get_iter(str(d), str(t)) for d in nd[1]]
            po.register_producer(stage_gen(t, iters), topic=str(t))
    spy_objs = {}
    for t, s in enumerate(spies):
        if s:
            spy_objs[t] = LogSpy()
            po.register_spy(spy_objs[t], str(t))
    out = []
    final = po.get_iter(str(target), "FINAL")
    try:
        for m in final:
            out.append(m)
        res = "ok " + ",".join(str(x) for x in out)
    except Boom:
        po.kill_spies()
        res = "err 1"
    sp = ";".join("%d:%s:%d" % (t, ",".join(str(x) for x in spy_objs[t].log), spy_objs[t].closed)
                  for t in sorted(spy_objs))
    return res + " | " + sp, out


def whole(nodes, t):
    nd = nodes[t]
    if nd[0] == "src":
        return list(nd[1])
    cols = [whole(nodes, d) for d in nd[1]]
    n = min(len(c) for c in cols)
    return [comb(t, [c[i] for c in cols]) for i in range(n)]


def gen_graph(rng):
    n = rng.randint(1, 6)
    nodes = []
    for t in range(n):
        if t == 0 or rng.random() < 0.35:
            nodes.append(("src", [rng.randint(0, 50) for _ in range(rng.randint(0, 4))]))
        else:
            k = rng.randint(1, min(3, t))
            nodes.append(("stage", rng.sample(range(t), k)))
    return nodes


def enc(nodes, spies, target, fault, steps, fuel):
    ft, fp = fault if fault else (0, -1)
    out = [target, steps, fuel, ft, fp, len(nodes)]
    for nd, s in zip(nodes, spies):
        items = nd[1]
        out += [0 if nd[0] == "src" else 1, 1 if s else 0, len(items)] + list(items)
    return "po " + " ".join(str(x) for x in out)


def unit_post_office(ctx):
    cases = []
    n_graphs = 1500 if ctx.thorough else 250
    for _ in range(n_graphs):
        nodes = gen_graph(ctx.rng)
        target = ctx.rng.randrange(len(nodes))
        spies = [ctx.rng.random() < 0.5 for _ in nodes]
        faults = [None]
        for t, nd in enumerate(nodes):
            length = len(whole(nodes, t))
            for p in range(0, length + 2):
                faults.append((t, p))
        if not ctx.thorough and len(faults) > 8:
            faults = [None] + ctx.rng.sample(faults[1:], 7)
        for f in faults:
            cases.append((nodes, spies, target, f))
    lines = [enc(n, s, t, f, 40, len(n) + 3) for n, s, t, f in cases]
    mout = lib.run_model_parallel("C06", lines)
    nontriv = set()
    dist = {"ok": 0, "err": 0}
    for (nodes, spies, target, fault), mo in zip(cases, mout):
        res, out = run_impl(nodes, spies, target, fault)
        m_res, m_sp, m_whole = [x.strip() for x in mo.split("|")]
        model_line = m_res + " | " + m_sp
        w = whole(nodes, target)
        dist["ok" if res.startswith("ok") else "err"] += 1
        if len(nodes) >= 2 and nodes[target][0] == "stage":
            nontriv.add(lib.canon([nodes, spies, target, fault]))
        # property predicate on the implementation: never Ok with anything but the whole-run result;
        # an exception only if a fault was injected
        reason = None
        if res.startswith("ok") and out != w:
            reason = "the caller received %s without an exception, the whole-run result is %s" % (out, w)
        if res.startswith("err") and fault is None:
            reason = "an exception reached the caller although nothing failed"
        show = {"nodes": nodes, "spies": spies, "target": target, "fault": fault}
        if reason:
            ctx.violation("post_office", "single-thread bus: " + reason, {"input": show, "impl": res, "model": model_line})
        elif [x.strip() for x in res.split("|")] != [m_res, m_sp] or \
                m_whole.split() != ("whole " + ",".join(str(x) for x in w)).split():
            ctx.violation("post_office", "model/implementation disagree (impl %s | model %s)" % (res, mo),
                          {"input": "corr:C06/post_office", "case": show, "impl": res, "model": mo},
                          no_failing_input=True)
    ctx.count("post_office", len(cases), len(nontriv), dist)
    ctx.sample({"unit": "post_office", "nodes": cases[len(cases) // 2][0], "target": cases[len(cases) // 2][2],
                "fault": cases[len(cases) // 2][3], "model": mout[len(cases) // 2]})


def run(ctx):
    ctx.coverage["rule"] = ("post_office: random DAGs of 1..6 topics (sources of 0..4 messages, 1:1 stages with 1..3 "
                            "dependencies), random saver spies, a failure injected at every (producer, position) "
                            "including 'at the end' and 'never reached', plus the failure-free run; non-trivial = the "
                            "target is a stage in a graph of >= 2 topics; distinct by canonical JSON.")
    unit_post_office(ctx)


def replay(ctx, obj):
    r = obj["replay"]
    case = r.get("case") if isinstance(r.get("input"), str) else r.get("input")
    nodes = [tuple(x) for x in case["nodes"]]
    fault = tuple(case["fault"]) if case["fault"] else None
    res, out = run_impl(nodes, case["spies"], case["target"], fault)
    w = whole(nodes, case["target"])
    bad = (res.startswith("ok") and out != w) or (res.startswith("err") and fault is None)
    print("impl:", res, "| whole:", w, "| property:", "FAILS" if bad else "holds")
    return 1 if bad else 0
