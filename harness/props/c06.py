"""C06 — failures reach the caller and never hang the pipeline.

Unit `post_office`: the single-thread processor's message bus (strax.processors.post_office.PostOffice)
against coq/Model/PostOffice.v on random DAGs with a failure injected at every (producer, position).

Unit `threaded`: the real strax.ThreadedMailboxProcessor, wired from hand-made ProcessorComponents
(harness/c06_net.py), under the controlled scheduler (harness/sched): every explored schedule is also fed
to the extracted Coq network LTS (coq/Model/MailboxFail.v, derived from the wiring the real processor
built) and the abstract observations are compared after every step; independently the property's own
predicate is evaluated on every implementation run (original exception at the caller, no live thread,
no deadlock, savers closed and marked, no truncated data without an exception).

Unit `context`: the real strax.Context(...).get_iter / get_array with processor='threaded_mailbox' on real
strax plugins and an in-memory storage frontend with failure injection: controlled schedules, plus real
OS schedules with sys.setswitchinterval(1e-6), also with max_workers=2 (futures).
"""
import json
import os
import sys
import time

import strax
from strax.processors.post_office import PostOffice, Spy

from harness import lib

MODEL_PROPS = ["C06"]
LEVEL = "proof"


class Boom(Exception):
    pass


def comb(t, inputs):
    acc = t + 7
    for x in inputs:
        acc = (acc * 31 + x) % 1000003
    return acc


class LogSpy(Spy):
    def __init__(self):
        self.log = []
        self.closed = 0

    def receive(self, msg):
        self.log.append(msg)

    def close(self):
        self.closed += 1


def run_impl(nodes, spies, target, fault):
    """nodes: list of ('src', msgs) | ('stage', deps).  Mirrors SingleThreadProcessor's wiring."""
    po = PostOffice()
    ft, fp = fault if fault else (-1, -1)

    def src_gen(t, msgs):
        for i, m in enumerate(msgs):
            if t == ft and i == fp:
                raise Boom("src %d at %d" % (t, i))
            yield m
        if t == ft and fp == len(msgs):
            raise Boom("src %d at end" % t)

    def stage_gen(t, iters):
        k = 0
        while True:
            inputs = []
            for it in iters:
                try:
                    inputs.append(next(it))
                except StopIteration:
                    return
            if t == ft and k == fp:
                raise Boom("stage %d at %d" % (t, k))
            yield comb(t, inputs)
            k += 1

    for t, nd in enumerate(nodes):
        if nd[0] == "src":
            po.register_producer(src_gen(t, nd[1]), topic=str(t))
        else:
            iters = [po.get_iter(str(d), str(t)) for d in nd[1]]
            po.register_producer(stage_gen(t, iters), topic=str(t))
    spy_objs = {}
    for t, s in enumerate(spies):
        if s:
            spy_objs[t] = LogSpy()
            po.register_spy(spy_objs[t], str(t))
    out = []
    final = po.get_iter(str(target), "FINAL")
    try:
        for m in final:
            out.append(m)
        res = "ok " + ",".join(str(x) for x in out)
    except Boom:
        po.kill_spies()
        res = "err 1"
    sp = ";".join("%d:%s:%d" % (t, ",".join(str(x) for x in spy_objs[t].log), spy_objs[t].closed)
                  for t in sorted(spy_objs))
    return res + " | " + sp, out


def whole(nodes, t):
    nd = nodes[t]
    if nd[0] == "src":
        return list(nd[1])
    cols = [whole(nodes, d) for d in nd[1]]
    n = min(len(c) for c in cols)
    return [comb(t, [c[i] for c in cols]) for i in range(n)]


def gen_graph(rng):
    n = rng.randint(1, 6)
    nodes = []
    for t in range(n):
        if t == 0 or rng.random() < 0.35:
            nodes.append(("src", [rng.randint(0, 50) for _ in range(rng.randint(0, 4))]))
        else:
            k = rng.randint(1, min(3, t))
            nodes.append(("stage", rng.sample(range(t), k)))
    return nodes


def enc(nodes, spies, target, fault, steps, fuel):
    ft, fp = fault if fault else (0, -1)
    out = [target, steps, fuel, ft, fp, len(nodes)]
    for nd, s in zip(nodes, spies):
        items = nd[1]
        out += [0 if nd[0] == "src" else 1, 1 if s else 0, len(items)] + list(items)
    return "po " + " ".join(str(x) for x in out)


def unit_post_office(ctx):
    cases = []
    n_graphs = 1500 if ctx.thorough else 250
    for _ in range(n_graphs):
        nodes = gen_graph(ctx.rng)
        target = ctx.rng.randrange(len(nodes))
        spies = [ctx.rng.random() < 0.5 for _ in nodes]
        faults = [None]
        for t, nd in enumerate(nodes):
            length = len(whole(nodes, t))
            for p in range(0, length + 2):
                faults.append((t, p))
        if not ctx.thorough and len(faults) > 8:
            faults = [None] + ctx.rng.sample(faults[1:], 7)
        for f in faults:
            cases.append((nodes, spies, target, f))
    lines = [enc(n, s, t, f, 40, len(n) + 3) for n, s, t, f in cases]
    mout = lib.run_model_parallel("C06", lines)
    nontriv = set()
    dist = {"ok": 0, "err": 0}
    for (nodes, spies, target, fault), mo in zip(cases, mout):
        res, out = run_impl(nodes, spies, target, fault)
        m_res, m_sp, m_whole = [x.strip() for x in mo.split("|")]
        model_line = m_res + " | " + m_sp
        w = whole(nodes, target)
        dist["ok" if res.startswith("ok") else "err"] += 1
        if len(nodes) >= 2 and nodes[target][0] == "stage":
            nontriv.add(lib.canon([nodes, spies, target, fault]))
        # property predicate on the implementation: never Ok with anything but the whole-run result;
        # an exception only if a fault was injected
        reason = None
        if res.startswith("ok") and out != w:
            reason = "the caller received %s without an exception, the whole-run result is %s" % (out, w)
        if res.startswith("err") and fault is None:
            reason = "an exception reached the caller although nothing failed"
        show = {"nodes": nodes, "spies": spies, "target": target, "fault": fault}
        if reason:
            ctx.violation("post_office", "single-thread bus: " + reason, {"input": show, "impl": res, "model": model_line})
        elif [x.strip() for x in res.split("|")] != [m_res, m_sp] or \
                m_whole.split() != ("whole " + ",".join(str(x) for x in w)).split():
            ctx.violation("post_office", "model/implementation disagree (impl %s | model %s)" % (res, mo),
                          {"input": "corr:C06/post_office", "case": show, "impl": res, "model": mo},
                          no_failing_input=True)
    ctx.count("post_office", len(cases), len(nontriv), dist)
    ctx.sample({"unit": "post_office", "nodes": cases[len(cases) // 2][0], "target": cases[len(cases) // 2][2],
                "fault": cases[len(cases) // 2][3], "model": mout[len(cases) // 2]})


# =============================================================================================
# unit `threaded`
# =============================================================================================

def chain_case(L, n, cap, lazy, savers=None, fault=None, cfault=None, loader=False, rechunk=()):
    nodes = [{"name": "s0", "kind": "loader" if loader else "source"}]
    for i in range(1, L):
        nodes.append({"name": "s%d" % i, "kind": "plugin", "deps": ["s%d" % (i - 1)]})
    sv = dict(savers or {})
    sv = {k: sv[k] for k in sorted(sv, key=lambda d: int(d[1:]))}
    return {"shape": "chain%d" % L, "N": n, "cap": cap, "lazy": bool(lazy), "relay": False, "nodes": nodes,
            "savers": sv, "rechunk": list(rechunk), "target": "s%d" % (L - 1),
            "fault": fault, "cfault": cfault}


def fan_case(n, cap, lazy, savers=None, fault=None, cfault=None, pre=1, post=0, side_first=False, loader=False):
    nodes = [{"name": "s0", "kind": "loader" if loader else "source"}]
    for i in range(1, pre):
        nodes.append({"name": "s%d" % i, "kind": "plugin", "deps": ["s%d" % (i - 1)]})
    nodes.append({"name": "m", "kind": "multi", "deps": ["s%d" % (pre - 1)],
                  "provides": ["y", "x"] if side_first else ["x", "y"]})
    last = "x"
    for i in range(post):
        nodes.append({"name": "p%d" % i, "kind": "plugin", "deps": [last]})
        last = "p%d" % i
    return {"shape": "fan%d%d%s" % (pre, post, "s" if side_first else ""), "N": n, "cap": cap, "lazy": bool(lazy),
            "relay": False, "nodes": nodes, "savers": dict(savers or {}), "rechunk": [], "target": last,
            "fault": fault, "cfault": cfault}


def diamond_case(n, cap, lazy, savers=None, fault=None, cfault=None):
    nodes = [{"name": "s", "kind": "source"}, {"name": "a", "kind": "plugin", "deps": ["s"]},
             {"name": "b", "kind": "plugin", "deps": ["s"]}, {"name": "c", "kind": "plugin", "deps": ["a", "b"]}]
    return {"shape": "diamond", "N": n, "cap": cap, "lazy": bool(lazy), "relay": False, "nodes": nodes,
            "savers": dict(savers or {}), "rechunk": [], "target": "c", "fault": fault, "cfault": cfault}


def fault_list(case, positions=None):
    """every (stage kind, position) of the graph: nodes (source / loader / plugin / multi-output), savers of the
    target and of other outputs, the consumer (exception and close); position N = 'at the end'"""
    n = case["N"]
    pos = list(range(n + 1)) if positions is None else positions
    out = [(None, None)]
    for nd in case["nodes"]:
        for p in pos:
            if case.get("graph") and nd["kind"] != "source" and p >= n:
                continue        # real plugins / loaders have no hook "at the end"
            out.append(({"node": nd["name"], "pos": p}, None))
    for d, c in case["savers"].items():
        for i in range(c):
            # a plain saver fails while saving chunk p < N; a rechunking saver saves everything in the final
            # flush (position N)
            for p in ([n] if d in case.get("rechunk", ()) else [p for p in pos if p < n]):
                if n > 0:
                    out.append(({"saver": [d, i], "pos": p}, None))
    for k in range(n):
        out.append((None, {"chunk": k, "close": False}))
        out.append((None, {"chunk": k, "close": True}))
    return out


def with_fault(case, fault, cfault):
    c = json.loads(json.dumps(case))
    c["fault"], c["cfault"] = fault, cfault
    return c


def case_tag(case):
    f = case.get("fault")
    cf = case.get("cfault")
    ft = "nofault"
    if f:
        ft = ("saver(%s,%d)@%d" % (f["saver"][0], f["saver"][1], f["pos"])) if "saver" in f else "%s@%d" % (f["node"], f["pos"])
    if cf:
        ft += " consumer-%s@%d" % ("close" if cf["close"] else "exc", cf["chunk"])
    return "%s N%d cap%d %s savers%s %s%s" % (case.get("shape", "?"), case["N"], case["cap"],
                                              "lazy" if case["lazy"] else "eager",
                                              json.dumps(case["savers"], sort_keys=True), ft,
                                              " relay" if case.get("relay") else "")


# ----- known classes of genuine defects (design_notes/C06.md, known_findings.json) ---------------

def multi_outputs(case):
    out = set()
    for nd in case["nodes"]:
        if nd["kind"] == "multi":
            out |= set(nd["provides"])
    return out


def known_class(case, what):
    """the class of already reported defects a failing run belongs to, or None"""
    cf = case.get("cfault")
    f = case.get("fault")
    if cf and cf["close"] and not case.get("relay"):
        return "F1"
    if f and "saver" in f and f["saver"][0] in multi_outputs(case):
        if "deadlock" in what:
            return "F3"
        if "StopIteration" in what:
            return "F2"
    return None


WITNESSES = {
    # F1: the caller closes ThreadedMailboxProcessor.iter() directly
    "F1": {"case": None, "schedule": None},
}


# ----- running one schedule / exploring ------------------------------------------------------------

def system_factory(case):
    from harness import c06_net
    if case.get("graph"):
        from harness import c06_ctx
        return lambda sched: c06_ctx.ContextSystem(sched, case)
    return lambda sched: c06_net.NetSystem(sched, case)


def net_of(case):
    """(tokens of the Coq network, thread names) of the processor strax builds for `case`"""
    from harness.sched.core import Scheduler
    with Scheduler() as s:
        sysm = system_factory(case)(s)
        try:
            return sysm.model_net(), [t.name for t in s.threads]
        finally:
            if hasattr(sysm, "close"):
                sysm.close()


def family_line(case, net):
    """driver line computing the canonical network of Model/C06Nets.v this case should be an instance of (the
    families the general statements of Props/C06.v speak about), or None"""
    if case.get("graph") or case.get("rechunk") or case.get("max_workers"):
        return None
    kinds = [nd["kind"] for nd in case["nodes"]]
    fl = net_fault_tokens(net, case)
    fx = 1 if tuple(case.get("fixes", (1, 1, 1))) == (1, 1, 1) and os.environ.get("C06_PINNED") != "1" else 0
    if case["shape"].startswith("chain") and kinds[0] == "source":
        L = len(case["nodes"])
        nsav = [case["savers"].get("s%d" % i, 0) for i in range(L)]
        toks = [fx, case["N"], int(case["lazy"]), int(bool(case.get("relay"))), L] + [case["cap"]] * L + nsav + fl
        return "family chain " + " ".join(map(str, toks))
    if case["shape"] in ("fan10", "fan10s") and kinds[0] == "source":
        sx, sy = case["savers"].get("x", 0), case["savers"].get("y", 0)
        if list(case["savers"]) not in ([], ["x"], ["y"], ["x", "y"]):
            return None
        toks = [fx, case["N"], case["cap"], int(case["lazy"]), int(case["shape"] == "fan10s"), sx, sy,
                int(bool(case.get("relay")))] + fl
        return "family fan " + " ".join(map(str, toks))
    return None


def net_fault_tokens(net, case):
    """the six fault / consumer-fault tokens of a derived network line"""
    # layout: nmb {cap lazy nsubs drives}* nth {thread}* ft fp fc ck cc ce f1 f2 f3 ...
    i = 0
    nmb = net[i]; i += 1
    for _ in range(nmb):
        ns = net[i + 2]
        i += 3 + ns
    nth = net[i]; i += 1
    for _ in range(nth):
        k = net[i]
        if k == 0:
            i += 4 + 2 * net[i + 3]
        elif k == 1:
            i += 4
        elif k == 2:
            i += 3
        elif k == 3:
            i += 4 + 2 * net[i + 3]
        else:
            i += 4
    return list(net[i:i + 6])


def model_line(net, schedule):
    return "net " + " ".join(map(str, net)) + " %d " % len(schedule) + " ".join(map(str, schedule))


def split_model(out):
    body, tail = out.split(" # ")
    tail, init = tail.split(" @ ")
    parts = [p.strip() for p in body.split(" | ")] if body.strip() else []
    dis = None
    if parts and parts[-1].startswith("DISABLED"):
        dis = int(parts[-1].split()[1])
        parts = parts[:-1]
    toks = tail.split()
    return parts, dis, toks[0], int(toks[1]), [int(x) for x in toks[2:]], init.strip()


def compare_with_model(net, results):
    """-> list of (index, description) of runs on which implementation and model differ"""
    outs = lib.run_model("C06", [model_line(net, r.schedule) for r in results])
    bad = []
    for idx, (r, mo) in enumerate(zip(results, outs)):
        if mo.startswith("EXC") or " # " not in mo:
            bad.append((idx, "model driver: " + mo[:200]))
            continue
        parts, dis, term, oc, en, init = split_model(mo)
        what = None
        if r.obs0 != init:
            what = "initial state: implementation observes [%s], model [%s]" % (r.obs0, init)
        elif dis is not None:
            what = "model: thread scheduled at step %d is not enabled; implementation ran it" % dis
        else:
            for i, (a, b) in enumerate(zip(r.obs, parts)):
                if a != b:
                    what = "step %d (thread %d): implementation observes [%s], model [%s]" % (i, r.schedule[i], a, b)
                    break
        if what is None and r.outcome in ("complete", "deadlock"):
            if en:
                what = "implementation has no runnable thread at the end, the model enables %s" % en
            elif (term == "T") != (r.outcome == "complete"):
                what = "end of run: implementation %s, model %s" % (
                    r.outcome, "all threads finished" if term == "T" else "deadlock")
            elif r.system_info and oc != r.system_info["outcome_code"]:
                what = "caller's outcome: implementation %s, model %s" % (r.system_info["outcome_code"], oc)
        if what is None and r.outcome == "not-enabled":
            what = "implementation: " + str(r.error)
        if what is not None:
            bad.append((idx, what))
    return bad


def property_failure(case, res):
    """The C06 predicate on one implementation run; None if it holds, else a description."""
    info = res.system_info or {}
    n = case["N"]
    if res.outcome == "deadlock":
        blocked = [nm for nm, st in zip(info.get("names", []), info.get("status", [])) if st == "blocked"]
        return "deadlock (a real run would end in a timeout): threads %s are blocked forever; caller's result: %s" % (
            blocked, info.get("result"))
    if res.outcome in ("limit", "open"):
        return "the run did not terminate within the step limit"
    if res.outcome != "complete":
        return None
    result = info.get("result")
    if result is None:
        return "the caller's thread ended without a result"
    kind, etxt = result
    fired = info["fired"] or info["consumer_fired"]
    closing = bool(case.get("cfault") and case["cfault"]["close"])
    savers = info["savers"]
    if kind == "ok":
        if info["rows"] != list(range(n)):
            return "the caller received chunks %s without an exception (the run has %d chunks)" % (info["rows"], n)
        if fired:
            return "an exception was raised inside the pipeline but the caller's iteration ended normally"
        for sv in savers:
            if not sv["closed"] or sv["exception"] or sv["rows"] != n:
                return "normal end but saver of %s is %s" % (sv["name"], sv)
        return None
    if kind == "swallowed":
        return "the exception thrown by the consumer was swallowed by the iterator"
    if kind == "closed":
        # close() returned normally: all threads have stopped (outcome complete)
        pass
    if kind == "err":
        if not fired and not closing:
            return "the caller received %s although nothing failed" % etxt
        if closing and not info["fired"]:
            if "OutsideException" not in etxt and not info["original"]:
                return "closing the iterator raised %s" % etxt
        elif not info["original"]:
            return "the caller received [%s] instead of the original exception" % etxt
    for sv in savers:
        if not sv["closed"]:
            return "after the failure the saver of %s was not closed" % sv["name"]
        if not sv["exception"] and sv["rows"] != n:
            return "after the failure the saver of %s is closed without an exception but holds %d of %d chunks" % (
                sv["name"], sv["rows"], n)
    return None


def exec_task(task):
    """one exploration task in a worker process -> JSON-able summary"""
    import random
    import threading
    import zlib
    from harness.sched import explore_dfs, random_walks, run_schedule
    from harness.sched.core import pool_threads
    t0 = time.time()
    case = task["case"]
    if task["kind"] == "os":
        return exec_os_task(task)
    fac = system_factory(case)
    net, names = net_of(case)
    results = []
    truncated = False
    if task["kind"] == "dfs":
        for r in explore_dfs(fac, task["bound"], max_runs=task["max_runs"]):
            results.append(r)
        truncated = len(results) >= task["max_runs"]
    elif task["kind"] == "random":
        rng = random.Random(task["seed"])
        for r in random_walks(fac, rng, task["n"], sticky=task.get("sticky", 0.0)):
            results.append(r)
    elif task["kind"] == "replay":
        # follow the recorded schedule as far as it is executable (a recorded thread that is not enabled any
        # more is skipped), then run the lowest enabled thread until nothing is enabled
        todo = list(task["schedule"])

        def guided(en, last):
            while todo:
                t = todo.pop(0)
                if t in en:
                    return t
            return en[0]
        results.append(run_schedule(fac, [], extend=guided))
    out = {"kind": task["kind"], "case": case, "runs": len(results), "steps": sum(len(r.schedule) for r in results),
           "truncated": truncated, "outcomes": {}, "disagreements": [], "failures": [], "nontrivial": 0,
           "codes": {}, "names": names, "net": net}
    bad = compare_with_model(net, results) if task.get("compare", True) else []
    if task.get("compare", True):
        cov = lib.run_model("C06", ["netcover " + " ".join(map(str, net))])[0].split()
        out["cover"] = cov
        if cov != ["1", "1"]:
            bad = [(0, "the network wired by ThreadedMailboxProcessor does not satisfy the premises of the shutdown theorem "
                       "C06_noticed_failure_shuts_down (cover_b, init_ok_b = %s)" % cov)] + bad
    if task.get("compare", True) and not case.get("graph"):
        dag = lib.run_model("C06", ["netdag " + " ".join(map(str, net)) + " %d" % case["N"]])[0].split()
        out["dag"] = dag
        if dag[:1] != ["1"]:
            bad = [(0, "the network wired by ThreadedMailboxProcessor is not a well-formed plugin DAG in the sense of "
                       "Model/C06Dag.v (dag_ok_b = %s)" % dag)] + bad
    fam = family_line(case, net) if task.get("compare", True) else None
    out["family"] = None
    if fam is not None:
        d1, d2 = lib.run_model("C06", ["netdigest " + " ".join(map(str, net)), fam])
        out["family"] = (d1 == d2)
        if d1 != d2:
            bad = [(0, "the network wired by ThreadedMailboxProcessor is not the %s network of Model/C06Nets.v the "
                       "theorems speak about (digests %s / %s)" % (fam.split()[1], d1, d2))] + bad
    for idx, what in bad[:2]:
        r = results[idx]
        out["disagreements"].append({"schedule": r.schedule, "what": what, "outcome": r.outcome})
    out["n_disagreements"] = len(bad)
    nfail = 0
    hashes = set()
    for r in results:
        out["outcomes"][r.outcome] = out["outcomes"].get(r.outcome, 0) + 1
        oc = (r.system_info or {}).get("outcome_code")
        out["codes"][str(oc)] = out["codes"].get(str(oc), 0) + 1
        f = property_failure(case, r)
        if f:
            nfail += 1
            cls = known_class(case, f)
            if len([x for x in out["failures"] if x["class"] == cls]) < 1:
                out["failures"].append({"schedule": r.schedule, "what": f, "outcome": r.outcome, "class": cls,
                                        "final": r.system_info})
        info = r.system_info or {}
        if (info.get("fired") or info.get("consumer_fired")) and any("1" in o.split()[:len(names)] for o in r.obs):
            hashes.add(zlib.crc32(repr(r.schedule).encode()))
    out["nontrivial"] = len(hashes)
    out["n_failures"] = nfail
    if results:
        r = results[len(results) // 2]
        out["sample"] = {"case": case_tag(case), "schedule": r.schedule, "outcome": r.outcome,
                         "caller": (r.system_info or {}).get("result")}
        out["xsample"] = r.schedule if len(r.schedule) <= 70 else None
    npool, busy = pool_threads()
    out["threads_left"] = threading.active_count() - 1 - npool + busy
    out["wall"] = round(time.time() - t0, 2)
    return out


def os_failure(case, ob):
    """The C06 predicate on one run under the real OS scheduler (observation of c06_ctx.os_run)."""
    n = case["N"]
    kind, etxt = ob["result"]
    if ob["threads_left"]:
        return "pipeline threads still alive after the call returned: %s" % ob["threads_left"]
    fired = ob["fired"] or ob["consumer_fired"]
    closing = bool(case.get("cfault") and case["cfault"]["close"])
    if kind == "ok":
        if ob["rows"] != list(range(n)):
            return "the caller received chunks %s without an exception (the run has %d chunks)" % (ob["rows"], n)
        if fired:
            return "an exception was raised inside the pipeline but the call returned normally"
        for sv in ob["savers"]:
            if not sv["closed"] or sv["exception"] or sv["rows"] != n:
                return "normal end but saver of %s is %s" % (sv["name"], sv)
        for d, v in ob["stored"].items():
            if v is not True:
                return "normal end but %s is not stored (%s)" % (d, v)
        return None
    if kind == "err":
        if "Timeout" in etxt:
            return "the caller received a timeout (%s) instead of the original exception" % etxt
        if closing and not ob["fired"]:
            if not ob["outside"] and not ob["original"]:
                return "closing the iterator raised %s" % etxt
        elif not fired:
            return "the caller received %s although nothing failed" % etxt
        elif not ob["original"]:
            return "the caller received [%s] instead of the original exception" % etxt
    for sv in ob["savers"]:
        if not sv["closed"]:
            return "after the failure the saver of %s was not closed" % sv["name"]
        if not sv["exception"] and sv["rows"] != n:
            return "after the failure the saver of %s is closed without an exception but holds %d of %d chunks" % (
                sv["name"], sv["rows"], n)
        if sv["exception"] and ob["stored"].get(sv["name"]) is True:
            return "the saver of %s recorded an exception but the data is reported as stored" % sv["name"]
    return None


def exec_os_task(task):
    from harness import c06_ctx
    t0 = time.time()
    case = task["case"]
    out = {"kind": "os", "case": case, "runs": 0, "steps": 0, "truncated": False, "outcomes": {}, "disagreements": [],
           "failures": [], "nontrivial": 0, "codes": {}, "names": [], "net": None, "n_disagreements": 0,
           "n_failures": 0, "threads_left": 0}
    for rep in range(task["reps"]):
        ob = c06_ctx.os_run(case, how=task.get("how", "iter"))
        out["runs"] += 1
        key = ob["result"][0] if ob["result"][0] != "err" else "err:" + ob["result"][1].split(":")[0]
        out["codes"][key] = out["codes"].get(key, 0) + 1
        out["outcomes"]["complete"] = out["outcomes"].get("complete", 0) + 1
        if ob["fired"] or ob["consumer_fired"]:
            out["nontrivial"] = 1
        f = os_failure(case, ob)
        if f:
            out["n_failures"] += 1
            if not out["failures"]:
                out["failures"].append({"schedule": None, "what": f, "outcome": "os", "class": known_class(case, f),
                                        "final": ob})
            break           # one failing run is enough (a hang costs strax's whole timeout)
        out["sample"] = {"case": case_tag(case), "how": task.get("how", "iter"), "caller": ob["result"],
                         "savers": ob["savers"]}
    out["wall"] = round(time.time() - t0, 2)
    return out


def _worker_init():
    sys.stdout = open(os.devnull, "w")      # strax prints ("Main generator exited irregularly?!")
    import logging
    logging.disable(logging.CRITICAL)
    # a forked worker must not inherit the parent's pool of OS threads (they do not exist in the child)
    from harness.sched import core
    core.POOL = core._OSThreadPool()
    core.CURRENT = None


def run_tasks(tasks, nproc=None):
    import multiprocessing as mp
    nproc = nproc or min(16, os.cpu_count() or 4)
    if len(tasks) <= 1 or nproc <= 1:
        return [exec_task(t) for t in tasks]
    from harness.sched.core import shutdown_pool
    shutdown_pool()                          # no scheduler threads alive while forking
    ctxm = mp.get_context("fork")
    order = sorted(range(len(tasks)), key=lambda i: -tasks[i].get("weight", 1))
    with ctxm.Pool(nproc, initializer=_worker_init) as pool:
        res = pool.map(exec_task, [tasks[i] for i in order], chunksize=1)
    out = [None] * len(tasks)
    for i, r in zip(order, res):
        out[i] = r
    return out


def threaded_bases(ctx, big):
    """(base case, exploration size) pairs; every base is expanded with every failure position"""
    rng = ctx.rng
    bases = []
    lazies = (False, True)
    # chains: <= 3 stages x <= 3 chunks, every saver placement pattern rotates through the list
    placements = [{}, {"T": 1}, {"s0": 1}, {"T": 1, "s0": 1}, {"T": 2}]
    k = 0
    for L in (1, 2, 3):
        for n in ((1, 2, 3) if big else (1, 2)):
            for cap in (1, 2):
                for lazy in lazies:
                    pl = placements[k % len(placements)]
                    k += 1
                    sv = {}
                    for key, cnt in pl.items():
                        name = "s%d" % (L - 1) if key == "T" else key
                        sv[name] = max(sv.get(name, 0), cnt)
                    bases.append(chain_case(L, n, cap, lazy, savers=sv))
    bases.append(chain_case(3, 3, 2, False, savers={"s1": 1, "s2": 1}))
    bases.append(chain_case(3, 3, 1, True, savers={"s1": 1}))
    bases.append(chain_case(2, 0, 1, False, savers={"s1": 1}))
    bases.append(chain_case(2, 2, 4, True, savers={"s1": 1}, loader=True))
    bases.append(chain_case(3, 2, 2, False, savers={"s0": 1}, loader=True))
    bases.append(chain_case(2, 2, 2, False, savers={"s1": 1}, rechunk=["s1"]))
    bases.append(chain_case(2, 2, 1, True, savers={"s0": 1, "s1": 1}, rechunk=["s0"]))
    # one-level fan-out: multi-output plugin, side output saved / discarded, target saved or not
    for n in ((1, 2, 3) if big else (1, 2)):
        for lazy in lazies:
            for side_first in (False, True):
                bases.append(fan_case(n, 1 + n % 2, lazy, savers={"y": 1}, side_first=side_first))
                bases.append(fan_case(n, 2, lazy, savers={}, side_first=side_first))
            bases.append(fan_case(n, 2, lazy, savers={"x": 1, "y": 1}, post=1))
            bases.append(fan_case(n, 4, lazy, savers={"y": 1}, pre=2))
    # diamonds (general DAGs: correspondence only)
    for n in ((1, 2, 3) if big else (1, 2)):
        for lazy in lazies:
            bases.append(diamond_case(n, 1 + n % 2, lazy, savers={"a": 1} if n == 2 else {}))
    return bases


def build_threaded_tasks(ctx):
    big = ctx.thorough or ctx.escalated()
    rng = ctx.rng
    tasks = []
    for base in threaded_bases(ctx, big):
        nthreads = len(base["nodes"]) + sum(base["savers"].values()) + 2
        for fault, cfault in fault_list(base):
            c = with_fault(base, fault, cfault)
            small = len(base["nodes"]) <= 3 and base["N"] <= 3
            if small:
                tasks.append({"kind": "dfs", "case": c, "bound": 2, "max_runs": 1500 if big else 60,
                              "weight": nthreads * (base["N"] + 1) * 40})
            tasks.append({"kind": "random", "case": c, "n": 150 if big else 12, "seed": rng.getrandbits(48),
                          "sticky": rng.choice([0.0, 0.5, 0.8]), "weight": nthreads * (base["N"] + 1) * 10})
    return tasks


# ----- extraction cross-check inside Coq (kernel vm_compute) ------------------------------------------

def coq_net(net):
    """(Coq term of the net, Coq term of the initial state) for the tokens of a derived network"""
    it = iter(net)
    nx = lambda: next(it)
    b = lambda x: "true" if x else "false"
    nmb = nx()
    boxes = []
    for _ in range(nmb):
        cap, lz, ns = nx(), nx(), nx()
        drives = [nx() for _ in range(ns)]
        boxes.append("(mk_mbox %d%%nat %s [%s])" % (cap, b(lz), "; ".join(b(d) for d in drives)))
    nth = nx()
    threads = []
    pair = lambda a, c: "(%d%%nat, %d%%nat)" % (a, c)
    for _ in range(nth):
        k = nx()
        if k == 0:
            nsrc, out, nin = nx(), nx(), nx()
            ins = [pair(nx(), nx()) for _ in range(nin)]
            threads.append("(mk_thread (KStage %d%%nat %d%%nat) [%s])" % (nsrc, out, "; ".join(ins)))
        elif k == 1:
            mb, sb, rc = nx(), nx(), nx()
            threads.append("(mk_thread (KSaver %s) [%s])" % (b(rc), pair(mb, sb)))
        elif k == 2:
            mb, sb = nx(), nx()
            threads.append("(mk_thread KDiscard [%s])" % pair(mb, sb))
        elif k == 3:
            mb, sb, no = nx(), nx(), nx()
            outs = ["(%d%%nat, %s)" % (nx(), b(nx())) for _ in range(no)]
            threads.append("(mk_thread (KDivider [%s]) [%s])" % ("; ".join(outs), pair(mb, sb)))
        else:
            mb, sb, relay = nx(), nx(), nx()
            threads.append("(mk_thread (KMain %s) [%s])" % (b(relay), pair(mb, sb)))
    ft, fp, fc = nx(), nx(), nx()
    ck, cc, ce = nx(), nx(), nx()
    f1, f2, f3 = nx(), nx(), nx()
    fault = "None" if ft < 0 else "(Some (%d%%nat, %d%%nat, %d%%nat))" % (ft, fp, fc)
    cfault = "None" if ck < 0 else "(Some (%d%%nat, %s, %d%%nat))" % (ck, b(cc), ce)
    lst = lambda: "[" + "; ".join("%d%%nat" % nx() for _ in range(nx())) + "]"
    kill, join, sav = lst(), lst(), lst()
    nt = "(mkNet %s %s %s %s %s %s %s %s)" % (fault, cfault, kill, join, sav, b(f1), b(f2), b(f3))
    st0 = "(ninit %s [%s] [%s])" % (nt, "; ".join(boxes), "; ".join(threads))
    return nt, st0


def kernel_crosscheck(ctx, picks):
    """picks: list of (net tokens, schedule): the per-step observations computed by the extracted OCaml model must
    equal what Coq's vm_compute gives for the same Gallina definitions"""
    if not picks:
        return
    lines = [model_line(net, sched) for net, sched in picks]
    outs = lib.run_model("C06", lines)
    eqs = []
    for (net, sched), mo in zip(picks, outs):
        parts, dis, term, oc, en, init = split_model(mo)
        nt, st0 = coq_net(net)
        rhs = "[" + "; ".join("[" + "; ".join("(%s)" % x for x in o.split()) + "]" for o in parts) + "]"
        sch = "[" + "; ".join("%d%%nat" % t for t in sched[:len(parts)]) + "]"
        eqs.append("nrun_obs %s %s %s = (%s : list (list Z))" % (nt, st0, sch, rhs))
    n, fails = lib.coq_crosscheck(
        "C06", "From SV Require Import Base.Prelude Model.Mailbox Model.MailboxFail Model.C06Run.", eqs)
    ctx.coverage.setdefault("kernel_crosscheck", {})["threaded"] = {"equations": n, "failed_files": len(fails)}
    if fails:
        ctx.violation("threaded", "extracted model and Coq vm_compute disagree: " + fails[0][-400:],
                      {"input": "corr:C06/threaded/extraction-crosscheck", "log": fails[0]}, no_failing_input=True)



def witness_path(name):
    return os.path.join(lib.VERIF, "corpus", "C06", name + ".json")


def replay_witnesses(ctx):
    """the canonical witnesses of the known defect classes, replayed first; -> set of classes still failing"""
    still = set()
    d = os.path.join(lib.VERIF, "corpus", "C06")
    if not os.path.isdir(d):
        return still
    for fn in sorted(os.listdir(d)):
        if not fn.endswith(".json"):
            continue
        w = json.load(open(os.path.join(d, fn)))
        import contextlib
        import io
        with contextlib.redirect_stdout(io.StringIO()):      # strax prints from the GeneratorExit branch
            r = exec_task({"kind": "replay", "case": w["case"], "schedule": w["schedule"]})
        for dis in r["disagreements"]:
            ctx.violation("threaded", "model and implementation disagree on corpus witness %s: %s" % (fn, dis["what"]),
                          {"input": "corr:C06/threaded/corpus", "case": w["case"], "schedule": dis["schedule"]},
                          no_failing_input=True)
        for f in r["failures"]:
            still.add(w.get("class"))
            ctx.violation("threaded", "ThreadedMailboxProcessor violates C06 (%s): %s" % (case_tag(w["case"]), f["what"]),
                          {"input": {"case": w["case"], "schedule": w["schedule"]}, "outcome": f["outcome"],
                           "final": f["final"], "class": w.get("class")})
        ctx.count("threaded", 1, 1 if r["failures"] else 0, {"corpus": 1})
    return still


def unit_threaded(ctx):
    still_known = replay_witnesses(ctx)
    tasks = build_threaded_tasks(ctx)
    t0 = time.time()
    results = run_tasks(tasks)
    ctx.notes.append("threaded: exploration wall time %.1fs for %d tasks" % (time.time() - t0, len(tasks)))
    dist = {}
    n_eval = n_nontriv = stray = 0
    disagreeing = []
    suppressed = {}
    for t, r in zip(tasks, results):
        c = r["case"]
        for key in ("kind." + r["kind"], "shape." + c["shape"], "lazy" if c["lazy"] else "eager",
                    "N%d" % c["N"], "cap%d" % c["cap"],
                    "fault." + ("none" if not c["fault"] else ("saver" if "saver" in c["fault"] else
                                                                 [nd["kind"] for nd in c["nodes"] if nd["name"] == c["fault"]["node"]][0])),
                    "consumer." + ("none" if not c["cfault"] else ("close" if c["cfault"]["close"] else "exception"))):
            dist[key] = dist.get(key, 0) + r["runs"]
        for k, v in r["outcomes"].items():
            dist["outcome." + k] = dist.get("outcome." + k, 0) + v
        for k, v in r["codes"].items():
            dist["caller." + k] = dist.get("caller." + k, 0) + v
        dist["steps"] = dist.get("steps", 0) + r["steps"]
        dist["truncated_dfs_tasks"] = dist.get("truncated_dfs_tasks", 0) + int(bool(r["truncated"]))
        n_eval += r["runs"]
        n_nontriv += r["nontrivial"]
        stray += r["threads_left"]
        if r.get("sample") and len(ctx.coverage["samples"]) < 10 and (c["fault"] or c["cfault"]):
            ctx.sample(r["sample"])
        for f in r["failures"]:
            if f["class"] is not None and f["class"] in still_known:
                suppressed[f["class"]] = suppressed.get(f["class"], 0) + 1
                continue
            ctx.violation("threaded", "ThreadedMailboxProcessor violates C06 (%s): %s" % (case_tag(c), f["what"]),
                          {"input": {"case": c, "schedule": f["schedule"]}, "outcome": f["outcome"],
                           "final": f["final"]})
        if r["n_disagreements"]:
            disagreeing.append(r)
    for k, v in suppressed.items():
        dist["known_class_%s_runs" % k] = v
    ctx.count("threaded", n_eval, n_nontriv, dist)
    xs = [(r["net"], r["xsample"]) for r in results if r.get("xsample") and r.get("net") and not r["n_disagreements"]]
    if xs:
        idx = sorted(ctx.rng.sample(range(len(xs)), min(30 if not (ctx.thorough or ctx.escalated()) else 120, len(xs))))
        kernel_crosscheck(ctx, [xs[i] for i in idx])
    if suppressed:
        ctx.notes.append("threaded: failing runs inside the known defect classes (their canonical witnesses were "
                         "replayed and reported above): %s" % suppressed)
    if stray:
        ctx.violation("harness", "the controlled scheduler left %d threads behind" % stray,
                      {"input": "corr:C06/stray-threads"}, no_failing_input=True)
    concrete = any(not v["nfi"] for v in ctx.violations)
    for r in disagreeing[:5]:
        c = r["case"]
        dis = r["disagreements"][0]
        if not concrete:
            f = search_failing_input(ctx, c, still_known)
            if f:
                concrete = True
                ctx.violation("threaded", "ThreadedMailboxProcessor violates C06 (%s): %s" % (case_tag(f[0]), f[1]["what"]),
                              {"input": {"case": f[0], "schedule": f[1]["schedule"]}, "outcome": f[1]["outcome"],
                               "final": f[1]["final"], "found_after_disagreement": dis["what"]})
                continue
        ctx.violation("threaded", "model and implementation disagree (%s, %d of %d schedules): %s"
                      % (case_tag(c), r["n_disagreements"], r["runs"], dis["what"]),
                      {"input": "corr:C06/threaded/%s" % r["kind"], "case": c, "schedule": dis["schedule"],
                       "what": dis["what"]}, no_failing_input=True)


def context_cases(ctx, big):
    from harness import c06_ctx
    C = c06_ctx.ctx_case
    out = []
    for lazy in (False, True):
        for n in ((1, 2, 3) if big else (1, 2)):
            cap = 1 + n % 2
            base_specs = [("chain", ("c6top",), ()), ("chain", ("c6mid", "c6top"), ("c6src",)),
                          ("fan", ("c6y",), ()), ("fan_side_first", ("c6x", "c6y"), ()), ("fan_post", ("c6y",), ())]
            for graph, save, pre in base_specs:
                base = C(graph, n, cap, lazy, save=save, preload=pre)
                for fault, cfault in fault_list(base):
                    out.append(with_fault(base, fault, cfault))
    return out


def unit_context(ctx):
    big = ctx.thorough or ctx.escalated()
    rng = ctx.rng
    cases = context_cases(ctx, big)
    tasks = []
    for c in cases:
        # controlled schedules through Context.get_iter
        if big or rng.random() < 0.5:
            tasks.append({"kind": "dfs", "case": c, "bound": 2, "max_runs": 300 if big else 25, "weight": 400})
        tasks.append({"kind": "random", "case": c, "n": 60 if big else 6, "seed": rng.getrandbits(48),
                      "sticky": rng.choice([0.0, 0.5]), "weight": 100})
        # real OS schedules, also with a worker pool (lazy mode is switched off there by the processor)
        tasks.append({"kind": "os", "case": c, "reps": 6 if big else 2, "how": rng.choice(["iter", "array"]),
                      "weight": 50})
        if not c["lazy"]:
            c2 = json.loads(json.dumps(c))
            c2["max_workers"] = 2
            c2["shape"] += "-pool"
            tasks.append({"kind": "os", "case": c2, "reps": 6 if big else 2, "how": rng.choice(["iter", "array"]),
                          "weight": 50})
    t0 = time.time()
    results = run_tasks(tasks)
    ctx.notes.append("context: wall time %.1fs for %d tasks" % (time.time() - t0, len(tasks)))
    dist = {}
    n_eval = n_nontriv = 0
    disagreeing = []
    for t, r in zip(tasks, results):
        c = r["case"]
        for key in ("kind." + r["kind"], "shape." + c["shape"], "lazy" if c["lazy"] else "eager",
                    "pool" if c.get("max_workers") else "nopool"):
            dist[key] = dist.get(key, 0) + r["runs"]
        for k, v in r["codes"].items():
            dist["caller." + k] = dist.get("caller." + k, 0) + v
        for k, v in r["outcomes"].items():
            dist["outcome." + k] = dist.get("outcome." + k, 0) + v
        n_eval += r["runs"]
        n_nontriv += r["nontrivial"]
        if r.get("sample") and r["kind"] == "os" and len(ctx.coverage["samples"]) < 12 and (c["fault"] or c["cfault"]):
            ctx.sample(r["sample"])
        for f in r["failures"]:
            ctx.violation("context", "Context.get_iter with ThreadedMailboxProcessor violates C06 (%s, %s): %s"
                          % (case_tag(c), "OS schedule" if r["kind"] == "os" else "controlled schedule", f["what"]),
                          {"input": {"case": c, "schedule": f["schedule"], "how": t.get("how")}, "outcome": f["outcome"],
                           "final": f["final"]})
        if r["n_disagreements"]:
            disagreeing.append(r)
    ctx.count("context", n_eval, n_nontriv, dist)
    for r in disagreeing[:3]:
        dis = r["disagreements"][0]
        ctx.violation("context", "model and implementation disagree (%s, %d of %d schedules): %s"
                      % (case_tag(r["case"]), r["n_disagreements"], r["runs"], dis["what"]),
                      {"input": "corr:C06/context/%s" % r["kind"], "case": r["case"], "schedule": dis["schedule"],
                       "what": dis["what"]}, no_failing_input=True)


def search_failing_input(ctx, case, still_known, budget=1500):
    """model and implementation disagree on `case`: look for a schedule on which the implementation violates
    the property itself — this case, its other failure positions and one more / one fewer chunk"""
    cases = [case]
    base = with_fault(case, None, None)
    for fault, cfault in fault_list(base):
        cases.append(with_fault(base, fault, cfault))
    for dn in (-1, 1):
        if 0 <= case["N"] + dn <= 4:
            c2 = json.loads(json.dumps(case))
            c2["N"] = case["N"] + dn
            cases.append(c2)
    tasks = []
    for c in cases[:40]:
        tasks.append({"kind": "dfs", "case": c, "bound": 2, "max_runs": budget, "compare": False})
        tasks.append({"kind": "random", "case": c, "n": budget // 5, "seed": ctx.rng.getrandbits(48),
                      "sticky": 0.5, "compare": False})
    for r in run_tasks(tasks):
        for f in r["failures"]:
            if f["class"] is None or f["class"] not in still_known:
                return r["case"], f
    return None


def run(ctx):
    ctx.coverage["rule"] = (
        "post_office: random DAGs of 1..6 topics (sources of 0..4 messages, 1:1 stages with 1..3 dependencies), "
        "random saver spies, a failure injected at every (producer, position) including 'at the end' and 'never "
        "reached', plus the failure-free run; non-trivial = the target is a stage in a graph of >= 2 topics. "
        "threaded: one evaluation = one maximal schedule of the real ThreadedMailboxProcessor under the controlled "
        "scheduler, compared step by step with the extracted Coq network LTS and judged by the C06 predicate; graphs: "
        "chains of 1..3 stages, loader-fed chains, one-level fan-out (multi-output plugin with saved / discarded side "
        "output, either order of provides, optional stage before / after), diamonds; 0..3 chunks; max_messages 1, 2, 4; "
        "lazy and eager; savers on the target / an intermediate / a side output (also two savers, rechunking savers); a "
        "failure at every (thread, chunk) position of every stage kind (source, loader, plugin, multi-output plugin, "
        "saver, consumer exception, consumer close) and the failure-free run; schedules: depth-first with preemption "
        "bound 2 (capped) for <= 3 stages, seeded random walks for all; non-trivial = a failure fired and some thread "
        "had to wait; distinct by (case, schedule). "
        "context: the real Context.get_iter / get_array (relay of context.py) with real strax plugins (chain of three, "
        "multi-output plugin in both orders of provides, stage after the fan-out, loader-fed source) and a real "
        "DataDirectory, failures in compute / FileSaver._save_chunk / the backend's _read_chunk / apply_data_function / "
        "closing the iterator: controlled schedules compared with the model, and real OS schedules with "
        "sys.setswitchinterval(1e-6), with and without max_workers=2 (futures); non-trivial = a failure fired.")
    ctx.assumptions.append(
        "lock-free code between two lock regions of mailbox.py touches only thread-local state, so it is merged into "
        "the preceding lock region: one scheduler step = one lock region + the lock-free code up to the next lock "
        "acquisition / wait / join")
    ctx.assumptions.append("CPython RLock/Condition behave as documented; timeouts are represented by deadlock")
    unit_post_office(ctx)
    unit_threaded(ctx)
    if any(not v["nfi"] for v in ctx.violations):
        # a concrete failing input is already in hand: the verdict is settled, skip the most expensive unit
        ctx.notes.append("context: skipped, the threaded unit already produced a concrete failing input")
    else:
        unit_context(ctx)


def replay(ctx, obj):
    r = obj["replay"]
    if obj.get("unit") == "threaded" or (isinstance(r.get("input"), dict) and "schedule" in r.get("input", {})) \
            or "schedule" in r:
        inp = r["input"] if isinstance(r.get("input"), dict) else r
        case, schedule = inp["case"], inp["schedule"]
        if schedule is None:
            # a failure seen under the real OS scheduler: re-sample
            _worker_init()
            res = exec_os_task({"kind": "os", "case": case, "reps": 20, "how": inp.get("how") or "iter"})
            sys.stdout = sys.__stdout__
            print("case:", case_tag(case), "| 20 runs under the OS scheduler:", res["codes"])
            for f in res["failures"]:
                print("property FAILS:", f["what"])
            return 1 if res["failures"] else 0
        import contextlib
        import io
        with contextlib.redirect_stdout(io.StringIO()):
            res = exec_task({"kind": "replay", "case": case, "schedule": schedule})
        print("case:", case_tag(case))
        print("threads:", res["names"], "schedule:", schedule)
        print("model comparison:", res["disagreements"][0]["what"] if res["disagreements"] else "agrees")
        for f in res["failures"]:
            print("property FAILS:", f["what"])
            print("final:", json.dumps(f["final"]))
        if not res["failures"]:
            print("property: holds on this schedule (%s)" % res["outcomes"])
        from harness.sched.core import shutdown_pool
        shutdown_pool()
        return 1 if res["failures"] else 0
    case = r.get("case") if isinstance(r.get("input"), str) else r.get("input")
    nodes = [tuple(x) for x in case["nodes"]]
    fault = tuple(case["fault"]) if case["fault"] else None
    res, out = run_impl(nodes, case["spies"], case["target"], fault)
    w = whole(nodes, case["target"])
    bad = (res.startswith("ok") and out != w) or (res.startswith("err") and fault is None)
    print("impl:", res, "| whole:", w, "| property:", "FAILS" if bad else "holds")
    return 1 if bad else 0
